"""Orchestrator: ./check <Cxx> <quick|thorough> [--replay F]

Parent mode: spawn one fresh interpreter per shard (subprocess.run with a
watchdog timeout, never multiprocessing.Pool), merge, classify, write evidence.
Shard mode (--shard i n out): run the property module in-process and dump state.
"""
import argparse, importlib, json, os, subprocess, sys, tempfile, time, traceback
from concurrent.futures import ThreadPoolExecutor

VERIF = os.path.dirname(os.path.dirname(os.path.abspath(__file__)))


def load_mod(prop):
    return importlib.import_module("pbmon.props." + prop.lower())


def shard_main(args):
    from . import boot  # noqa: F401  imports pybrops from the working tree
    from .verdict import Ctx
    mod = load_mod(args.prop)
    coords = json.loads(args.coords) if args.coords else None
    ctx = Ctx(args.prop, args.tier, args.seed, args.shard[0], args.shard[1], replay_coords=coords)
    try:
        if coords is not None and hasattr(mod, "replay"):
            mod.replay(ctx, coords)
        else:
            mod.run_shard(ctx)
        state = ctx.dump()
        state["crash"] = None
    except BaseException as e:  # harness bug or import failure: inconclusive, never "held"
        state = ctx.dump()
        state["crash"] = "%s: %s\n%s" % (type(e).__name__, e, traceback.format_exc()[-3000:])
    with open(args.out, "w") as f:
        json.dump(state, f)
    return 0


def env_for_children(hashseed="0"):
    env = dict(os.environ)
    pp = [VERIF]
    env["PYTHONPATH"] = os.pathsep.join(pp + [p for p in env.get("PYTHONPATH", "").split(os.pathsep) if p])
    env["PYTHONDONTWRITEBYTECODE"] = "1"
    env["PYTHONHASHSEED"] = hashseed
    for k in ("OMP_NUM_THREADS", "OPENBLAS_NUM_THREADS", "MKL_NUM_THREADS"):
        env[k] = "1"
    return env


def main():
    ap = argparse.ArgumentParser()
    ap.add_argument("prop")
    ap.add_argument("tier", nargs="?", default=os.environ.get("VERIF_TIER", "quick"), choices=["quick", "thorough"])
    ap.add_argument("--seed", type=int, default=int(os.environ.get("VERIF_SEED", "0") or 0))
    ap.add_argument("--replay")
    ap.add_argument("--shard", type=int, nargs=2)
    ap.add_argument("--out")
    ap.add_argument("--coords")
    args = ap.parse_args()
    args.prop = args.prop.upper()
    if args.shard:
        return shard_main(args)

    from . import verdict
    t0 = time.time()
    deps = os.path.join(VERIF, ".deps")
    if deps not in sys.path:
        sys.path.append(deps)
    mod_spec = importlib.util.find_spec("pbmon.props." + args.prop.lower())
    if mod_spec is None:
        print("INCONCLUSIVE property=%s reason=no such check" % args.prop)
        return 2
    # The parent reads only static attributes; importing the module must not import pybrops.
    mod = load_mod(args.prop)
    replay_rec = None
    tier, seed = args.tier, args.seed
    if args.replay:
        with open(args.replay) as f:
            replay_rec = json.load(f)
        tier, seed = replay_rec.get("tier", tier), replay_rec.get("seed", seed)
        shards = [(replay_rec.get("shard", 0), replay_rec.get("nshards", 1))]
    else:
        n = mod.NSHARDS[tier]
        shards = [(i, n) for i in range(n)]
    timeout = getattr(mod, "TIMEOUT", {"quick": 900, "thorough": 3 * 3600})[tier]
    tmpd = tempfile.mkdtemp(prefix="pbmon-%s-" % args.prop, dir=os.environ.get("PBMON_SCRATCH"))
    env = env_for_children()
    env["PBMON_SCRATCH_DIR"] = tmpd

    def run_one(sh):
        out = os.path.join(tmpd, "shard%d.json" % sh[0])
        cmd = [sys.executable, "-m", "pbmon.run", args.prop, tier, "--seed", str(seed),
               "--shard", str(sh[0]), str(sh[1]), "--out", out]
        if replay_rec is not None:
            cmd += ["--coords", json.dumps(replay_rec.get("coords"))]
        try:
            p = subprocess.run(cmd, env=env, cwd=VERIF, timeout=timeout, capture_output=True, text=True)
        except subprocess.TimeoutExpired:
            return None, "shard %d: watchdog (%ds) fired" % (sh[0], timeout)
        if not os.path.exists(out):
            return None, "shard %d: no state written (rc=%s) %s" % (sh[0], p.returncode, (p.stderr or "")[-800:])
        with open(out) as f:
            st = json.load(f)
        if st.get("crash"):
            return st, "shard %d crashed: %s" % (sh[0], st["crash"][-1200:])
        return st, None

    nworkers = min(len(shards), int(os.environ.get("PBMON_JOBS", "16")))
    with ThreadPoolExecutor(nworkers) as ex:
        results = list(ex.map(run_one, shards))
    import shutil
    shutil.rmtree(tmpd, ignore_errors=True)
    states = [s for s, _ in results if s is not None]
    reasons = [r for _, r in results if r]
    merged = verdict.merge(states)
    return verdict.finish(mod, tier, seed, merged, reasons, time.time() - t0, replay_mode=bool(args.replay))


if __name__ == "__main__":
    sys.exit(main())
