"""Import the library from the repository working tree (never a snapshot)."""
import os, sys, warnings

REPO = os.environ.get("PBMON_REPO", "/repo")
from . import compat  # noqa: F401  (must run before pybrops is imported)

if REPO not in sys.path:
    sys.path.insert(0, REPO)
_deps = os.path.join(os.path.dirname(os.path.dirname(os.path.abspath(__file__))), ".deps")
if _deps not in sys.path:
    sys.path.append(_deps)  # after site-packages: never shadows the repo's own dependencies
warnings.filterwarnings("ignore")
import numpy  # noqa: E402
numpy.seterr(all="ignore")
import pybrops  # noqa: E402

_f = os.path.realpath(pybrops.__file__)
if not _f.startswith(os.path.realpath(REPO) + os.sep):
    raise ImportError("pybrops imported from %s, not from %s" % (_f, REPO))


def under_repo(fn):
    """True when the code object of ``fn`` comes from the repo working tree."""
    code = getattr(fn, "__code__", None)
    if code is None:
        return False
    return os.path.realpath(code.co_filename).startswith(os.path.realpath(REPO) + os.sep)
