"""Run context, violation records, finding classification, evidence writer.

A property check = one module ``pbmon.props.cXX`` exposing

    PROPERTY = "Cxx"
    CLAUSES  = {"Cxx.name": minimum number of evaluations, ...}
    NSHARDS  = {"quick": k, "thorough": 16}
    RULE     = "text: how cases are generated, what is non-trivial/distinct"
    ASSUME   = [...]                # assumptions / trusted base
    def run_shard(ctx): ...         # generate cases, drive real code, call ctx.check(...)
    def replay(ctx, coords): ...    # re-run exactly one case (optional)

Every shard runs in its own interpreter and dumps a JSON state; the parent
merges the states, classifies violations against /verif/known_findings.json,
writes the evidence file, prints the verdict lines and picks the exit code.
"""
import collections, hashlib, json, os, re, time, traceback

import numpy

VERIF = os.path.dirname(os.path.dirname(os.path.abspath(__file__)))
# PBMON_OUT redirects evidence/replays (used when a check is pointed at a scratch copy via PBMON_REPO)
OUT = os.environ.get("PBMON_OUT") or VERIF
MAX_SAMPLES = 6


def jsonable(o, depth=0):
    """Best-effort conversion of witnesses to JSON (arrays as nested lists)."""
    if depth > 8:
        return repr(o)[:200]
    if o is None or isinstance(o, (bool, int, str)):
        return o
    if isinstance(o, float):
        return o if o == o and abs(o) != float("inf") else repr(o)
    if isinstance(o, (numpy.bool_,)):
        return bool(o)
    if isinstance(o, numpy.integer):
        return int(o)
    if isinstance(o, numpy.floating):
        return jsonable(float(o))
    if isinstance(o, numpy.ndarray):
        if o.size > 4000:
            return {"ndarray": "too large", "shape": list(o.shape), "dtype": str(o.dtype),
                    "head": jsonable(o.ravel()[:50].tolist(), depth + 1)}
        return {"dtype": str(o.dtype), "shape": list(o.shape), "data": jsonable(o.tolist(), depth + 1)}
    if isinstance(o, dict):
        return {str(k): jsonable(v, depth + 1) for k, v in o.items()}
    if isinstance(o, (list, tuple, set, frozenset)):
        return [jsonable(v, depth + 1) for v in o]
    if isinstance(o, bytes):
        return o.hex()[:200]
    return repr(o)[:400]


def digest(*parts):
    h = hashlib.blake2b(digest_size=8)
    for p in parts:
        if isinstance(p, numpy.ndarray):
            h.update(str(p.dtype).encode()); h.update(str(p.shape).encode())
            h.update(numpy.ascontiguousarray(p).tobytes() if p.dtype != object else repr(p.tolist()).encode())
        else:
            h.update(repr(p).encode())
        h.update(b"|")
    return h.hexdigest()


def derive_seed(*parts):
    h = hashlib.blake2b(repr(parts).encode(), digest_size=8).digest()
    return int.from_bytes(h, "little")


class Ctx:
    """Per-shard recording context handed to ``run_shard``."""

    def __init__(self, prop, tier, seed, shard, nshards, replay_coords=None):
        self.prop, self.tier, self.seed = prop, tier, int(seed)
        self.shard, self.nshards = int(shard), int(nshards)
        self.replay_coords = replay_coords
        self.clauses = collections.Counter()
        self.classes = collections.Counter()
        self.raised_ = collections.Counter()
        self.raised_examples = {}
        self.hooks = collections.Counter()
        self.distinct = set()
        self.ncases = 0
        self.samples = []
        self.violations = {}      # key -> record
        self.maxnotes = {}
        self.sumnotes = collections.Counter()
        self.notes = {}
        self.t0 = time.time()

    # -- generators ---------------------------------------------------
    def rng(self, *coords):
        return numpy.random.Generator(numpy.random.PCG64(derive_seed(self.seed, self.prop, *coords)))

    def n(self, quick, thorough):
        """Per-shard number of cases for this tier (total budget split over shards)."""
        tot = quick if self.tier == "quick" else thorough
        base, rem = divmod(int(tot), self.nshards)
        return base + (1 if self.shard < rem else 0)

    def case_ids(self, quick, thorough):
        """Global case numbers handled by this shard (strided)."""
        if self.replay_coords is not None:
            return [int(self.replay_coords[0])]
        tot = quick if self.tier == "quick" else thorough
        return range(self.shard, int(tot), self.nshards)

    # -- recording ----------------------------------------------------
    def case(self, icls, *digest_parts, trivial=False):
        self.ncases += 1
        self.classes[icls] += 1
        if not trivial:
            self.distinct.add(digest(icls, *digest_parts))

    def sample(self, obj):
        if len(self.samples) < MAX_SAMPLES:
            self.samples.append(jsonable(obj))

    def ok(self, clause, n=1):
        self.clauses[clause] += n

    def check(self, clause, cond, site, rel, icls="any", what=None, witness=None, coords=None):
        """Count one evaluation of ``clause``; record a violation when ``cond`` is false."""
        self.clauses[clause] += 1
        if not cond:
            self.violation(clause, site, rel, icls, what, witness, coords)
        return bool(cond)

    def violation(self, clause, site, rel, icls="any", what=None, witness=None, coords=None):
        key = "%s|%s|%s|%s" % (clause, site, rel, icls)
        rec = self.violations.get(key)
        if rec is None:
            self.violations[key] = {
                "property": self.prop, "clause": clause, "key": key, "count": 1,
                "what": what or ("%s: %s violated at %s (%s)" % (clause, rel, site, icls)),
                "coords": jsonable(list(coords) if coords is not None else None),
                "seed": self.seed, "tier": self.tier, "shard": self.shard, "nshards": self.nshards,
                "witness": jsonable(witness),
            }
        else:
            rec["count"] += 1

    def raised(self, op, exc=None):
        self.raised_[op] += 1
        if exc is not None and op not in self.raised_examples:
            self.raised_examples[op] = "%s: %s" % (type(exc).__name__, str(exc)[:160])

    def hook(self, name, n=1):
        self.hooks[name] += n

    def maxnote(self, key, value):
        v = float(value)
        if v == v and (key not in self.maxnotes or v > self.maxnotes[key]):
            self.maxnotes[key] = v

    def sumnote(self, key, value=1):
        self.sumnotes[key] += value

    def note(self, key, value):
        self.notes[key] = jsonable(value)

    def dump(self):
        return {
            "prop": self.prop, "tier": self.tier, "seed": self.seed, "shard": self.shard,
            "clauses": dict(self.clauses), "classes": dict(self.classes),
            "raised": dict(self.raised_), "raised_examples": self.raised_examples,
            "hooks": dict(self.hooks), "distinct": sorted(self.distinct), "ncases": self.ncases,
            "samples": self.samples, "violations": self.violations,
            "maxnotes": self.maxnotes, "sumnotes": dict(self.sumnotes), "notes": self.notes,
            "wall_s": time.time() - self.t0,
        }


def merge(states):
    out = {"clauses": collections.Counter(), "classes": collections.Counter(), "raised": collections.Counter(),
           "raised_examples": {}, "hooks": collections.Counter(), "distinct": set(), "ncases": 0, "samples": [],
           "violations": {}, "maxnotes": {}, "sumnotes": collections.Counter(), "notes": {}, "shard_wall_s": []}
    for s in states:
        for k in ("clauses", "classes", "raised", "hooks", "sumnotes"):
            out[k].update(s[k])
        for k, v in s["raised_examples"].items():
            out["raised_examples"].setdefault(k, v)
        out["distinct"].update(s["distinct"])
        out["ncases"] += s["ncases"]
        for smp in s["samples"]:
            if len(out["samples"]) < MAX_SAMPLES:
                out["samples"].append(smp)
        for k, v in s["violations"].items():
            if k in out["violations"]:
                out["violations"][k]["count"] += v["count"]
            else:
                out["violations"][k] = dict(v)
        for k, v in s["maxnotes"].items():
            if k not in out["maxnotes"] or v > out["maxnotes"][k]:
                out["maxnotes"][k] = v
        for k, v in s["notes"].items():
            out["notes"].setdefault(k, v)
        out["shard_wall_s"].append(round(s["wall_s"], 2))
    return out


def load_known(prop):
    path = os.path.join(VERIF, "known_findings.json")
    try:
        with open(path) as f:
            data = json.load(f)
    except FileNotFoundError:
        return {}, []
    known = {e["key"]: e for e in data.get("findings", []) if e.get("property") == prop and e.get("status") == "known"}
    fixed = [e for e in data.get("findings", []) if e.get("property") == prop and e.get("status") == "fixed"]
    return known, fixed


def _safe(name):
    return re.sub(r"[^A-Za-z0-9_.-]+", "_", name)[:80]


def finish(mod, tier, seed, merged, inconclusive_reasons, wall_s, replay_mode=False):
    """Classify, write evidence + replays, print verdict lines; return exit code."""
    prop = mod.PROPERTY
    known, fixed = load_known(prop)
    lines = []
    new_viol, known_seen = [], []
    rdir = os.path.join(OUT, "replays", prop)
    if not replay_mode and os.path.isdir(rdir):  # replays describe the latest run only
        for fn in os.listdir(rdir):
            os.unlink(os.path.join(rdir, fn))
    for key, rec in sorted(merged["violations"].items()):
        if key in known:
            known_seen.append(key)
            lines.append("KNOWN-FINDING: property=%s %s [key=%s, seen %d times this run]" % (prop, known[key]["what"], key, rec["count"]))
        else:
            os.makedirs(rdir, exist_ok=True)
            path = os.path.join(rdir, _safe(key) + "-" + hashlib.blake2b(key.encode(), digest_size=4).hexdigest() + ".json")
            with open(path, "w") as f:
                json.dump(rec, f, indent=1)
            new_viol.append((key, path, rec))
            lines.append("VIOLATION property=%s replay=%s" % (prop, path))
            lines.append("  key=%s count=%d :: %s" % (key, rec["count"], rec["what"]))
    # clause minimums -> inconclusive
    reasons = list(inconclusive_reasons)
    if not replay_mode:
        for clause, minimum in getattr(mod, "CLAUSES", {}).items():
            got = merged["clauses"].get(clause, 0)
            if got < minimum:
                reasons.append("clause %s evaluated %d times (< %d)" % (clause, got, minimum))
        for h in getattr(mod, "HOOKS_REQUIRED", []):
            if merged["hooks"].get(h, 0) == 0:
                reasons.append("hook %s never reached" % h)
    distinct_n = len(merged["distinct"])
    evaluations = int(sum(merged["clauses"].values()))
    cov = {
        "evaluations": evaluations,
        "cases": merged["ncases"],
        "distinct_nontrivial": distinct_n,
        "rule": getattr(mod, "RULE", ""),
        "samples": merged["samples"],
        "clause_evaluations": dict(sorted(merged["clauses"].items())),
        "input_classes": dict(sorted(merged["classes"].items())),
        "raised": dict(sorted(merged["raised"].items())),
        "raised_examples": merged["raised_examples"],
        "hook_evaluations": dict(sorted(merged["hooks"].items())),
        "worst_observed": merged["maxnotes"],
        "counters": dict(sorted(merged["sumnotes"].items())),
        "notes": merged["notes"],
        "known_findings_reobserved": known_seen,
        "fixed_findings_watched": [e["key"] for e in fixed],
        "new_violation_keys": [k for k, _, _ in new_viol],
        "inconclusive_reasons": reasons,
        "shard_wall_s": merged["shard_wall_s"],
        "trusted_base": ["numpy/scipy", "pbmon.compat numpy alias shim", "pbmon oracles"] + list(getattr(mod, "TRUSTED", [])),
        "verdict": "violated" if new_viol else ("inconclusive" if reasons else "held on what was observed"),
    }
    ev = {
        "property_id": prop, "tier": tier, "seed": int(seed), "level": "exploration",
        "coverage": cov, "assumptions": list(getattr(mod, "ASSUME", [])),
        "wall_s": round(wall_s, 2), "violations": len(new_viol),
    }
    if not replay_mode:
        os.makedirs(os.path.join(OUT, "evidence"), exist_ok=True)
        evpath = os.path.join(OUT, "evidence", prop + ".json")
        try:
            _validate(ev)
        except Exception as e:  # schema problem is our bug: report as inconclusive
            reasons.append("evidence does not validate: %s" % str(e)[:200])
        with open(evpath, "w") as f:
            json.dump(ev, f, indent=1, sort_keys=False)
    for ln in lines:
        print(ln)
    summ = "%s %s seed=%s: %d cases, %d clause evaluations, %d distinct non-trivial, %d raised, %.1fs" % (
        prop, tier, seed, merged["ncases"], evaluations, distinct_n, sum(merged["raised"].values()), wall_s)
    print(summ)
    if new_viol:
        return 1
    if reasons:
        for r in reasons:
            print("INCONCLUSIVE property=%s reason=%s" % (prop, r))
        return 2
    print("HELD property=%s (on what was observed; %d known findings re-observed)" % (prop, len(known_seen)))
    return 0


def _validate(ev):
    try:
        import jsonschema
    except ImportError:
        c = ev["coverage"]
        assert c["evaluations"] >= 1 and c["distinct_nontrivial"] >= 2 and len(c["samples"]) >= 1, "generic coverage keys"
        return
    sp = "/root/.vp/EVIDENCE.schema.json"
    if not os.path.exists(sp):
        sp = os.path.join(VERIF, "schemas", "EVIDENCE.schema.json")
    with open(sp) as f:
        schema = json.load(f)
    jsonschema.validate(ev, schema)
