"""Statistical acceptance tests with an explicit error budget (DESIGN 2.3).

Every test is exact (binomial) or chi-square (variance of normal effects).  A
run declares how many tests it will make (`ntests`) *before* looking at data; the
per-test level is ALPHA_FAMILY / ntests (Bonferroni).  A first-stage rejection is
only a *suspect*: the caller re-samples with an independent derived seed and 4x
the sample size and calls the test again at ALPHA_CONFIRM; only a confirmed
rejection is a violation.
"""
import math

from scipy import stats as _st

ALPHA_FAMILY = 1e-9
ALPHA_CONFIRM = 1e-6


def binom_pvalue(k, n, p):
    """Exact two-sided p-value (doubling the smaller tail, capped at 1)."""
    if n == 0:
        return 1.0
    if p <= 0.0:
        return 1.0 if k == 0 else 0.0
    if p >= 1.0:
        return 1.0 if k == n else 0.0
    lo = _st.binom.cdf(k, n, p)
    hi = _st.binom.sf(k - 1, n, p)
    return float(min(1.0, 2.0 * min(lo, hi)))


def chi2_var_pvalue(ss, df, sigma2):
    """Two-sided p-value for sum of squares ``ss`` of ``df`` iid N(0, sigma2) deviations."""
    if df <= 0:
        return 1.0
    if sigma2 <= 0.0:
        return 1.0 if ss <= 1e-18 else 0.0
    x = ss / sigma2
    lo = _st.chi2.cdf(x, df)
    hi = _st.chi2.sf(x, df)
    return float(min(1.0, 2.0 * min(lo, hi)))


def min_detectable_binom(n, p, alpha, power=0.99):
    """Approximate smallest |delta| detected with the given power (normal approximation)."""
    if n == 0:
        return float("inf")
    za = _st.norm.isf(alpha / 2.0)
    zb = _st.norm.isf(1.0 - power)
    return float((za + zb) * math.sqrt(max(p * (1 - p), 1e-12) / n))


class Family:
    """Bookkeeping for one family of tests with a Bonferroni budget."""

    def __init__(self, ntests, alpha=ALPHA_FAMILY):
        self.ntests = max(1, int(ntests))
        self.level = alpha / self.ntests
        self.done = 0
        self.minp = 1.0

    def reject(self, pvalue):
        self.done += 1
        if self.done > self.ntests:
            raise RuntimeError("more tests than declared in the family budget")
        self.minp = min(self.minp, pvalue)
        return pvalue < self.level
