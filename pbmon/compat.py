"""Compatibility shim (trusted base, DESIGN.md section 0).

/venv ships numpy >= 2.4 which removed ``numpy.float_`` and ``numpy.in1d``;
pybrops at the pinned commit still uses both, so ``import pybrops`` fails.
The shim restores exactly these two aliases with their documented
replacements, only when they are missing, before pybrops is imported.
"""
import numpy

APPLIED = []
if not hasattr(numpy, "float_"):
    numpy.float_ = numpy.float64
    APPLIED.append("numpy.float_=numpy.float64")
if not hasattr(numpy, "in1d"):
    numpy.in1d = numpy.isin
    APPLIED.append("numpy.in1d=numpy.isin")
