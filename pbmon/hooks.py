"""Wrap repository functions from outside (no source hooks).

pybrops modules bind helpers with ``from m import f``; decorating ``m.f`` alone
would be bypassed.  ``rebind`` replaces every pybrops module global and class
attribute that *is* ``orig``.
"""
import sys, functools, collections

COUNTS = collections.Counter()


def rebind(orig, wrapper):
    """Replace ``orig`` by ``wrapper`` wherever pybrops binds it; returns undo list."""
    undo = []
    for name, mod in list(sys.modules.items()):
        if mod is None or not (name == "pybrops" or name.startswith("pybrops.")):
            continue
        d = getattr(mod, "__dict__", None)
        if d is None:
            continue
        for k, v in list(d.items()):
            if v is orig:
                d[k] = wrapper
                undo.append((d, k, orig, None))
            elif isinstance(v, type) and getattr(v, "__module__", "").startswith("pybrops"):
                for ck, cv in list(vars(v).items()):
                    raw = cv.__func__ if isinstance(cv, (staticmethod, classmethod)) else cv
                    if raw is orig:
                        new = type(cv)(wrapper) if isinstance(cv, (staticmethod, classmethod)) else wrapper
                        setattr(v, ck, new)
                        undo.append((v, ck, cv, "attr"))
    return undo


def unbind(undo):
    for tgt, k, old, kind in undo:
        if kind == "attr":
            setattr(tgt, k, old)
        else:
            tgt[k] = old


def recording(orig, name, on_call):
    """Wrapper that calls ``on_call(args, kwargs, result)`` after each call and counts it."""
    @functools.wraps(orig)
    def w(*a, **k):
        r = orig(*a, **k)
        COUNTS[name] += 1
        on_call(a, k, r)
        return r
    w.__wrapped_orig__ = orig
    return w


def wrap_method(cls, mname, make_wrapper):
    """Wrap ``cls.mname`` in place; returns undo list."""
    orig = cls.__dict__[mname]
    setattr(cls, mname, make_wrapper(orig))
    return [(cls, mname, orig, "attr")]
