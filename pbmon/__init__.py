"""pbmon - runtime monitors for the PyBrOpS properties (see /verif/DESIGN.md)."""
