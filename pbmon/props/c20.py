"""C20 - the breeding-programme loop applies operators in order on independent replicates.

Instrumented operator / logbook subclasses (harness classes deriving from the repository's abstract operators) are
handed to the real ``RecurrentSelectionBreedingProgram``; every call they receive is an event for an online trace
automaton written from the property statement (pbmon/oracle/bploop.py holds the value digests, the state generator
and the hostile in-place mutations).  Initial states range from plain python/numpy values to dicts of real library
objects; "every replicate starts from a state equal to the initial one" is judged by an observable-equality walk
(public properties + read-only behavioural probes, C20.fresh.library names the class whose copy differs) and by an
alias walk over the private fields (C20.fresh.noalias).  About a third of the library objects of a state are instances of a
user's subclass of their library class (same constructor, a class attribute, one overridden query method, one or two levels
deep): C20.fresh.class demands that every object of a replicate's first state has the class of its counterpart.
"""
import contextlib
import copy
import io
import traceback

import numpy

from pbmon import boot  # noqa: F401
from pbmon.oracle import bploop as O

PROPERTY = "C20"
NSHARDS = {"quick": 4, "thorough": 16}
CLAUSES = {
    "C20.order": 20000, "C20.order.complete": 800, "C20.time": 20000,
    "C20.chain": 8000, "C20.chain.mcfg": 2000, "C20.log.state": 8000, "C20.lbook.rep": 8000,
    "C20.fresh.equal": 1500, "C20.fresh.noalias": 3000, "C20.fresh.library": 300, "C20.fresh.class": 400,
    "C20.start.unmodified": 2000,
    "C20.evolve.returns": 800,
}
HOOKS_REQUIRED = ["operator/logbook events", "evolve calls", "later replicates after in-place mutation",
                  "anchor entered: RecurrentSelectionBreedingProgram.reset", "anchor entered: RecurrentSelectionBreedingProgram.advance",
                  "anchor entered: RecurrentSelectionBreedingProgram.evolve", "anchor entered: RecurrentSelectionBreedingProgram.initialize",
                  "cases with a manual history before evolve()", "cases with dict-subclass containers",
                  "cases with int-subclass / numpy integer arguments", "pselect calls returning an empty mating configuration",
                  "evolve cases with loginit given as numpy.bool_ or 1/0",
                  "cases with operators implementing several operator interfaces",
                  "cases whose initial state holds instances of user subclasses of library classes"]
RULE = ("one case = one programme built from a seeded initial state (classes: empty, scalars, nested lists/dicts/sets, "
        "numpy arrays incl. views/object arrays/NaN, plain objects, cross-container aliasing and cycles, non-string keys, "
        "a pair of pybrops matrices, and 'library' states whose five dicts hold what the containers are documented to hold: "
        "phased and unphased genotype matrices grouped along taxa only / variants only / both / neither, lists of matrices, "
        "pandas phenotype frames with NaN, the three breeding-value matrix classes, additive / additive+dominance (non-zero u_d) / "
        "rrBLUP models with u_misc and hyperparameters, standard and extended genetic maps (grouped or not, with or without "
        "interpolators), coancestry matrices, progeny variance matrices, phenotyping protocols with their own generator; about a third of these objects - and of the matrices of the 'pybrops' class - are instances of a USER'S SUBCLASS "
        "of their library class with the same constructor, a class attribute and one overridden query method (breeding values on another "
        "scale, frequency of the other allele, rounded trait means, interpolation in centimorgans), one or two levels deep, also below "
        "rrBLUPModel0 / the additive+dominance model and as the model inside a phenotyping protocol), initialised through the constructor, the setters, the initop inside evolve() or an explicit "
        "initialize(); operator behaviour per run: return inputs / mutate in place (insert, delete, clear, grow lists, "
        "overwrite arrays) / return deep copies (optionally trashing the inputs) / return new dicts sharing nested objects / "
        "mixed per call incl. permuted or aliased returns and late mutation of containers of earlier replicates; logbook "
        "passive or mutating; nrep 0-6 (thorough: up to 10), ngen 0-8 (thorough: up to 25), loginit default/True/False; "
        "in ~30 % of the cases every container the programme meets (initial state incl. nested dicts, what operators return, what the "
        "caller assigns) is a dict subclass (OrderedDict, defaultdict, a user subclass with attributes, or a mix); in ~25 % nrep/ngen/"
        "advance counts are numpy integers or nrep/ngen/t_max/t_cur are instances of an int subclass; "
        "the mating configuration returned by pselect is an EMPTY dict (or empty dict subclass) never / in ~40 % of the cycles / in every "
        "cycle (2:2:1 over runs), and ~3 % of the operator calls return five brand-new empty containers: order, hand-over and log "
        "clauses are judged regardless of the truthiness of what operators return; "
        "the flags loginit (true and false) and verbose are spelled True/False, numpy.bool_ or 1/0 (2:1:1 over runs): log_initialize is "
        "expected for every truthy spelling and must be absent for every falsy one; "
        "operator objects: one class per role (30 %) or classes implementing several operator interfaces - one object registered for two "
        "roles (parent+survivor selection, evaluation+survivor selection, selection+mating, mating+evaluation), one object for all four, "
        "distinct objects of an all-roles class, pairwise multi-role classes - every event is named by the METHOD that was called, so the "
        "order clauses follow the role an operator was registered for; "
        "scenarios: evolve, evolve twice, evolve then advance, operator raising mid-run then evolve again, reset()+advance(); "
        "about a third of the cases first get a manual history on the live programme (reset(), reset()+advance(), start_* "
        "re-assigned to new objects or edited in place, initialize() again with a new initop state, working containers edited "
        "in place or re-assigned, t_cur set by hand) and every later replicate is judged against the CURRENT stored initial state. "
        "Non-trivial: nrep >= 1; distinct = digest of all run parameters and of the initial state.")
ASSUME = ["the time index is 0 at the initial evaluation of a replicate and g in generation g (1-based), i.e. it grows by one per cycle",
          "'the state returned by its predecessor' is decided by value (deep digest of the five containers at hand-over == digest "
          "when the predecessor returned); passing the identical objects is recorded but not required",
          "log_initialize is expected iff loginit is truthy (default true), whatever its spelling (True, numpy.bool_(True), 1)",
          "lbook.rep must be larger by one in each successive replicate (from the anchored mechanism; the statement only says 'logging after every step')",
          "a mutable object reachable both from a replicate's first state and from the stored initial state (or an earlier replicate's "
          "state) contradicts independence, because the property quantifies over operators that mutate what they receive",
          "reset() followed by advance() (without evolve) is read as a replicate whose first cycle has time index 0",
          "'the initial one' is the initial state stored in the programme when evolve() is called: after the caller re-assigns or edits "
          "start_* or calls initialize() again, that newer state is the reference (the oracle follows only changes the harness made itself)",
          "two library objects are equal when every public property of their class (arrays incl. dtype and shape, labels, group labels "
          "and group index metadata, parameters) and the read-only behavioural probes of pbmon/oracle/bploop.py (is_grouped_*(), afreq(), "
          "unscale(), gegv_numpy/gebv_numpy on a fixed marker matrix, genetic-map interpolation) agree; pandas frames by columns, dtypes, "
          "index and cell values (NaN == NaN)",
          "an instance of a user's subclass of a library class (same constructor, overridden methods, class attributes; no instance "
          "attributes of its own) is a valid member of a state container; a state equal to the initial one holds an instance of the SAME "
          "class there (an instance of the base class answers differently): C20.fresh.class, and its fields/probes under C20.fresh.library",
          "an evolve() that raises while plain copy.deepcopy of the stored initial state raises too (the harness edited a library object of "
          "the initial state in place into something its class refuses to rebuild) is counted as raised, not as a violation",
          "dict subclasses are valid state containers and int subclasses valid t_max/t_cur values (the documented checks are "
          "isinstance-based); numpy integers are used only for nrep/ngen/advance counts, which the programme hands to range(); dict "
          "subclasses compare by their items (type and extra attributes of the container are not part of state equality)",
          "evolve()/advance()/construction raising on such valid input means the promised run did not happen: C20.evolve.returns "
          "(counted once per call, also when it returns)",
          "an operator that raises aborts evolve(); only the stored initial state and the next evolve() are judged afterwards"]
TIMEOUT = {"quick": 900, "thorough": 3 * 3600}

from pybrops.breed.arch.RecurrentSelectionBreedingProgram import RecurrentSelectionBreedingProgram  # noqa: E402
from pybrops.breed.op.eval.EvaluationOperator import EvaluationOperator  # noqa: E402
from pybrops.breed.op.init.InitializationOperator import InitializationOperator  # noqa: E402
from pybrops.breed.op.log.Logbook import Logbook  # noqa: E402
from pybrops.breed.op.mate.MatingOperator import MatingOperator  # noqa: E402
from pybrops.breed.op.psel.ParentSelectionOperator import ParentSelectionOperator  # noqa: E402
from pybrops.breed.op.ssel.SurvivorSelectionOperator import SurvivorSelectionOperator  # noqa: E402

SITE = "RecurrentSelectionBreedingProgram."
BEHS = ["same", "inplace", "new", "shallownew", "mixed"]
BEH_ICLS = {"same": "operators returning their inputs", "inplace": "in-place mutating operators",
            "new": "operators returning new containers", "shallownew": "operators returning new dicts that share nested objects",
            "mixed": "mixed operator behaviours"}
STEPS = ("pselect", "mate", "evaluate", "sselect")


class Boom(Exception):
    """Raised on purpose by a harness operator (scenario 'operator raises')."""


class Exp(object):
    __slots__ = ("kind", "t", "r", "first", "site", "rep", "pos")

    def __init__(self, kind, t, r, first, site, rep, pos):
        self.kind, self.t, self.r, self.first, self.site, self.rep, self.pos = kind, t, r, first, site, rep, pos


class Monitor(object):
    """Online trace automaton + state oracles for one programme."""

    def __init__(self, ctx, coords, beh, params):
        self.ctx, self.coords, self.beh, self.params = ctx, coords, beh, params
        self.bicls = BEH_ICLS[beh]
        # coarse class used in finding keys of hand-over clauses
        self.retcls = "operators returning new objects" if beh in ("new", "shallownew", "mixed") else "operators returning the objects they received"
        self.expected, self.pos, self.dead = [], 0, False
        self.trace = []
        self.last = None        # (objects returned by the latest operator, their digests at that time, operator name)
        self.last_mcfg = None   # (object, digest)
        self.earlier, self.current = {}, {}
        self.S0 = None
        self.bp = None
        self.lbook = None
        self.nev = 0
        self.raise_at = None
        self.inplace_done = False   # some in-place mutation happened in an earlier replicate
        self.haslib, self.start_ok = False, True
        self.contkind, self.intkind, self.flagkind = "dict", "int", "True/False"
        self.typecls = "plain dict containers, int arguments"
        self.hist = ""              # "/after manual ..." once the caller worked on the programme by hand before evolve()
        self.inplace_now = False
        self.gsub = None

    # ---- expectations -------------------------------------------------------------------------------
    def expect_evolve(self, nrep, ngen, loginit, rep0):
        for r in range(nrep):
            pos = "first replicate" if (r == 0 and not self.trace) else "later replicate"
            self.expected.append(Exp("evaluate", 0, r, True, "evolve", rep0 + r + 1, pos))
            if loginit:
                self.expected.append(Exp("log_initialize", 0, r, False, "evolve", rep0 + r + 1, pos))
            self._expect_gens(range(1, ngen + 1), r, rep0 + r + 1, pos, False)

    def expect_advance(self, ngen, t0, rep, fresh):
        self._expect_gens(range(t0, t0 + ngen), 0, rep, "reset()+advance()" if fresh else "advance() after evolve()", fresh)

    def _expect_gens(self, ts, r, rep, pos, fresh):
        for t in ts:
            for s in STEPS:
                self.expected.append(Exp(s, t, r, fresh, "advance", rep, pos))
                fresh = False
                self.expected.append(Exp("log_" + s, t, r, False, "advance", rep, pos))

    def witness(self, **kw):
        w = {"run": self.params, "trace_tail": self.trace[-14:], "events_so_far": len(self.trace)}
        w.update(kw)
        return w

    # ---- events -------------------------------------------------------------------------------------
    def enter(self, kind, conts, t_cur, mcfg=None):
        ctx = self.ctx
        self.nev += 1
        ctx.hook("operator/logbook events")
        self.trace.append([kind, t_cur if isinstance(t_cur, int) else repr(t_cur)])
        if self.raise_at is not None and self.nev == self.raise_at:
            raise Boom("injected at event %d (%s)" % (self.nev, kind))
        if self.dead:
            return
        exp = self.expected[self.pos] if self.pos < len(self.expected) else None
        want = exp.kind if exp is not None else "nothing (run complete)"
        ok = ctx.check("C20.order", exp is not None and exp.kind == kind, SITE + (exp.site if exp else "evolve"),
                       "expected %s, got %s" % (want, kind), exp.pos if exp else "after the last expected step",
                       witness=self.witness(expected=want, got=kind), coords=self.coords)
        if not ok:
            self.dead = True
            return
        self.pos += 1
        site = SITE + exp.site
        ctx.check("C20.time", t_cur == exp.t, site,
                  "t_cur == cycle number (0 at the initial evaluation, g in generation g)" if exp.site == "evolve" or exp.pos != "reset()+advance()"
                  else "t_cur == number of cycles since reset()", exp.pos,
                  witness=self.witness(step=kind, t_cur=t_cur, expected_t=exp.t, replicate=exp.r), coords=self.coords)
        islog = kind.startswith("log_")
        if islog:
            rep = self.lbook.rep
            ctx.check("C20.lbook.rep", rep == exp.rep, SITE + "evolve", "lbook.rep grows by one per replicate", exp.pos,
                      witness=self.witness(step=kind, lbook_rep=rep, expected=exp.rep), coords=self.coords)
        if exp.first:
            self.fresh(conts, exp)
            return
        refs, digs, pk = self.last
        d = O.dgs(conts, self.current)
        ident = all(a is b for a, b in zip(conts, refs))
        ctx.sumnote("hand-overs passing the identical containers" if ident else "hand-overs passing equal but not identical containers")
        bad = [O.NAMES[i] for i in range(5) if d[i] != digs[i]]
        if islog:
            ctx.check("C20.log.state", not bad, site, "%s sees the state returned by %s" % (kind, pk), self.retcls,
                      witness=self.witness(differing=bad, identical_objects=ident,
                                           got=[O.brief(conts[i]) for i in range(5) if d[i] != digs[i]][:2],
                                           returned=[O.brief(refs[i]) for i in range(5) if d[i] != digs[i]][:2]), coords=self.coords)
            if kind == "log_pselect":
                m_ok = mcfg is self.last_mcfg[0] or O.dg(mcfg) == self.last_mcfg[1]
                ctx.check("C20.log.state", m_ok, site, "log_pselect sees the mating configuration returned by pselect", self.retcls,
                          witness=self.witness(got=O.brief(mcfg)), coords=self.coords)
        else:
            ctx.check("C20.chain", not bad, site, "%s receives the state returned by %s" % (kind, pk), self.retcls,
                      witness=self.witness(differing=bad, identical_objects=ident,
                                           got=[O.brief(conts[i]) for i in range(5) if d[i] != digs[i]][:2],
                                           returned=[O.brief(refs[i]) for i in range(5) if d[i] != digs[i]][:2]), coords=self.coords)
            if kind == "mate":
                m_ok = self.last_mcfg is not None and (mcfg is self.last_mcfg[0] or O.dg(mcfg) == self.last_mcfg[1])
                ctx.check("C20.chain.mcfg", m_ok, site, "mate receives the mating configuration returned by pselect", self.retcls,
                          witness=self.witness(got=O.brief(mcfg)), coords=self.coords)

    def fresh(self, conts, exp):
        ctx = self.ctx
        # everything seen so far belongs to earlier replicates
        self.earlier.update(self.current)
        self.current = {}
        if self.inplace_now:
            self.inplace_done = True
        if self.inplace_done:
            ctx.hook("later replicates after in-place mutation")
        icls = self.mutcls()
        d = O.dgs(conts, self.current, probe=True)
        bad = [O.NAMES[i] for i in range(5) if d[i] != self.S0[i]]
        ssink = self.check_start()
        ld, wrong = None, []
        if self.haslib and self.start_ok:
            bp = self.bp
            start = [bp.start_genome, bp.start_geno, bp.start_pheno, bp.start_bval, bp.start_gmod]
            info = {}
            ld = O.lib_diff(start, conts, info)
            if ld is None:      # the states differ outside their library objects: C20.fresh.equal says so
                ctx.sumnote("first states not comparable object by object")
            else:
                wrong = [(c, f) for c, f in ld if "__class__" in f]
                nsub = info["user_subclass_instances"]
                if nsub or wrong:
                    ctx.sumnote("user-subclass instances compared with their counterpart in a first state", nsub)
                    # one key per class whose copy is of another class (a subclass of a user's subclass counts as that subclass)
                    for nm in sorted({c.replace("UserSubclass2[", "UserSubclass[") for c, _ in wrong}) or [None]:
                        ctx.check("C20.fresh.class", nm is None, SITE + "reset",
                                  "each object of a replicate's first state is an instance of the class of its counterpart in the stored initial state",
                                  "copy of " + nm if nm else "instances of user subclasses of library classes",
                                  witness=self.witness(replicate=exp.r, differing_objects=[[c, f] for c, f in wrong][:6]), coords=self.coords)
                    ld = [(c, f) for c, f in ld if "__class__" not in f]     # whatever else differs there follows from the class
                ctx.check("C20.fresh.library", not ld, SITE + "reset",
                          "each library object of a replicate's first state is observably equal (fields and behaviour) to its counterpart in the stored initial state",
                          "copy of " + ", ".join(sorted({c for c, _ in ld})) if ld else "library objects",
                          witness=self.witness(replicate=exp.r, differing_objects=[[c, f] for c, f in ld][:6]), coords=self.coords)
        if ld or wrong:      # the whole-state comparison fails for the same reason: one mechanism, one input class
            icls = "state holding library objects whose copies differ"
        ctx.check("C20.fresh.equal", not bad, SITE + "reset", "a replicate's first step receives a state equal to the initial one", icls,
                  witness=self.witness(differing=bad, replicate=exp.r, library_objects=[[c, f] for c, f in (wrong + (ld or []))][:6],
                                       got=[O.brief(conts[i]) for i in range(5) if d[i] != self.S0[i]][:2],
                                       initial=[self.S0brief[i] for i in range(5) if d[i] != self.S0[i]][:2]), coords=self.coords)
        cur = set(self.current)
        sh = [type(self.current[i]).__name__ for i in cur & set(ssink)]
        ctx.check("C20.fresh.noalias", not sh, SITE + "reset", "a replicate's first state shares no mutable object with the stored initial state", "any operators" + self.hist,
                  witness=self.witness(shared_object_types=sorted(set(sh)), n_shared=len(sh), replicate=exp.r), coords=self.coords)
        sh = [type(self.current[i]).__name__ for i in cur & set(self.earlier)]
        ctx.check("C20.fresh.noalias", not sh, SITE + "reset", "a replicate's first state shares no mutable object with an earlier replicate's state", "any operators" + self.hist,
                  witness=self.witness(shared_object_types=sorted(set(sh)), n_shared=len(sh), replicate=exp.r), coords=self.coords)

    def spell(self, flag):
        """A documented boolean flag in the run's spelling: True/False, numpy.bool_ (what a comparison yields) or 1/0."""
        if self.flagkind == "numpy.bool_":
            return numpy.bool_(flag)
        if self.flagkind == "1/0":
            return int(bool(flag))
        return bool(flag)

    def as_count(self, n):
        """nrep / ngen / t_cur as the run's integer type (the programme's documented checks are isinstance-based)."""
        if self.intkind == "int subclass":
            return O.TInt(n)
        if self.intkind == "numpy integer counts":
            return numpy.int64(n)
        return n

    def mutcls(self):
        return ("after in-place mutation by operators" if (self.inplace_done or self.inplace_now) else "no in-place mutation so far") + self.hist

    def check_start(self, extra=None):
        bp = self.bp
        icls = self.mutcls() + ("/" + extra if extra else "")
        ssink = {}
        start = [bp.start_genome, bp.start_geno, bp.start_pheno, bp.start_bval, bp.start_gmod]
        sd = [O.dg(s, ssink, probe=True) for s in start]
        bad = [O.NAMES[i] for i in range(5) if sd[i] != self.S0[i]]
        self.start_ok = not bad
        self.ctx.check("C20.start.unmodified", not bad, SITE + "evolve", "the stored initial state is unchanged", icls,
                       witness=self.witness(differing=bad, now=[O.brief(start[i]) for i in range(5) if sd[i] != self.S0[i]][:2],
                                            initial=[self.S0brief[i] for i in range(5) if sd[i] != self.S0[i]][:2]), coords=self.coords)
        return ssink

    def exit_op(self, kind, out, mcfg=None):
        out = list(out)
        self.last = (out, O.dgs(out, self.current), kind)
        if kind == "pselect":
            self.last_mcfg = (mcfg, O.dg(mcfg))

    def exit_log(self, mutated):
        if mutated and self.last is not None:   # a logbook that writes into the containers: the state an operator returned moved on
            refs, _, pk = self.last
            self.last = (refs, O.dgs(refs, self.current), pk)

    def end_call(self, what, rep_expected, icls_extra):
        ctx = self.ctx
        if not self.dead:
            missing = self.expected[self.pos].kind if self.pos < len(self.expected) else None
            ctx.check("C20.order.complete", missing is None, SITE + what, "every step of the run happened", icls_extra,
                      witness=self.witness(first_missing=missing, n_missing=len(self.expected) - self.pos), coords=self.coords)
        ctx.check("C20.lbook.rep", self.lbook.rep == rep_expected, SITE + "evolve", "lbook.rep after the run == before + nrep", icls_extra,
                  witness=self.witness(lbook_rep=self.lbook.rep, expected=rep_expected), coords=self.coords)
        self.check_start()

    def abort_call(self):
        """An injected exception ended the call: forget the rest of the expectations."""
        del self.expected[self.pos:]
        self.dead = False
        self.raise_at = None


# ---------------------------------------------------------------------- harness operators
class Harness(object):
    """Behaviour of the operators of one run (all randomness from the case generator)."""

    def __init__(self, mon, g, beh, log_mutates):
        self.mon, self.g, self.beh, self.log_mutates = mon, g, beh, log_mutates
        self.n = 0
        self.graveyard = []
        self.fixed_mcfg = {"fixed": True} if g.random() < 0.2 else None
        self.contkind = "dict"
        self.gm, self.mcfg_mode = None, "never empty"     # own stream for falsy-but-valid return values (set by one_case)

    def next_mcfg(self, out, t_cur):
        """Mating configuration returned by pselect: the documented type is dict - an empty one is as valid as any."""
        gm = self.gm
        r = float(gm.random()) if gm is not None else 1.0
        if self.mcfg_mode == "always empty" or (self.mcfg_mode == "sometimes empty" and r < 0.4):
            self.mon.ctx.hook("pselect calls returning an empty mating configuration")
            return {} if (self.contkind == "dict" or r < 0.2) else O.wrap_container(self.contkind, {}, gm)
        if self.fixed_mcfg is not None:
            return self.fixed_mcfg
        return {"cfg": [self.n, t_cur], "pool": out[0]}

    def act(self, kind, conts):
        out = self._act(kind, conts)
        if self.gm is not None and self.gm.random() < 0.03:         # valid but falsy: brand-new EMPTY containers of the same types
            self.mon.ctx.sumnote("operator calls returning five empty containers")
            return [type(c)() if type(c) is not dict else {} for c in out]
        if self.contkind != "dict" and self.g.random() < 0.4:      # hand back dict-subclass containers (new shallow objects)
            if not all(a is b for a, b in zip(out, conts)) or self.g.random() < 0.5:
                out = [O.wrap_container(self.contkind, c, self.g) for c in out]
        return out

    def _act(self, kind, conts):
        g = self.g
        self.n += 1
        tag = (kind, self.n)
        b = self.beh
        if b == "mixed":
            b = ["same", "inplace", "new", "shallownew", "permute", "alias", "stale"][int(g.integers(0, 7))]
        self.graveyard.extend(conts)
        del self.graveyard[:-60]
        if b == "same":
            return conts
        if b == "inplace":
            for _ in range(int(g.integers(1, 4))):
                O.mutate(g, conts[int(g.integers(5))], tag)
            self.mon.inplace_now = True
            return conts
        if b == "new":
            try:
                new = [copy.deepcopy(c) for c in conts]
            except Exception:   # an earlier hostile mutation left an object that its own class refuses to copy: the
                self.mon.ctx.sumnote("harness operator could not deep-copy its input, returned it instead")   # operator's problem
                return conts
            for _ in range(int(g.integers(0, 3))):
                O.mutate(g, new[int(g.integers(5))], tag)
            if g.random() < 0.3:   # and trash what was received
                for c in conts:
                    if g.random() < 0.5:
                        c.clear()
                    else:
                        O.mutate(g, c, tag)
                self.mon.inplace_now = True
            return new
        if b == "shallownew":
            new = [dict(c) for c in conts]
            for _ in range(int(g.integers(1, 3))):
                O.mutate(g, new[int(g.integers(5))], tag)
            self.mon.inplace_now = True
            return new
        if b == "permute":
            k = int(g.integers(1, 5))
            O.mutate(g, conts[0], tag)
            self.mon.inplace_now = True
            return conts[k:] + conts[:k]
        if b == "alias":
            return [conts[int(g.integers(5))]] * 5
        # stale: write into a container met earlier (possibly one of an earlier replicate), then into the current ones
        O.mutate(g, self.graveyard[int(g.integers(len(self.graveyard)))], tag)
        O.mutate(g, conts[int(g.integers(5))], tag)
        self.mon.inplace_now = True
        return conts

    def op(self, kind, conts, t_cur, miscout, mcfg=None):
        self.mon.enter(kind, conts, t_cur, mcfg)
        out = self.act(kind, conts)
        if miscout is not None and self.g.random() < 0.5:
            miscout["note_" + kind] = [t_cur, self.n]
        new_mcfg = None
        if kind == "pselect":
            new_mcfg = self.next_mcfg(out, t_cur)
        self.mon.exit_op(kind, out, new_mcfg)
        return ((new_mcfg,) + tuple(out)) if kind == "pselect" else tuple(out)

    def log(self, kind, conts, t_cur, mcfg=None):
        self.mon.enter(kind, conts, t_cur, mcfg)
        mutated = False
        if self.log_mutates and self.g.random() < 0.5:
            self.n += 1
            O.mutate(self.g, conts[int(self.g.integers(5))], (kind, self.n))
            self.mon.inplace_now = True
            mutated = True
        self.mon.exit_log(mutated)


class HInit(InitializationOperator):
    def __init__(self, state):
        self.state, self.calls = state, 0

    def initialize(self, miscout=None, **kwargs):
        self.calls += 1
        return tuple(self.state)


class HPsel(ParentSelectionOperator):
    def __init__(self, h):
        self.h = h

    def pselect(self, genome, geno, pheno, bval, gmod, t_cur, t_max, miscout=None, **kwargs):
        return self.h.op("pselect", [genome, geno, pheno, bval, gmod], t_cur, miscout)


class HMate(MatingOperator):
    def __init__(self, h):
        self.h = h

    def mate(self, mcfg, genome, geno, pheno, bval, gmod, t_cur, t_max, miscout=None, **kwargs):
        return self.h.op("mate", [genome, geno, pheno, bval, gmod], t_cur, miscout, mcfg)


class HEval(EvaluationOperator):
    def __init__(self, h):
        self.h = h

    def evaluate(self, genome, geno, pheno, bval, gmod, t_cur, t_max, miscout=None, **kwargs):
        return self.h.op("evaluate", [genome, geno, pheno, bval, gmod], t_cur, miscout)


class HSsel(SurvivorSelectionOperator):
    def __init__(self, h):
        self.h = h

    def sselect(self, genome, geno, pheno, bval, gmod, t_cur, t_max, miscout=None, **kwargs):
        return self.h.op("sselect", [genome, geno, pheno, bval, gmod], t_cur, miscout)


class _AllMethods(object):
    """The four operator methods; which interfaces an object *is* depends on the class it is mixed into."""
    def __init__(self, h):
        self.h = h

    def pselect(self, genome, geno, pheno, bval, gmod, t_cur, t_max, miscout=None, **kwargs):
        return self.h.op("pselect", [genome, geno, pheno, bval, gmod], t_cur, miscout)

    def mate(self, mcfg, genome, geno, pheno, bval, gmod, t_cur, t_max, miscout=None, **kwargs):
        return self.h.op("mate", [genome, geno, pheno, bval, gmod], t_cur, miscout, mcfg)

    def evaluate(self, genome, geno, pheno, bval, gmod, t_cur, t_max, miscout=None, **kwargs):
        return self.h.op("evaluate", [genome, geno, pheno, bval, gmod], t_cur, miscout)

    def sselect(self, genome, geno, pheno, bval, gmod, t_cur, t_max, miscout=None, **kwargs):
        return self.h.op("sselect", [genome, geno, pheno, bval, gmod], t_cur, miscout)


class HSelection(_AllMethods, ParentSelectionOperator, SurvivorSelectionOperator):
    """One selection class for parents and survivors."""


class HEvalSelect(_AllMethods, EvaluationOperator, SurvivorSelectionOperator):
    """Evaluation and survivor selection in one class."""


class HSelectMate(_AllMethods, ParentSelectionOperator, MatingOperator):
    """Parent selection and mating in one class."""


class HMateEval(_AllMethods, MatingOperator, EvaluationOperator):
    """Mating and evaluation in one class."""


class HEverything(_AllMethods, SurvivorSelectionOperator, EvaluationOperator, MatingOperator, ParentSelectionOperator):
    """All four operator interfaces in one class."""


ROLE_MODES = ["one class per role", "one class per role", "one class per role",
              "one object for parent and survivor selection", "one object for evaluation and survivor selection",
              "one object for parent selection and mating", "one object for mating and evaluation",
              "one object for all four roles", "distinct objects of an all-roles class", "pairwise multi-role classes"]


def make_operators(h, mode):
    """(pselop, mateop, evalop, sselop) - the programme must drive each by the ROLE it was registered for."""
    if mode == "one object for parent and survivor selection":
        o = HSelection(h)
        return o, HMate(h), HEval(h), o
    if mode == "one object for evaluation and survivor selection":
        o = HEvalSelect(h)
        return HPsel(h), HMate(h), o, o
    if mode == "one object for parent selection and mating":
        o = HSelectMate(h)
        return o, o, HEval(h), HSsel(h)
    if mode == "one object for mating and evaluation":
        o = HMateEval(h)
        return HPsel(h), o, o, HSsel(h)
    if mode == "one object for all four roles":
        o = HEverything(h)
        return o, o, o, o
    if mode == "distinct objects of an all-roles class":
        return HEverything(h), HEverything(h), HEverything(h), HEverything(h)
    if mode == "pairwise multi-role classes":
        return HSelection(h), HMateEval(h), HEvalSelect(h), HSelection(h)
    return HPsel(h), HMate(h), HEval(h), HSsel(h)


class HLog(Logbook):
    def __init__(self, h, rep=0):
        self.h, self._rep, self._data = h, rep, {}

    @property
    def data(self):
        return self._data

    @data.setter
    def data(self, value):
        self._data = value

    @property
    def rep(self):
        return self._rep

    @rep.setter
    def rep(self, value):
        self._rep = value

    def log_initialize(self, genome, geno, pheno, bval, gmod, t_cur, t_max, **kwargs):
        self.h.log("log_initialize", [genome, geno, pheno, bval, gmod], t_cur)

    def log_pselect(self, mcfg, genome, geno, pheno, bval, gmod, t_cur, t_max, **kwargs):
        self.h.log("log_pselect", [genome, geno, pheno, bval, gmod], t_cur, mcfg)

    def log_mate(self, genome, geno, pheno, bval, gmod, t_cur, t_max, **kwargs):
        self.h.log("log_mate", [genome, geno, pheno, bval, gmod], t_cur)

    def log_evaluate(self, genome, geno, pheno, bval, gmod, t_cur, t_max, **kwargs):
        self.h.log("log_evaluate", [genome, geno, pheno, bval, gmod], t_cur)

    def log_sselect(self, genome, geno, pheno, bval, gmod, t_cur, t_max, **kwargs):
        self.h.log("log_sselect", [genome, geno, pheno, bval, gmod], t_cur)

    def reset(self):
        self._rep, self._data = 0, {}

    def write(self, filename):
        pass


# ---------------------------------------------------------------------- one case
SCENARIOS = ["evolve", "evolve", "evolve", "evolve twice", "evolve then advance", "operator raises", "reset+advance"]
INITS = ["constructor", "setters", "initop in evolve", "explicit initialize"]


def _sizes(ctx, g):
    r = float(g.random())
    if r < 0.06:
        nrep = 0
    elif r < 0.16:
        nrep = 1
    elif ctx.tier == "thorough" and r < 0.19:
        nrep = int(g.integers(7, 11))
    else:
        nrep = int(g.integers(2, 7))
    r = float(g.random())
    if r < 0.12:
        ngen = 0
    elif ctx.tier == "thorough" and r < 0.15:
        ngen = int(g.integers(9, 26))
    else:
        ngen = int(g.integers(1, 9))
    return nrep, ngen


def _evolve(ctx, mon, bp, lb, nrep, ngen, loginit, verbose, injected):
    """Call evolve under the monitor.  Returns True when the call returned normally."""
    kw = {}
    if loginit is not None:
        kw["loginit"] = mon.spell(loginit)
    rep0 = lb.rep
    mon.lbook = lb
    mon.expect_evolve(nrep, ngen, loginit is None or bool(loginit), rep0)
    ctx.hook("evolve calls")
    a_nrep, a_ngen = mon.as_count(nrep), mon.as_count(ngen)
    try:
        if verbose:
            with contextlib.redirect_stdout(io.StringIO()):
                bp.evolve(a_nrep, a_ngen, lb, verbose=mon.spell(True), **kw)
        else:
            bp.evolve(a_nrep, a_ngen, lb, **kw)
    except Boom as e:
        ctx.raised("evolve: harness operator raised on purpose", e)
        mon.abort_call()
        mon.check_start("an operator raised")
        return False
    except Exception as e:
        tb = traceback.format_exc()[-1500:]
        try:    # equivalence reading: a start state that plain copy.deepcopy cannot copy either (the harness edited a
            copy.deepcopy([bp.start_genome, bp.start_geno, bp.start_pheno, bp.start_bval, bp.start_gmod])   # library object in place)
        except Exception:
            ctx.raised("evolve: the stored initial state cannot be deep-copied (edited in place by the harness)", e)
            mon.abort_call()
            mon.dead = True
            return False
        ctx.raised("evolve", e)
        ctx.ok("C20.evolve.returns")
        ctx.violation("C20.evolve.returns", SITE + "evolve", "raised %s" % type(e).__name__, mon.typecls,
                      what="evolve raised %s: %s" % (type(e).__name__, str(e)[:160]),
                      witness=mon.witness(traceback=tb), coords=mon.coords)
        mon.abort_call()
        mon.dead = True
        return False
    ctx.ok("C20.evolve.returns")
    mon.end_call("evolve", int(rep0 + nrep), "injected-exception recovery" if injected else "evolve")
    return True


PRELUDE = ["reset", "reset+advance", "assign start_* (new objects)", "assign one start_* (new object)", "edit start_* in place",
           "initialize() again", "edit working containers in place", "assign a working container", "set t_cur"]
HIST = "/after manual reset(), start_* reassignment or initialize() calls"


def _plan(gp):
    """Manual history applied to the live programme before the scenario proper (about a third of the cases)."""
    if gp.random() >= 0.36:
        return []
    plan = ["reset"] if gp.random() < 0.6 else []
    for _ in range(int(gp.integers(1, 4))):
        plan.append(PRELUDE[int(gp.integers(0, len(PRELUDE)))])
    return plan


def _set_initial(mon, S):
    """The harness itself installs a new initial state: the oracle's reference moves with it."""
    mon.S0, mon.S0brief = O.dgs(S, probe=True), [O.brief(x) for x in S]
    mon.haslib = bool(O.lib_index(S)[1])


def _prelude(ctx, mon, bp, lb, initop, gp, plan):
    """Returns False when the case has to stop (the programme raised)."""
    names = ("start_genome", "start_geno", "start_pheno", "start_bval", "start_gmod")
    n = 0
    for act in plan:
        n += 1
        ctx.sumnote("manual history: " + act)
        try:
            if act in ("reset", "reset+advance", "edit start_* in place", "edit working containers in place", "assign a working container") \
                    and not bp.is_initialized():
                bp.initialize()     # the initop delivers the state the oracle already knows
            if act == "reset":
                bp.reset()
            elif act == "reset+advance":
                k = int(gp.integers(1, 3))
                mon.lbook = lb
                mon.expect_advance(k, 0, lb.rep, True)
                ctx.hook("direct reset()+advance() calls")
                bp.reset()
                bp.advance(mon.as_count(k), lb)
                ctx.ok("C20.evolve.returns")
                mon.end_call("advance", lb.rep, "reset()+advance()")
            elif act == "assign start_* (new objects)":
                S = O.gen_state(gp, O.STATE_CLASSES[int(gp.integers(1, len(O.STATE_CLASSES)))], mon.gsub)
                S[int(gp.integers(5))][("installed", n)] = [n]
                S = O.wrap_state(mon.contkind, S, gp)
                _set_initial(mon, S)
                bp.start_genome, bp.start_geno, bp.start_pheno, bp.start_bval, bp.start_gmod = S
            elif act == "assign one start_* (new object)":
                if not bp.is_initialized():
                    continue
                i = int(gp.integers(5))
                new = O.wrap_container(mon.contkind, {("installed", n): [n, float(gp.random())], "arr": gp.integers(0, 3, 4)}, gp)
                mon.S0[i], mon.S0brief[i] = O.dg(new, probe=True), O.brief(new)
                setattr(bp, names[i], new)
            elif act == "edit start_* in place":
                mon.check_start("before a manual edit")     # never re-base over an unnoticed change
                for _ in range(int(gp.integers(1, 3))):
                    O.mutate(gp, getattr(bp, names[int(gp.integers(5))]), ("manual-start", n))
                _set_initial(mon, [getattr(bp, x) for x in names])
            elif act == "initialize() again":
                S = O.gen_state(gp, O.STATE_CLASSES[int(gp.integers(1, len(O.STATE_CLASSES)))], mon.gsub)
                S[int(gp.integers(5))][("re-initialised", n)] = [n]
                S = O.wrap_state(mon.contkind, S, gp)
                initop.state = S
                _set_initial(mon, S)
                bp.initialize()
            elif act == "edit working containers in place":
                if not all(hasattr(bp, "_" + x) for x in O.NAMES):    # no reset() yet: there are no working containers
                    continue
                work = [bp.genome, bp.geno, bp.pheno, bp.bval, bp.gmod]
                for _ in range(int(gp.integers(1, 3))):
                    O.mutate(gp, work[int(gp.integers(5))], ("manual-work", n))
                work[int(gp.integers(5))][("manual-work", n, "mark")] = n
            elif act == "assign a working container":
                setattr(bp, O.NAMES[int(gp.integers(5))], O.wrap_container(mon.contkind, {("manual-assign", n): [n]}, gp))
            elif act == "set t_cur":
                bp.t_cur = O.TInt(int(gp.integers(0, 9))) if mon.intkind == "int subclass" else int(gp.integers(0, 9))
        except Exception as e:
            ctx.raised("manual call before evolve: " + act, e)
            ctx.ok("C20.evolve.returns")
            ctx.violation("C20.evolve.returns", SITE + ("advance" if act == "reset+advance" else "reset"), "raised %s" % type(e).__name__,
                          "manual call before evolve/" + mon.typecls, what="%s raised %s: %s" % (act, type(e).__name__, str(e)[:160]),
                          witness=mon.witness(traceback=traceback.format_exc()[-1500:]), coords=mon.coords)
            return False
    return True


def one_case(ctx, c):
    g = ctx.rng("run", c)
    plan = _plan(ctx.rng("prelude", c))
    beh = BEHS[int(g.integers(0, 5))] if g.random() < 0.8 else "inplace"
    init = INITS[int(g.integers(0, 4))]
    scls = O.STATE_CLASSES[int(g.integers(0, len(O.STATE_CLASSES)))]
    scen = SCENARIOS[int(g.integers(0, len(SCENARIOS)))]
    nrep, ngen = _sizes(ctx, g)
    if scls == "library":     # digesting a zoo of library objects at every step is dear: short runs, the clauses at stake are per replicate
        nrep, ngen = min(nrep, 4), min(ngen, 3)
    loginit = [None, True, False][int(g.integers(0, 3))]
    log_mutates = bool(g.random() < 0.12)
    verbose = bool(g.random() < 0.08)
    t_max = int(g.integers(0, 30))
    gt = ctx.rng("types", c)
    contkind = "dict" if gt.random() < 0.7 else O.CONTAINER_KINDS[int(gt.integers(0, len(O.CONTAINER_KINDS)))]
    intkind = "int" if gt.random() < 0.75 else ["int subclass", "numpy integer counts"][int(gt.integers(0, 2))]
    gsub = ctx.rng("user subclasses", c)
    S = O.wrap_state(contkind, O.gen_state(g, scls, gsub), gt)
    S0 = O.dgs(S, probe=True)
    params = {"case": c, "operators": beh, "init": init, "state_class": scls, "scenario": scen, "nrep": nrep, "ngen": ngen,
              "loginit": loginit, "logbook_mutates": log_mutates, "t_max": t_max, "manual_history_before": plan,
              "containers": contkind, "integers": intkind}
    coords = [c, "run"]
    ctx.case("%s/%s/%s" % (beh, init, scen), scls, nrep, ngen, loginit, log_mutates, t_max, S0, plan, contkind, intkind, trivial=(nrep == 0))
    ctx.sumnote("initial-state class: " + scls)
    if c % 97 == 0:
        ctx.sample(dict(params, initial_state=[O.brief(s, 300) for s in S]))
    mon = Monitor(ctx, coords, beh, params)
    mon.S0, mon.S0brief = S0, [O.brief(s) for s in S]
    mon.haslib = bool(O.lib_index(S)[1])
    mon.contkind, mon.intkind, mon.gsub = contkind, intkind, gsub
    nsub = O.count_user_subclass_instances(S) if mon.haslib else 0
    params["user_subclass_instances"] = nsub
    if nsub:
        ctx.hook("cases whose initial state holds instances of user subclasses of library classes")
    # coarse input class for "the call raised" keys: the unusual type that is present (containers first)
    mon.typecls = ("dict-subclass containers" if contkind != "dict" else
                   (intkind + " arguments" if intkind != "int" else "plain dict containers, int arguments"))
    ctx.sumnote("container type: " + contkind)
    ctx.sumnote("integer type: " + intkind)
    if contkind != "dict":
        ctx.hook("cases with dict-subclass containers")
    if intkind != "int":
        ctx.hook("cases with int-subclass / numpy integer arguments")
    h = Harness(mon, g, beh, log_mutates)
    h.contkind = contkind
    mon.flagkind = ["True/False", "True/False", "numpy.bool_", "1/0"][int(ctx.rng("flags", c).integers(0, 4))]
    params["flag_spelling"] = mon.flagkind
    ctx.sumnote("flag spelling: " + mon.flagkind)
    if mon.flagkind != "True/False" and loginit is not None:
        ctx.hook("evolve cases with loginit given as numpy.bool_ or 1/0")
    roles = ROLE_MODES[int(ctx.rng("roles", c).integers(0, len(ROLE_MODES)))]
    params["operator_classes"] = roles
    ctx.sumnote("operator classes: " + roles)
    if roles != "one class per role":
        ctx.hook("cases with operators implementing several operator interfaces")
    ops = make_operators(h, roles)
    h.gm = ctx.rng("falsy", c)
    h.mcfg_mode = ["never empty", "never empty", "sometimes empty", "sometimes empty", "always empty"][int(h.gm.integers(0, 5))]
    params["mating_configuration"] = h.mcfg_mode
    ctx.sumnote("mating configuration: " + h.mcfg_mode)
    if intkind == "int subclass":
        t_max = O.TInt(t_max)
    pre = init in ("constructor", "setters")
    # a pre-initialised programme must never consult its initop: that one would deliver a visibly different state
    other = O.wrap_state(contkind, [dict(s, **{"from-initop": [i]}) for i, s in enumerate(O.gen_state(g, "nested"))], gt)
    initop = HInit(other if pre else S)
    try:
        if init == "constructor":
            bp = RecurrentSelectionBreedingProgram(initop, *ops, t_max,
                                                   start_genome=S[0], start_geno=S[1], start_pheno=S[2], start_bval=S[3], start_gmod=S[4])
        else:
            bp = RecurrentSelectionBreedingProgram(initop, *ops, t_max)
            if init == "setters":
                bp.start_genome, bp.start_geno, bp.start_pheno, bp.start_bval, bp.start_gmod = S
            elif init == "explicit initialize" or scen == "reset+advance":
                bp.initialize()
    except Exception as e:      # a valid initial state / operators / t_max refused: the run promised by the property never happens
        ctx.raised("constructing the programme", e)
        ctx.ok("C20.evolve.returns")
        ctx.violation("C20.evolve.returns", SITE + "__init__/start_* setters/initialize", "raised %s" % type(e).__name__, mon.typecls,
                      what="building the programme (%s) raised %s: %s" % (init, type(e).__name__, str(e)[:160]),
                      witness=mon.witness(traceback=traceback.format_exc()[-1500:]), coords=coords)
        return
    mon.bp = bp
    lb = HLog(h, rep=int(g.integers(0, 4)) if g.random() < 0.3 else 0)
    if plan:
        mon.hist = HIST
        ctx.hook("cases with a manual history before evolve()")
        if not _prelude(ctx, mon, bp, lb, initop, ctx.rng("prelude-run", c), plan):
            return

    if scen == "reset+advance":
        mon.lbook = lb
        k = max(ngen, 1)
        mon.expect_advance(k, 0, lb.rep, True)
        ctx.hook("direct reset()+advance() calls")
        try:
            bp.reset()
            bp.advance(mon.as_count(k), lb)
        except Exception as e:
            ctx.raised("advance", e)
            ctx.ok("C20.evolve.returns")
            ctx.violation("C20.evolve.returns", SITE + "advance", "raised %s" % type(e).__name__, mon.typecls,
                          what="reset()+advance() raised %s: %s" % (type(e).__name__, str(e)[:160]),
                          witness=mon.witness(traceback=traceback.format_exc()[-1500:]), coords=coords)
            return
        ctx.ok("C20.evolve.returns")
        mon.end_call("advance", lb.rep, "reset()+advance()")
        # ... and a full evolve afterwards starts from the initial state again
        _evolve(ctx, mon, bp, lb, max(nrep, 1), min(ngen, 3), loginit, False, False)
        return

    if scen == "operator raises":
        total = max(nrep, 1) * (1 + (0 if loginit is False else 1) + 8 * ngen)
        mon.raise_at = int(g.integers(1, total + 1))
        _evolve(ctx, mon, bp, lb, max(nrep, 1), ngen, loginit, verbose, False)
        _evolve(ctx, mon, bp, lb, max(nrep, 2), ngen, loginit, False, True)
        return

    if not _evolve(ctx, mon, bp, lb, nrep, ngen, loginit, verbose, False):
        return
    if scen == "evolve twice":
        if g.random() < 0.5:
            lb = HLog(h, rep=int(g.integers(0, 3)))
        nrep2, ngen2 = _sizes(ctx, g)
        _evolve(ctx, mon, bp, lb, max(nrep2, 1), ngen2, [None, True, False][int(g.integers(0, 3))], False, False)
    elif scen == "evolve then advance" and nrep >= 1:
        k = int(g.integers(1, 5))
        mon.expect_advance(k, ngen + 1, lb.rep, False)
        ctx.hook("advance() after evolve() calls")
        try:
            bp.advance(mon.as_count(k), lb)
        except Exception as e:
            ctx.raised("advance", e)
            ctx.ok("C20.evolve.returns")
            ctx.violation("C20.evolve.returns", SITE + "advance", "raised %s" % type(e).__name__, mon.typecls,
                          what="advance() after evolve() raised %s: %s" % (type(e).__name__, str(e)[:160]),
                          witness=mon.witness(traceback=traceback.format_exc()[-1500:]), coords=coords)
            return
        ctx.ok("C20.evolve.returns")
        mon.end_call("advance", lb.rep, "advance() after evolve()")


QUICK_TOTAL, THOROUGH_TOTAL = 900, 30000
_INSTALLED = []


def _install(ctx):
    """Reach evidence: count entries of the anchored methods (wrapped on the class, from outside the repository)."""
    if _INSTALLED:
        return
    from pbmon import hooks
    cls = RecurrentSelectionBreedingProgram
    for m in ("initialize", "reset", "advance", "evolve"):
        fn = cls.__dict__[m]
        if not boot.under_repo(fn):
            raise ImportError("RecurrentSelectionBreedingProgram.%s does not come from the repository working tree" % m)

        def make(orig, name="anchor entered: RecurrentSelectionBreedingProgram.%s" % m):
            def w(self, *a, **k):
                ctx.hook(name)
                return orig(self, *a, **k)
            w.__wrapped_orig__ = orig
            return w
        _INSTALLED.extend(hooks.wrap_method(cls, m, make))


def run_shard(ctx):
    _install(ctx)
    for c in ctx.case_ids(QUICK_TOTAL, THOROUGH_TOTAL):
        one_case(ctx, c)


def replay(ctx, coords):
    _install(ctx)
    one_case(ctx, int(coords[0]))
