"""C15 - breeding-value matrices round-trip through scaling without loss.

Three case families (all randomness from ctx.rng(family, c); a case replays from [c, family]):

build    raw matrix -> from_numpy (three concrete classes; also all-zero matrices and constructor-built objects with the
         default location 0.0 / scale 1.0) -> C15.roundtrip, C15.roundtrip.stored, C15.stats*, C15.alias (the caller overwrites
         every array handed out by unscale() and the summaries; the object's state must be untouched)
ops      raw universe (80 taxa x up to 7 named traits) with id-encoded taxa labels and trait NAMES -> matrix -> history of
         1..10 operations: taxa-axis operations INTERLEAVED with trait-axis operations (select/delete/insert/adjoin/concat/
         append/incorp/remove/reorder/sort, axis-specific and axis-generic, copying and in place) and with persistence
         round trips (HDF5 over an earlier larger write, pandas, CSV); after every operation C15.ops (every retained
         (taxon, trait) cell, found through the taxa labels and trait names, carries its raw value), then the build-family
         monitors on the resulting object; earlier shallow/deep copies are re-judged after every step
generic  the generic DenseScaledMatrix (anchored mechanism): rescale / unscale / transform / untransform -> C15.generic

The ground truth is always the raw matrix held by the harness (pbmon/oracle/bvscale.py).
"""
import math

import numpy

from pbmon import boot  # noqa: F401
from pbmon.oracle import bvscale as O

PROPERTY = "C15"
NSHARDS = {"quick": 4, "thorough": 16}
CLAUSES = {
    "C15.roundtrip": 15000,         # per trait column: unscale() == raw, NaN mask identical (fresh from_numpy objects)
    "C15.roundtrip.stored": 15000,  # per trait column: stored values centred / unit sd; constant trait: zeros with scale exactly 1
    "C15.stats": 150000,            # per column x summary, unscale=True, vs. definition on the raw column
    "C15.stats.arg": 40000,         # per column x {targmax, targmin}
    "C15.stats.stored": 80000,      # per NaN-free column x summary, unscale=False, vs. the stored column
    "C15.alias": 20000,             # per judged object: caller overwrites everything unscale()/summaries returned, object state intact
    "C15.ops": 10000,               # per executed taxa-axis operation
    "C15.generic": 10000,           # DenseScaledMatrix relations
}
OPS_TAXA = ["select_taxa", "delete_taxa", "insert_taxa", "adjoin_taxa", "concat_taxa", "append_taxa", "incorp_taxa",
            "remove_taxa", "reorder_taxa", "sort_taxa", "group_taxa"]
OPS_TRAIT = ["select_trait", "delete_trait", "insert_trait", "adjoin_trait", "concat_trait", "append_trait", "incorp_trait",
             "remove_trait", "reorder_trait", "sort_trait"]
OPS_IO = ["hdf5 round trip", "pandas round trip", "csv round trip"]
OPS = OPS_TAXA + OPS_TRAIT + OPS_IO
HOOKS_REQUIRED = ["op:" + o for o in OPS] + ["copy:shallow copy", "copy:deep copy", "recorder:from_numpy", "class:DenseBreedingValueMatrix", "class:DenseEstimatedBreedingValueMatrix",
                                              "class:DenseGenomicEstimatedBreedingValueMatrix"]
RULE = ("seeded class-based raw matrices: 1-40 taxa (10%: up to 200), 1-4 traits, every trait column drawn from a named class "
        "(gaussian with sd 1e-3..1e3, offsets up to +-1e9, constant with short / long binary expansion, integer lattice with "
        "ties, two-level, one-ulp noise around a value, 16 decades of magnitudes), overlaid with NaN entries (30%), all-NaN "
        "(counted only) or single-finite-entry columns; int64 input dtype; the three concrete breeding-value classes.  "
        "Operation histories of 1-10 steps over select/delete/insert/adjoin/concat (new object) and append/incorp/remove/"
        "reorder/sort/group (in place), specific and axis-generic forms, donors standardised separately, donors given as "
        "matrices or as raw arrays, self-donation, repeated taxa; 30% of the histories mix source array types (float64, float32, "
        "int64 rows; initial matrix and donors mostly of a single type, handed over in that type); 40% of the histories keep up to "
        "two earlier shallow (copy.copy / .copy()) or deep copies of the live matrix, continue on either the copy or the "
        "original, and re-judge every kept object (round trip and summaries against its own raw values) after every later "
        "step; trait-axis operations (about 25% of the steps; trait names deliberately not in lexical order, unique, 1-7 traits, "
        "35% of the universes contain taxa that are missing for every trait, 3% are all-zero (location 0, scale 1 throughout), "
        "donor traits standardised on their own, given as matrices or raw arrays, sort with default and explicit keys, "
        "sort() with default axis) are interleaved and raw values are tracked per (taxon, trait name); 25% of the histories "
        "contain persistence round trips of the live matrix (to_hdf5/from_hdf5 by file name or caller-owned handle, root or "
        "named group, the first write preceded by a larger matrix - more taxa or more traits - at the same location; "
        "to_pandas/from_pandas; to_csv/from_csv) after which the history continues on the object read back; the taxa universe of a history has 80 rows, so that the "
        "subsets met along a history differ in location, scale, constancy and NaN pattern.  A history stops at the first "
        "operation whose result no longer reproduces the raw values (later states descend from a corrupted object).  "
        "Non-trivial: more than one taxon or trait; distinct = digest of the raw inputs (and of the initial taxa and "
        "history length).")
ASSUME = [
    "standard deviation / variance are the population forms (ddof=0), i.e. the ones for which 'centred and scaled' stored "
    "columns have unit sd and which numpy's std/var compute by default",
    "for a trait column containing NaN both NaN-aware and NaN-propagating summaries are admissible (the property does not fix "
    "the choice): a summary must be NaN or equal the summary of the finite raw entries; all-NaN columns are only counted",
    "a constant trait is one whose finite raw entries are all equal (including a single finite entry)",
    "summaries called with unscale=False (the default) are the summaries of the stored, standardised values (docstrings: "
    "'unscale: whether to transform results to their unscaled values'); checked only on NaN-free columns",
    "append_taxa / incorp_taxa are given breeding-value matrices (what a raw ndarray means to the inherited in-place forms is "
    "not defined); adjoin_taxa / insert_taxa are given matrices or raw ndarrays on the original scale (their documented use)",
    "results of operations were standardised from values the library reconstructed to rounding error: for them a constant "
    "trait may carry a scale at rounding level instead of exactly 1 (counted, not judged); exact unit scale is demanded of "
    "matrices built directly from raw values",
    "finding keys: input class = class of the raw column for objects returned by a constructor / non-mutating operation, "
    "'taxa set changed in place' for objects modified by append/incorp/remove; a badly standardised result of an operation "
    "that called from_numpy (recorded by a wrapper installed from the harness) is attributed to from_numpy",
    "from_numpy documents a float64 matrix but accepts float32 / int64 arrays silently (as do adjoin/insert for raw values): "
    "such input is asserted, not merely counted, with every taxon judged at the precision of ITS OWN source array - a float64 "
    "or int64 taxon must come back to float64 rounding error whatever it is combined with, a float32 taxon to float32 rounding "
    "error; summaries of a matrix holding float32 taxa are judged with tolerances widened by eps32/eps64; a loss that becomes "
    "visible only at a later step is attributed to the operation that first left float64/int64 taxa in a float32 matrix",
    "trait-axis operations carry location and scale along with their traits and do not re-standardise; trait names are kept "
    "unique (a table with duplicate column names is outside the domain of to_pandas/from_pandas)",
    "persistence: pandas/CSV round trips go through the original scale (unscale=True) and are re-standardised by the reader; "
    "CSV is read with float_precision='round_trip' because pandas' default parser is not exact to float64 rounding "
    "(-0.0003102630688626493 reads back as -0.0003102630688626) - text precision of CSV stays with the persistence property C16",
    "arrays returned by unscale(), tmax/tmin/tmean/trange/tstd/tvar (either flag), targmax/targmin and by the inplace=False / "
    "copy=True forms of DenseScaledMatrix belong to the caller: they may be overwritten without changing the object (C15.alias "
    "is judged behaviourally - state compared before/after the overwrite - and numpy.shares_memory only names the culprit)",
    "a matrix built with the constructor vouches for its own location/scale (docstring): for the default location 0 / scale 1 "
    "only the round trip (raw = stored values) and C15.alias are judged, not the summaries",
    "pandas/CSV persistence is also driven with the label columns switched off on writer and reader (taxa_col=None, "
    "taxa_grp_col=None): rows are then identified by position, the row count and order must be preserved (taxa missing for "
    "every trait included) and the harness re-attaches the labels through the public setters before the history goes on",
    "label contents: every taxon / trait keeps one label for a whole history; 60% of the histories with persistence steps (15% of "
    "the others) use hostile contents - '#', ',', ';', quotes, tab, inner / leading / trailing blanks, non-ASCII, number-like "
    "('007', '1e5', '43.50') and missing-value / boolean tokens ('NA', 'None', 'nan', 'null', 'N/A', '<NA>', '#N/A', 'True', "
    "'-inf') for taxa, a similar list for trait names; after every persistence step the labels must come back exactly (same "
    "strings, as str) on the HDF5, pandas and CSV routes and no value may turn missing.  Not asserted (counted): on the CSV route "
    "taxa labels that are number-like or pandas missing-value tokens - untyped text read with pandas defaults turns an entirely "
    "number-like label column into numbers and the tokens into NaN; fidelity of text files is C16's business",
    "tolerances: pbmon/oracle/bvscale.py (round trip 4*eps*(k+1)*(|raw|+2M) after k operations, summaries 1e-12*(k+1)*M, "
    "M = largest finite magnitude of the trait)",
]
TRUSTED = ["math.fsum / python float arithmetic", "numpy.insert / numpy.delete on the harness' own id vectors"]

SUMM = ["tmax", "tmin", "tmean", "trange", "tstd", "tvar"]
SUMM_WORD = {"tmax": "maximum", "tmin": "minimum", "tmean": "mean", "trange": "range", "tstd": "standard deviation",
             "tvar": "variance"}


# ------------------------------------------------------------------ library access
def bv_classes():
    from pybrops.popgen.bvmat.DenseBreedingValueMatrix import DenseBreedingValueMatrix
    from pybrops.popgen.bvmat.DenseEstimatedBreedingValueMatrix import DenseEstimatedBreedingValueMatrix
    from pybrops.popgen.bvmat.DenseGenomicEstimatedBreedingValueMatrix import DenseGenomicEstimatedBreedingValueMatrix
    return [DenseBreedingValueMatrix, DenseEstimatedBreedingValueMatrix, DenseGenomicEstimatedBreedingValueMatrix]


_FN = [0]          # calls of the class' standardising constructor (recorder installed from outside, no repo hook)
_INSTALLED = []


def install_recorder():
    """Count DenseBreedingValueMatrix.from_numpy calls so that a badly standardised result of an operation that went
    through from_numpy is attributed to from_numpy (one mechanism, one key) and not to every operation."""
    if _INSTALLED:
        return
    B = bv_classes()[0]
    f = B.__dict__["from_numpy"].__func__

    def from_numpy(cls, *a, **k):
        _FN[0] += 1
        return f(cls, *a, **k)
    from_numpy.__wrapped_orig__ = f
    from_numpy.__doc__ = f.__doc__
    B.from_numpy = classmethod(from_numpy)
    _INSTALLED.append(f)


def site_of(cls, name):
    """Defining class of a method through the MRO (finding keys name the place where the behaviour lives)."""
    for k in cls.__mro__:
        if name in vars(k):
            return "%s.%s" % (k.__name__, name)
    return "%s.%s" % (cls.__name__, name)


def labels(ids):
    return dict(taxa=numpy.array(["T%05d" % i for i in ids], dtype=object),
                taxa_grp=numpy.array([(int(i) * 7) % 4 for i in ids], dtype="int64"))


def traits(t):
    return numpy.array(["Y%d" % j for j in range(t)], dtype=object)


def decode(taxa):
    return [int(str(s)[1:]) for s in taxa]


# ------------------------------------------------------------------ generators
def gen_column(g, n):
    r = int(g.integers(0, 12))
    if r <= 2:
        mu = float(g.choice([0.0, 10.0, -10.0, 1e3, -250.5])); sd = 10.0 ** float(g.uniform(-3, 3))
        col = g.normal(mu, sd, n); cc = "gaussian"
    elif r <= 4:
        mu = float(g.choice([1e6, -1e6, 1e9, -1e9, 123456789.125])); sd = float(g.choice([1e-2, 1.0, 100.0]))
        col = g.normal(mu, sd, n); cc = "large-offset"
    elif r == 5:
        col = numpy.full(n, float(g.choice([0.0, 7.0, -2.5, 1024.0, 1e9, 0.125]))); cc = "constant-short-binary"
    elif r == 6:
        col = numpy.full(n, float(g.choice([0.1, 1.0 / 3.0, -0.7, 1e9 + 0.1, 2.675e-5, 123456.789]))); cc = "constant-long-binary"
    elif r == 7:
        col = g.integers(0, 4, n).astype(float) + float(g.choice([0.0, -3.0, 100.0])); cc = "lattice-ties"
    elif r == 8:
        x = float(g.choice([1.0, 0.1, 1e9, -3.3])); col = numpy.full(n, x)
        col[g.random(n) < 0.4] = numpy.nextafter(x, math.inf); cc = "one-ulp-noise"
    elif r == 9:
        a, b = float(g.normal()), float(g.normal() * 5); col = numpy.where(g.random(n) < 0.5, a, b); cc = "two-level"
    elif r == 10:
        col = 10.0 ** g.uniform(-8, 8, n) * g.choice([-1.0, 1.0], n); cc = "magnitudes"
    else:
        col = g.normal(0.0, 1.0, n); cc = "gaussian"
    u = g.random()
    if u < 0.30 and n > 1:
        frac = float(g.uniform(0.05, 0.6)); m = g.random(n) < frac
        if m.all():
            m[int(g.integers(n))] = False
        col = col.copy(); col[m] = numpy.nan; cc += "+NaN"
    elif u < 0.34:
        col = numpy.full(n, numpy.nan); cc = "all-NaN"
    elif u < 0.38 and n > 1:
        keep = int(g.integers(n)); v = col[keep]; col = numpy.full(n, numpy.nan); col[keep] = v; cc = "single-finite-entry"
    return col, cc


HOSTILITY = ["all-NaN", "single-finite-entry", "one-ulp-noise", "constant-long-binary", "constant-short-binary", "large-offset",
             "magnitudes", "lattice-ties", "two-level", "gaussian"]


def gen_matrix(g, n, t):
    cols, ccs = zip(*[gen_column(g, n) for _ in range(t)])
    return numpy.column_stack(cols), list(ccs)


def worst_class(ccs):
    base = [c.split("+")[0] for c in ccs]
    w = min(base, key=HOSTILITY.index)
    return w + ("+NaN" if any("+NaN" in c for c in ccs) else "")


def rand_n(g):
    u = g.random()
    if u < 0.08:
        return 1
    if u < 0.16:
        return 2
    if u < 0.26:
        return int(g.integers(41, 201))
    return int(g.integers(3, 41))


# ------------------------------------------------------------------ monitors on one object
def col_stats(R):
    sts = [O.ref_stats(R[:, j].tolist()) for j in range(R.shape[1])]
    mags = [0.0 if s is None else s["mag"] for s in sts]
    return sts, mags


def guarded_call(ctx, clause, site, icls, coords, fn, witness=None):
    """Affirmative-result call: the property promises a value, so raising on a valid input is a violation."""
    try:
        return True, fn()
    except Exception as e:
        ctx.ok(clause)
        ctx.violation(clause, site, "raised %s" % type(e).__name__, icls,
                      what="%s raised %s: %s" % (site, type(e).__name__, str(e)[:160]), witness=witness, coords=coords)
        return False, None


def check_roundtrip(ctx, obj, R, sts, mags, k, site, coords, clause="C15.roundtrip", tag="", roweps=None):
    """Per column: unscale() reproduces raw, NaN stays NaN and nothing else becomes NaN."""
    ok, un = guarded_call(ctx, clause, site_of(type(obj), "unscale"), "any", coords, obj.unscale)
    if not ok:
        return False
    un = numpy.asarray(un, dtype=float)
    if un.shape != R.shape:
        ctx.check(clause, False, site, "unscale() has the shape of the raw matrix", "any",
                  witness={"shape": list(un.shape), "expected": list(R.shape)}, coords=coords)
        return False
    allok = True
    for j in range(R.shape[1]):
        kc = O.keyclass(sts[j], mags[j], k) + tag + (P32(2.0) if roweps is not None and float(numpy.max(roweps)) > O.EPS else "")
        mok, vok, worst, first = O.compare_matrix(un[:, j:j + 1], R[:, j:j + 1], [mags[j]], k, roweps)
        w = None
        if not (mok and vok):
            i = first[0] if first else 0
            w = {"raw_column": R[:, j], "unscaled_column": un[:, j], "row": i, "location": obj.location[j], "scale": obj.scale[j],
                 "stored_column": obj.mat[:, j]}
            allok = False
        ctx.maxnote("round trip |err|/tol", worst if vok else 0.0)
        if not mok:
            ctx.check(clause, False, site, "missing stays missing, nothing else becomes missing", kc, witness=w, coords=coords)
        else:
            ctx.check(clause, vok, site, "unscale() == raw value to rounding error", kc, witness=w, coords=coords)
    return allok


def check_stored(ctx, obj, R, sts, mags, k, site, coords, derived=False, prec=1.0):
    """Stored columns are centred with unit sd; a constant trait is stored as zeros with scale exactly 1.

    derived=True: the object is the result of an operation on matrices, i.e. it was standardised from values that the
    library reconstructed to rounding error; a constant trait may then legitimately carry rounding noise, so either the
    exact form (zeros, scale 1) or a scale at rounding level is admissible ("to rounding error")."""
    M = numpy.asarray(obj.mat, dtype=float); loc = numpy.asarray(obj.location, dtype=float); sc = numpy.asarray(obj.scale, dtype=float)
    for j in range(R.shape[1]):
        st = sts[j]
        if st is None:
            ctx.sumnote("all-NaN columns (counted, not judged)")
            continue
        fin = [x for x in M[:, j].tolist() if x == x]
        if len(fin) != st["n"]:
            continue  # mask defect: reported by the round-trip monitor
        if st["const"]:
            v = st["tmax"]
            icls = "constant column/" + ("value with short binary expansion" if O.short_binary(v) else "value with long binary expansion") + P32(prec)
            noise = 4 * O.EPS * prec * (k + 1) * (abs(v) + 2 * mags[j])
            cond = sc[j] == 1.0 and all(abs(x) <= noise for x in fin)
            if derived and not cond and 0.0 < sc[j] <= noise:
                ctx.sumnote("constant trait of a derived matrix carries rounding noise (admissible, not judged)")
                continue
            ctx.check("C15.roundtrip.stored", cond, site, "constant trait stored as zeros with scale exactly 1", icls,
                      witness={"raw_column": R[:, j], "stored_column": M[:, j], "location": loc[j], "scale": sc[j]}, coords=coords)
            continue
        tolc = (O.REL_STAT * (k + 1) * max(st["mag"], mags[j]) / st["tstd"] + 1e-12) * prec
        if tolc > 0.25:
            ctx.sumnote("stored-centring not decidable (sd at rounding level)")
            continue
        m = math.fsum(fin) / len(fin)
        s = math.sqrt(math.fsum((x - m) ** 2 for x in fin) / len(fin))
        ctx.maxnote("stored |mean| or |sd-1| / tol", max(abs(m), abs(s - 1.0)) / tolc)
        ctx.check("C15.roundtrip.stored", abs(m) <= tolc and abs(s - 1.0) <= tolc and sc[j] > 0, site,
                  "stored column has mean 0 and sd 1", O.keyclass(st, mags[j], k) + P32(prec),
                  witness={"raw_column": R[:, j], "stored_column": M[:, j], "stored_mean": m, "stored_sd": s, "tol": tolc,
                           "location": loc[j], "scale": sc[j]}, coords=coords)


INPLACE = "taxa set changed in place"


def P32(prec):
    return "/float32 source" if prec > 1.0 else ""


def check_stats(ctx, obj, R, sts, mags, k, coords, tag="", prec=1.0, judge=True):
    """Every per-trait summary on the original scale equals that summary of the raw values.

    Finding keys: for an object as returned by a constructor / non-mutating operation the input class is the class of the
    raw column; for an object whose taxa set was changed in place (append/incorp/remove) it is that state, whatever the
    column (one stale-parameter mechanism must not produce one key per column class)."""
    cls = type(obj); n, t = R.shape
    kcls = (lambda st, j: INPLACE + P32(prec)) if tag else (lambda st, j: O.keyclass(st, mags[j], k) + P32(prec))
    stored = numpy.array(obj.mat, dtype=float, copy=True)
    snap = (numpy.array(obj.mat, copy=True), numpy.array(obj.location, copy=True), numpy.array(obj.scale, copy=True))
    handed = []     # every array the object hands out: (site, call, array as returned)
    try:
        handed.append((site_of(cls, "unscale"), "unscale()", obj.unscale()))
    except Exception:
        pass
    for name in SUMM:
        site = site_of(cls, name)
        ok, val = guarded_call(ctx, "C15.stats", site, "any", coords, lambda: getattr(obj, name)(unscale=True))
        ok2, vst = guarded_call(ctx, "C15.stats.stored", site, "any", coords, lambda: getattr(obj, name)(unscale=False))
        if ok:
            handed.append((site, "%s(unscale=True)" % name, val))
        if ok2:
            handed.append((site, "%s(unscale=False)" % name, vst))
        if not judge:
            continue
        if ok:
            val = numpy.array(val, dtype=float, copy=True)
            if val.shape != (t,):
                ctx.check("C15.stats", False, site, "one value per trait", "any", witness={"shape": list(val.shape), "ntrait": t}, coords=coords)
                ok = False
        if ok2:
            vst = numpy.array(vst, dtype=float, copy=True)
            ok2 = vst.shape == (t,)
        for j in range(t):
            st = sts[j]
            if st is None:
                continue
            kc = kcls(st, j)
            if ok:
                exp = st[name]; tol = O.tol_stat(name, st, mags[j], k, prec); v = float(val[j])
                good = (abs(v - exp) <= tol) or (st["nan"] and v != v)
                if v == v and good and tol > 0:
                    ctx.maxnote("summary |err|/tol", abs(v - exp) / tol)
                rel = "%s(unscale=True) == %s of the raw column" % (name, SUMM_WORD[name])
                ctx.check("C15.stats", good, site, rel, kc,
                          witness={"raw_column": R[:, j], "got": v, "expected": exp, "tol": tol, "location": obj.location[j],
                                   "scale": obj.scale[j]}, coords=coords)
            if ok2 and not st["nan"]:
                sst = O.ref_stats(stored[:, j].tolist())
                if sst is not None and not sst["nan"]:
                    smag = sst["mag"]; tol = O.tol_stat(name, sst, smag, 0, prec) + 1e-300; v = float(vst[j])
                    ctx.check("C15.stats.stored", abs(v - sst[name]) <= tol, site,
                              "%s(unscale=False) == %s of the stored column" % (name, SUMM_WORD[name]), kc,
                              witness={"stored_column": stored[:, j], "got": v, "expected": sst[name]}, coords=coords)
    for name, ext in (("targmax", "tmax"), ("targmin", "tmin")):
        site = site_of(cls, name)
        ok, val = guarded_call(ctx, "C15.stats.arg", site, "any", coords, getattr(obj, name))
        if not ok:
            continue
        handed.append((site, "%s()" % name, val))
        if not judge:
            continue
        val = numpy.array(val, copy=True)
        if val.shape != (t,):
            ctx.check("C15.stats.arg", False, site, "one index per trait", "any", witness={"shape": list(val.shape)}, coords=coords)
            continue
        for j in range(t):
            st = sts[j]
            if st is None:
                continue
            kc = kcls(st, j)
            try:
                i = int(val[j]); inr = (0 <= i < n) and float(val[j]) == i
            except Exception:
                i, inr = -1, False
            good = False
            if inr:
                x = float(R[i, j]); tol = 4.0 * O.EPS * prec * (k + 1) * (abs(st[ext]) + 2.0 * mags[j])
                good = (x != x and st["nan"]) or (x == x and abs(x - st[ext]) <= tol)
            ctx.check("C15.stats.arg", good, site, "%s points at an entry attaining the %s" % (name, SUMM_WORD[ext]), kc,
                      witness={"raw_column": R[:, j], "index": val[j], "extreme": st[ext]}, coords=coords)
    # the summary calls must leave the object as it was (a summary that rescales in place would corrupt later answers)
    same = numpy.array_equal(stored, numpy.asarray(obj.mat, dtype=float), equal_nan=True)
    ctx.check("C15.stats", same, site_of(cls, "tmax"), "summary calls leave the stored values unchanged", "any",
              witness={"before": stored, "after": obj.mat}, coords=coords)
    check_alias(ctx, obj, handed, snap, coords)


def check_alias(ctx, obj, handed, snap, coords):
    """C15.alias: what unscale() and the summaries hand out belongs to the caller.  The caller overwrites every returned
    array; the object's stored values, location and scale must be what they were (so that it still reproduces ITS raw values).
    Only when they are not, the culprit is looked up with numpy.shares_memory (one key per method that shares its state)."""
    for _, _, arr in handed:
        if isinstance(arr, numpy.ndarray) and arr.size and arr.flags.writeable:
            try:
                arr[...] = 77 if arr.dtype.kind in "iu" else 7.7e7
            except Exception:
                pass
    now = (numpy.asarray(obj.mat), numpy.asarray(obj.location), numpy.asarray(obj.scale))
    intact = all(a.shape == b.shape and numpy.array_equal(a, b, equal_nan=True) for a, b in zip(snap, now))
    plain = bool(numpy.all(snap[1] == 0.0)) and bool(numpy.all(snap[2] == 1.0))
    icls = "zero location and unit scale" if plain else "standardised matrix"
    if intact:
        ctx.ok("C15.alias")
        return
    culprits = [(site, call) for site, call, arr in handed if isinstance(arr, numpy.ndarray)
                and any(numpy.shares_memory(arr, x) for x in now)]
    for site, call in culprits or [(site_of(type(obj), "unscale"), "?")]:
        ctx.check("C15.alias", False, site, "returned array does not share memory with the object (caller may overwrite it)", icls,
                  what="C15.alias: %s returns an array that is the object's own %s; after the caller wrote into it the object no longer "
                  "reproduces its raw values" % (call, "state"), witness={"call": call, "stored_before": snap[0], "location_before": snap[1],
                                                                           "scale_before": snap[2], "stored_after": now[0],
                                                                           "location_after": now[1], "scale_after": now[2]}, coords=coords)
    # repair the object so that the history can go on (the finding is recorded)
    try:
        obj.mat = numpy.array(snap[0], copy=True); obj.location = numpy.array(snap[1], copy=True); obj.scale = numpy.array(snap[2], copy=True)
    except Exception:
        pass


# ------------------------------------------------------------------ family: build
def case_build(ctx, c):
    g = ctx.rng("build", c)
    classes = bv_classes()
    cls = classes[int(g.integers(3))]
    n = rand_n(g); t = int(g.integers(1, 5))
    R, ccs = gen_matrix(g, n, t)
    if g.random() < 0.04:          # every trait constant zero: from_numpy gives location 0 and scale 1 (values stored as they are)
        R = numpy.zeros((n, t)); ccs = ["constant-short-binary"] * t
    ctor = g.random() < 0.06       # built with the constructor and its default location 0.0 / scale 1.0: raw values ARE the stored ones
    intdt = (not ctor) and g.random() < 0.05
    if intdt:
        R = numpy.round(numpy.clip(numpy.nan_to_num(R, nan=3.0), -1e12, 1e12)); ccs = ["int64-input"] * t
    f32dt = (not intdt) and g.random() < 0.06
    roweps = None; prec = 1.0
    if f32dt:   # from_numpy documents float64 but accepts float32 silently: judged at the precision of the source array
        R = R.astype("float32").astype("float64"); ccs = [cc + "/float32-input" for cc in ccs]
        roweps = numpy.full((n, 1), O.EPS32); prec = O.PREC32
    wc = (worst_class([cc.split("/")[0] for cc in ccs]) + ("/float32-input" if f32dt else "")) if not intdt else "int64-input"
    coords = [c, "build"]
    ctx.case("build:" + wc, R, cls.__name__, trivial=(n == 1 and t == 1))
    ctx.hook("class:" + cls.__name__)
    for cc in ccs:
        ctx.sumnote("column class " + cc)
    if c % 101 == 0:
        ctx.sample({"family": "build", "class": cls.__name__, "column_classes": ccs, "raw": R.tolist() if n <= 12 else R[:12].tolist(),
                    "ntaxa": n})
    site = site_of(cls, "from_numpy")
    arg = R.astype("int64") if intdt else (R.astype("float32") if f32dt else R.copy())
    lab = labels(range(n)) if g.random() < 0.7 else {}
    if ctor:
        ctx.sumnote("constructor-built matrices with default location 0.0 / scale 1.0")
        site = site_of(cls, "__init__")
        dflt = cls is bv_classes()[0] and g.random() < 0.5
        ok, obj = guarded_call(ctx, "C15.roundtrip", site, "any", coords,
                               lambda: cls(arg, trait=traits(t), **lab) if dflt else cls(arg, location=0.0, scale=1.0, trait=traits(t), **lab),
                               witness={"raw": R})
    else:
        ok, obj = guarded_call(ctx, "C15.roundtrip", site, "any", coords,
                               lambda: cls.from_numpy(arg, trait=traits(t), **lab), witness={"raw": R})
    if not ok:
        return
    sts, mags = col_stats(R)
    check_roundtrip(ctx, obj, R, sts, mags, 0, site, coords, roweps=roweps)
    if not ctor:
        check_stored(ctx, obj, R, sts, mags, 0, site, coords, prec=prec)
    # constructor-built: the user vouches for location/scale, so summaries are called (and their returned arrays overwritten)
    # but only the round trip is judged
    check_stats(ctx, obj, R, sts, mags, 0, coords, prec=prec, judge=not ctor)
    # the summaries must not have disturbed the object
    un = numpy.asarray(obj.unscale(), dtype=float)
    mok, vok, _, first = O.compare_matrix(un, R, mags, 0, roweps)
    ctx.check("C15.roundtrip", mok and vok, site, "unscale() == raw after the summaries were taken", "any",
              witness={"raw": R, "unscaled": un, "first_bad": first}, coords=coords)


# ------------------------------------------------------------------ family: ops
def positions(g, n, allow_all=False):
    """A deletion request on n rows that keeps at least one row: (obj, kept positions, text)."""
    u = g.random()
    if u < 0.35 or n <= 2:
        i = int(g.integers(n)); i2 = i - n if g.random() < 0.2 else i
        return i2, [p for p in range(n) if p != i], "%d" % i2
    if u < 0.75:
        m = int(g.integers(1, n)); idx = sorted(int(x) for x in g.choice(n, m, replace=False))
        if g.random() < 0.5:
            g.shuffle(idx)
        obj = idx if g.random() < 0.5 else numpy.array(idx, dtype="int64")
        s = set(idx)
        return obj, [p for p in range(n) if p not in s], "%s" % list(idx)
    a = int(g.integers(0, n)); b = int(g.integers(a + 1, n + 1)); st = int(g.choice([1, 1, 2, 3]))
    if a == 0 and b == n and st == 1:
        a = 1
    sl = slice(a, b, st); s = set(range(*sl.indices(n)))
    return sl, [p for p in range(n) if p not in s], "slice(%d,%d,%d)" % (a, b, st)


def case_ops(ctx, c):
    install_recorder()
    fn0 = _FN[0]
    try:
        _case_ops(ctx, c)
    finally:
        ctx.hook("recorder:from_numpy", _FN[0] - fn0)


TNAMES = ["Yq", "Yc", "Yx", "Ya", "Ym", "Yf", "Yz", "Yb"]   # trait names deliberately NOT in lexical order of their index
TINDEX = {nm: i for i, nm in enumerate(TNAMES)}


def tnames(tl):
    return numpy.array([TNAMES[j] for j in tl], dtype=object)


def tdecode(trait):
    return [TINDEX[str(s)] for s in trait]


def _case_ops(ctx, c):
    import copy as _copy, os
    g = ctx.rng("ops", c)
    classes = bv_classes()
    cls = classes[int(g.integers(3))]
    t0 = int(g.integers(1, 5))
    T = min(len(TNAMES), t0 + int(g.integers(0, 4)))     # trait universe: the traits a history can meet
    NU = 80
    U, ccs = gen_matrix(g, NU, T)
    # source array type of every taxon of the universe: 'd' float64 (documented), 'f' float32, 'i' int64 (both accepted by
    # from_numpy / adjoin / insert without complaint).  The ground truth of a taxon is the value its own source array holds.
    mixed = g.random() < 0.30
    src = numpy.array(["d"] * NU)
    if mixed:
        src = g.choice(numpy.array(["d", "f", "i"]), NU, p=[0.45, 0.35, 0.20])
        fm = src == "f"; im = src == "i"
        U[fm] = U[fm].astype("float32").astype("float64")
        U[im] = numpy.round(numpy.clip(numpy.nan_to_num(U[im], nan=7.0), -1e12, 1e12))
    if g.random() < 0.35:            # taxa that are missing for every trait
        for i in g.choice(NU, int(g.integers(1, 9)), replace=False):
            if src[i] != "i":
                U[int(i), :] = numpy.nan
    if g.random() < 0.03:            # every trait constant zero: location 0 and scale 1 throughout the history
        U[:] = 0.0
    byclass = {k_: [int(i) for i in numpy.flatnonzero(src == k_)] for k_ in "dfi"}
    sts_u, mags_u = col_stats(U)       # magnitudes over the universe bound every location that can occur
    n0 = min(rand_n(g), 40)
    if mixed and g.random() < 0.6:   # initial matrix built from one source type (e.g. a float32 table)
        pool = byclass[str(g.choice([k_ for k_ in "dfi" if byclass[k_]]))]
        ids = [int(x) for x in g.choice(pool, min(n0, len(pool)), replace=False)]
    else:
        ids = [int(x) for x in g.choice(NU, n0, replace=False)]
    tids = [int(x) for x in g.choice(T, t0, replace=False)]     # raw values are tracked per (taxon, trait NAME)
    nops = int(g.integers(1, 11))
    withcopies = g.random() < 0.40
    withio = g.random() < 0.25
    coords = [c, "ops"]
    ctx.case("ops:" + worst_class(ccs) + ("/mixed float64-float32-int64 sources" if mixed else ""), U, ids, tids, nops, cls.__name__,
             withcopies, withio)
    ctx.hook("class:" + cls.__name__)

    # ---- label CONTENTS: every taxon id / trait index has one label for the whole history (bijective), drawn from hostile
    # styles; the labels must survive every operation and every persistence route exactly
    hostile = g.random() < (0.6 if withio else 0.15)
    TAXA_STYLES = [("plain", "T%05d"), ("comment/delimiter/quote characters", "F2#%d"), ("comment/delimiter/quote characters", "a,%d"),
                   ("comment/delimiter/quote characters", "x;%d"), ("comment/delimiter/quote characters", 'q"%d"'),
                   ("comment/delimiter/quote characters", "it's\t%d"), ("blanks", "sp ace %d"), ("blanks", " lead%d"), ("blanks", "trail%d "),
                   ("non-ASCII", "\u00e9\u221a\u00df%d"), ("number-like", "%03d"), ("number-like", "1e%d"), ("number-like", "%d.50")]
    TOKENS = ["nan", "NA", "None", "True", "null", "N/A", "<NA>", "#N/A", "-inf"]
    LAB = {}; LCLS = {}
    if hostile:
        uniform = int(g.integers(len(TAXA_STYLES))) if g.random() < 0.5 else None
        for i in range(NU):
            kcl, fmt = TAXA_STYLES[uniform if uniform is not None else int(g.integers(len(TAXA_STYLES)))]
            LAB[i] = fmt % i; LCLS[LAB[i]] = kcl
        if uniform is None and g.random() < 0.5:
            for i, tok in zip(g.choice(NU, 4, replace=False), g.choice(TOKENS, 4, replace=False)):
                LCLS.pop(LAB[int(i)], None); LAB[int(i)] = str(tok); LCLS[str(tok)] = "missing-value / boolean tokens"
    else:
        for i in range(NU):
            LAB[i] = "T%05d" % i; LCLS[LAB[i]] = "plain"
    INV = {v: k_ for k_, v in LAB.items()}
    TRAIT_HOSTILE = ["Y#q", "Y,c", "Y x", " Ya", "Ym ", "Y\u00e9", "007", "1e5", 'Y"z"', "NA", "None;", "True"]
    TN = list(TNAMES)
    if hostile and g.random() < 0.6:
        TN = [str(x) for x in g.choice(TRAIT_HOSTILE, len(TNAMES), replace=False)]
    TIX = {nm: j for j, nm in enumerate(TN)}
    ctx.sumnote("histories with hostile label contents", int(hostile))

    def labels(idl):
        return dict(taxa=numpy.array([LAB[int(i)] for i in idl], dtype=object),
                    taxa_grp=numpy.array([(int(i) * 7) % 4 for i in idl], dtype="int64"))

    def decode(taxa):
        return [INV[x] for x in taxa]      # KeyError when a label came back altered (rows are then identified by position)

    def tnames(tl):
        return numpy.array([TN[j] for j in tl], dtype=object)

    def tdecode(trait):
        return [TIX[x] for x in trait]

    def RAW(idl, tl):
        return U[numpy.ix_(numpy.asarray(idl, dtype=int), numpy.asarray(tl, dtype=int))]

    def MG(tl):
        return [mags_u[j] for j in tl]

    def rawarr(idl, tl):
        """The raw values of these taxa as the array a user would hold: single type when all come from one source type."""
        kinds = set(src[idl].tolist())
        if kinds == {"f"}:
            ctx.sumnote("float32 arrays handed to the library"); return RAW(idl, tl).astype("float32")
        if kinds == {"i"}:
            ctx.sumnote("int64 arrays handed to the library"); return RAW(idl, tl).astype("int64")
        return RAW(idl, tl).copy()

    def reps(idl):
        return numpy.where(src[idl] == "f", O.EPS32, O.EPS)[:, None]

    def prec_of(idl):
        return O.PREC32 if len(idl) and bool(numpy.any(src[idl] == "f")) else 1.0

    def pcls(*idls):
        kinds = set()
        for l in idls:
            kinds |= {"f" if x == "f" else "d" for x in src[l].tolist()}
        return "" if kinds <= {"d"} else ("/float32 sources" if kinds == {"f"} else "/float32 and float64 sources")

    def mk(idl, tl):
        return cls.from_numpy(rawarr(idl, tl), trait=tnames(tl), **labels(idl))

    def donor(maxk=6):
        if g.random() < 0.08:
            return None  # self-donation
        k = int(g.integers(1, maxk + 1))
        if mixed and g.random() < 0.7:   # donor from a single source type
            pool = byclass[str(g.choice([k_ for k_ in "dfi" if byclass[k_]]))]
            return [int(x) for x in g.choice(pool, k)]
        return [int(x) for x in g.integers(0, NU, k)]

    def tdonor(cur):
        """Traits (by index) that the matrix does not hold yet: trait names stay unique."""
        free = [j for j in range(T) if j not in cur]
        if not free:
            return None
        k = int(g.integers(1, min(2, len(free)) + 1))
        return [int(x) for x in g.choice(free, k, replace=False)]

    site0 = site_of(cls, "from_numpy")
    ok, b = guarded_call(ctx, "C15.roundtrip", site0, "any", coords, lambda: mk(ids, tids), witness={"raw": RAW(ids, tids)})
    if not ok:
        return
    hist = []
    tag = ""
    ids0 = list(ids); tids0 = list(tids)

    def sound(o, idl, tl):
        """A freshly built matrix (initial object, donor) must itself round-trip; if not, that is from_numpy's finding
        (reported once there) and the history stops instead of blaming every operation that consumes the object."""
        R0 = RAW(idl, tl); s0, _ = col_stats(R0)
        return check_roundtrip(ctx, o, R0, s0, MG(tl), 0, site0, coords, roweps=reps(idl))

    demoted = [None]   # (site, input class) of the operation that first left float64/int64 taxa in a single-precision matrix
    kept = []   # earlier copies of the live matrix: {"obj","ids","tids","kind","tag"}; an operation on one object must never change another

    def rejudge(site_, k_):
        for e in list(kept):
            Rk = RAW(e["ids"], e["tids"]); mgk = MG(e["tids"])
            try:
                unk = numpy.asarray(e["obj"].unscale(), dtype=float)
                mk_, vk_, _, fk = O.compare_matrix(unk, Rk, mgk, k_, reps(e["ids"]))
            except Exception:
                mk_ = vk_ = False; fk = None; unk = None
            okk = ctx.check("C15.ops", mk_ and vk_, site_, "operation leaves other matrices (earlier copies) unchanged", "earlier " + e["kind"],
                            what=None if (mk_ and vk_) else "C15.ops: after %s on one matrix an %s of it no longer reproduces the raw values "
                            "of its own taxa" % (site_, "earlier " + e["kind"]),
                            witness=None if (mk_ and vk_) else {"history": list(hist), "copy_taxa": e["ids"], "copy_traits": tnames(e["tids"]),
                                                                "raw": Rk, "unscaled": unk, "first_bad": fk,
                                                                "location": e["obj"].location, "scale": e["obj"].scale},
                            coords=coords)
            if not okk:
                kept[:] = [x for x in kept if x is not e]   # by identity (the matrices overload ==)
                continue
            sk, _ = col_stats(Rk)
            check_stats(ctx, e["obj"], Rk, sk, mgk, k_, coords, e["tag"], prec_of(e["ids"]))

    if not sound(b, ids, tids):
        return
    if c % 101 == 0:
        ctx.sample({"family": "ops", "class": cls.__name__, "column_classes": ccs, "initial_taxa": ids, "initial_traits": tnames(tids).tolist(),
                    "nops": nops, "raw_initial": RAW(ids, tids)[:12].tolist()})
    h5path = os.path.join(os.environ.get("PBMON_SCRATCH_DIR") or "/tmp", "c15-%d-%d.h5" % (os.getpid(), c))
    csvpath = h5path[:-3] + ".csv"
    prewritten = [False]
    try:
        for step in range(nops):
            n = len(ids); t = len(tids)
            k = step + 1
            if withcopies and len(kept) < 2 and g.random() < 0.30:
                kind = ["shallow copy", "shallow copy", "deep copy"][int(g.integers(3))]
                how = int(g.integers(2))
                meth = "__copy__" if kind == "shallow copy" else "__deepcopy__"
                try:
                    if kind == "shallow copy":
                        cp = _copy.copy(b) if how else b.copy()
                    else:
                        cp = _copy.deepcopy(b) if how else b.deepcopy()
                except Exception as e:
                    ctx.raised(meth, e); cp = None
                if cp is not None:
                    ctx.hook("copy:" + kind)
                    hist.append("%s of the live matrix (%s)" % (kind, ["method", "copy module"][how]))
                    kept.append({"obj": cp, "ids": list(ids), "tids": list(tids), "kind": kind, "tag": tag})
                    rejudge(site_of(cls, meth), k)     # the copy itself carries the raw values of its taxa
                    if kept and kept[-1]["obj"] is cp and g.random() < 0.5:
                        kept[-1]["obj"], b = b, cp     # continue the history on the copy, keep the original
            # ---- choose the operation: taxa axis (as before), trait axis (interleaved), persistence round trips
            wt = {o: 3.0 for o in OPS_TAXA}
            for o in ("reorder_taxa", "sort_taxa", "group_taxa"):
                wt[o] = 1.0
            if n <= 1:
                wt["delete_taxa"] = wt["remove_taxa"] = 0.0
            if n > 60:
                for o in ("insert_taxa", "adjoin_taxa", "concat_taxa", "append_taxa", "incorp_taxa"):
                    wt[o] = 0.2
            for o in OPS_TRAIT:
                wt[o] = 0.9
            wt["sort_trait"] = wt["reorder_trait"] = 1.3
            if t <= 1:
                wt["delete_trait"] = wt["remove_trait"] = 0.0
            if t >= T:
                for o in ("insert_trait", "adjoin_trait", "concat_trait", "append_trait", "incorp_trait"):
                    wt[o] = 0.0
            for o in OPS_IO:
                wt[o] = (2.2 if o.startswith("hdf5") else 0.9) if withio else 0.0
            names_ = list(wt); pw = numpy.array([wt[o] for o in names_]); op = names_[int(g.choice(len(names_), p=pw / pw.sum()))]
            trait_op = op in OPS_TRAIT
            io_op = op in OPS_IO
            generic = (not io_op) and g.random() < 0.25
            ax = (int(g.choice([1, 1, -1])) if trait_op else int(g.choice([0, 0, -2])))
            gname = op.rsplit("_", 1)[0]
            inplace = gname in ("append", "incorp", "remove", "reorder", "sort", "group")
            vform = "any"; nolab = False
            exp = list(ids); expt = list(tids)
            if op == "select_taxa":
                u = g.random()
                if u < 0.3:
                    idx = sorted(int(x) for x in g.choice(n, int(g.integers(1, n + 1)), replace=False))
                elif u < 0.5:
                    idx = [int(x) for x in g.permutation(n)]
                elif u < 0.8:
                    idx = [int(x) for x in g.integers(0, n, int(g.integers(1, n + 4)))]
                else:
                    idx = [int(x) - n for x in g.integers(0, n, int(g.integers(1, n + 1)))]
                arg = idx if g.random() < 0.5 else numpy.array(idx, dtype="int64")
                exp = [ids[i] for i in idx]; desc = "select_taxa(%s)" % idx
                call = (lambda: b.select(arg, axis=ax)) if generic else (lambda: b.select_taxa(arg))
            elif op == "select_trait":
                u = g.random()
                if u < 0.5:
                    idx = sorted(int(x) for x in g.choice(t, int(g.integers(1, t + 1)), replace=False))
                elif u < 0.8:
                    idx = [int(x) for x in g.permutation(t)]
                else:
                    idx = [int(x) - t for x in g.choice(t, int(g.integers(1, t + 1)), replace=False)]
                arg = idx if g.random() < 0.5 else numpy.array(idx, dtype="int64")
                expt = [tids[i] for i in idx]; desc = "select_trait(%s)" % idx
                call = (lambda: b.select(arg, axis=ax)) if generic else (lambda: b.select_trait(arg))
            elif op in ("delete_taxa", "remove_taxa"):
                obj, keep_pos, txt = positions(g, n)
                exp = [ids[p] for p in keep_pos]; desc = "%s(%s)" % (op, txt)
                if op == "delete_taxa":
                    call = (lambda: b.delete(obj, axis=ax)) if generic else (lambda: b.delete_taxa(obj))
                else:
                    call = (lambda: b.remove(obj, axis=ax)) if generic else (lambda: b.remove_taxa(obj))
            elif op in ("delete_trait", "remove_trait"):
                obj, keep_pos, txt = positions(g, t)
                expt = [tids[p] for p in keep_pos]; desc = "%s(%s)" % (op, txt)
                if op == "delete_trait":
                    call = (lambda: b.delete(obj, axis=ax)) if generic else (lambda: b.delete_trait(obj))
                else:
                    call = (lambda: b.remove(obj, axis=ax)) if generic else (lambda: b.remove_trait(obj))
            elif op in ("insert_taxa", "incorp_taxa", "adjoin_taxa", "append_taxa"):
                dl = donor()
                dids = list(ids) if dl is None else dl
                dobj = b if dl is None else mk(dids, tids)
                if dl is not None and not sound(dobj, dids, tids):
                    return
                raw_form = op in ("insert_taxa", "adjoin_taxa") and g.random() < 0.35
                vform = "values given as raw ndarray" if raw_form else "values given as matrix"
                kw = {}
                vals = dobj
                if raw_form:
                    vals = rawarr(dids, tids); kw = labels(dids)
                if op in ("insert_taxa", "incorp_taxa"):
                    if g.random() < 0.75:
                        pos = int(g.integers(0, n + 1)); ptxt = str(pos)
                    else:
                        pos = [int(x) for x in g.integers(0, n + 1, len(dids))]; ptxt = str(pos)
                    exp = [int(x) for x in numpy.insert(numpy.array(ids, dtype="int64"), pos, numpy.array(dids, dtype="int64"))]
                    desc = "%s(%s, %s taxa %s)" % (op, ptxt, "self" if dl is None else "donor", dids)
                    if op == "insert_taxa":
                        call = (lambda: b.insert(pos, vals, axis=ax, **kw)) if generic else (lambda: b.insert_taxa(pos, vals, **kw))
                    else:
                        call = (lambda: b.incorp(pos, vals, axis=ax, **kw)) if generic else (lambda: b.incorp_taxa(pos, vals, **kw))
                else:
                    exp = list(ids) + list(dids)
                    desc = "%s(%s taxa %s)" % (op, "self" if dl is None else "donor", dids)
                    if op == "adjoin_taxa":
                        call = (lambda: b.adjoin(vals, axis=ax, **kw)) if generic else (lambda: b.adjoin_taxa(vals, **kw))
                    else:
                        call = (lambda: b.append(vals, axis=ax, **kw)) if generic else (lambda: b.append_taxa(vals, **kw))
            elif op in ("insert_trait", "incorp_trait", "adjoin_trait", "append_trait"):
                dt = tdonor(tids)
                dobj = mk(ids, dt)          # new traits of the same taxa, standardised on their own
                if not sound(dobj, ids, dt):
                    return
                raw_form = g.random() < 0.35
                vform = "values given as raw ndarray" if raw_form else "values given as matrix"
                kw = {}
                vals = dobj
                if raw_form:
                    vals = rawarr(ids, dt); kw = {"trait": tnames(dt)}
                if op in ("insert_trait", "incorp_trait"):
                    if g.random() < 0.75:
                        pos = int(g.integers(0, t + 1)); ptxt = str(pos)
                    else:
                        pos = [int(x) for x in g.integers(0, t + 1, len(dt))]; ptxt = str(pos)
                    expt = [int(x) for x in numpy.insert(numpy.array(tids, dtype="int64"), pos, numpy.array(dt, dtype="int64"))]
                    desc = "%s(%s, traits %s)" % (op, ptxt, tnames(dt).tolist())
                    if op == "insert_trait":
                        call = (lambda: b.insert(pos, vals, axis=ax, **kw)) if generic else (lambda: b.insert_trait(pos, vals, **kw))
                    else:
                        call = (lambda: b.incorp(pos, vals, axis=ax, **kw)) if generic else (lambda: b.incorp_trait(pos, vals, **kw))
                else:
                    expt = list(tids) + list(dt)
                    desc = "%s(traits %s)" % (op, tnames(dt).tolist())
                    if op == "adjoin_trait":
                        call = (lambda: b.adjoin(vals, axis=ax, **kw)) if generic else (lambda: b.adjoin_trait(vals, **kw))
                    else:
                        call = (lambda: b.append(vals, axis=ax, **kw)) if generic else (lambda: b.append_trait(vals, **kw))
            elif op == "concat_taxa":
                parts = [(list(ids), b)]
                for _ in range(int(g.integers(0, 3))):
                    dl = donor()
                    parts.append((list(ids), b) if dl is None else (dl, mk(dl, tids)))
                    if dl is not None and not sound(parts[-1][1], dl, tids):
                        return
                order = [int(x) for x in g.permutation(len(parts))]
                parts = [parts[i] for i in order]
                mats = [p[1] for p in parts]
                exp = [i for p in parts for i in p[0]]
                desc = "concat_taxa(%s)" % [p[0] for p in parts]
                call = (lambda: cls.concat(mats, axis=ax)) if generic else (lambda: cls.concat_taxa(mats))
            elif op == "concat_trait":
                parts = [(list(tids), b)]
                cur = list(tids)
                for _ in range(int(g.integers(1, 3))):
                    dt = tdonor(cur)
                    if dt is None:
                        break
                    cur += dt
                    parts.append((dt, mk(ids, dt)))
                    if not sound(parts[-1][1], ids, dt):
                        return
                order = [int(x) for x in g.permutation(len(parts))]
                parts = [parts[i] for i in order]
                mats = [p[1] for p in parts]
                expt = [j for p in parts for j in p[0]]
                desc = "concat_trait(%s)" % [tnames(p[0]).tolist() for p in parts]
                call = (lambda: cls.concat(mats, axis=ax)) if generic else (lambda: cls.concat_trait(mats))
            elif op == "reorder_taxa":
                perm = numpy.array([int(x) for x in g.permutation(n)], dtype="int64")
                exp = [ids[i] for i in perm]; desc = "reorder_taxa(%s)" % perm.tolist()
                call = (lambda: b.reorder(perm, axis=ax)) if generic else (lambda: b.reorder_taxa(perm))
            elif op == "reorder_trait":
                perm = numpy.array([int(x) for x in g.permutation(t)], dtype="int64")
                expt = [tids[i] for i in perm]; desc = "reorder_trait(%s)" % perm.tolist()
                call = (lambda: b.reorder(perm, axis=ax)) if generic else (lambda: b.reorder_trait(perm))
            elif op == "sort_taxa":
                keys = None if g.random() < 0.7 else (g.integers(0, 3, n),)
                desc = "sort_taxa(%s)" % ("default keys" if keys is None else "integer keys with ties")
                call = (lambda: b.sort(keys, axis=ax)) if generic else (lambda: b.sort_taxa(keys))
            elif op == "sort_trait":
                keys = None if g.random() < 0.7 else (g.permutation(t),)
                desc = "sort_trait(%s)" % ("default keys: trait names" if keys is None else "explicit integer keys")
                if generic and keys is None and ax == -1 and g.random() < 0.5:
                    call = lambda: b.sort()          # noqa: E731   the generic sort defaults to the last (trait) axis
                    desc += " via sort() defaults"
                else:
                    call = (lambda: b.sort(keys, axis=ax)) if generic else (lambda: b.sort_trait(keys))
            elif op == "group_taxa":
                desc = "group_taxa()"
                call = (lambda: b.group(axis=ax)) if generic else (lambda: b.group_taxa())
            elif op == "hdf5 round trip":
                grp = "bv" if g.random() < 0.7 else None
                over = False
                big = None
                if not prewritten[0] and g.random() < 0.7:
                    # the location already holds an earlier, larger matrix (more taxa or more traits of the same study)
                    if g.random() < 0.5 and tdonor(tids) is not None:
                        big = mk(ids, tids + tdonor(tids))
                    else:
                        big = mk(ids + [int(x) for x in g.integers(0, NU, int(g.integers(1, 6)))], tids)
                over = prewritten[0] or big is not None
                handle = g.random() < 0.25
                vform = "written over an earlier matrix at the same location" if over else "fresh location"
                desc = "to_hdf5 -> from_hdf5 (%s, group %r, %s)" % (vform, grp, "caller-owned handle" if handle else "file name")

                def call(big=big, grp=grp, handle=handle):
                    if big is not None:
                        big.to_hdf5(h5path, grp)
                    prewritten[0] = True
                    if handle:
                        import h5py
                        with h5py.File(h5path, "a") as fh:
                            b.to_hdf5(fh, grp)
                            return cls.from_hdf5(fh, grp)
                    b.to_hdf5(h5path, grp)
                    return cls.from_hdf5(h5path, grp)
            elif op == "pandas round trip":
                nolab = g.random() < 0.45
                lk = {"taxa_col": None, "taxa_grp_col": None} if nolab else {}
                vform = "label columns switched off" if nolab else "with label columns"
                desc = "to_pandas(unscale=True) -> from_pandas (%s)" % vform
                call = lambda: cls.from_pandas(b.to_pandas(unscale=True, **lk), **lk)      # noqa: E731
            else:
                nolab = g.random() < 0.45
                lk = {"taxa_col": None, "taxa_grp_col": None} if nolab else {}
                vform = "label columns switched off" if nolab else "with label columns"
                desc = "to_csv(unscale=True) -> from_csv(float_precision=round_trip) (%s)" % vform

                def call():
                    b.to_csv(csvpath, unscale=True, **lk)
                    # pandas' default float parser is not exact (-0.0003102630688626493 reads back as -0.0003102630688626):
                    # the text precision of CSV belongs to the persistence property (C16); here the exact parser is requested
                    return cls.from_csv(csvpath, float_precision="round_trip", **lk)
            if generic:
                desc = desc.replace(op, "%s[axis=%d]" % (gname, ax), 1)
            if gname in ("insert", "incorp", "adjoin", "append", "concat") and not trait_op:
                vform += pcls(ids, exp)      # precision class of the combined sources (only where sources are combined)
            hist.append(desc)
            ctx.hook("op:" + op)
            site = ("%s.to_hdf5/from_hdf5" % cls.__mro__[[k_.__name__ for k_ in cls.__mro__].index(site_of(cls, "to_hdf5").split(".")[0])].__name__
                    if op == "hdf5 round trip" else
                    site_of(cls, "from_pandas") if op == "pandas round trip" else
                    site_of(cls, "from_csv") if op == "csv round trip" else site_of(cls, op))
            R_before = RAW(ids, tids); mg_before = MG(tids)
            fn0 = _FN[0]
            try:
                res = call()
            except Exception as e:
                # state clause (DESIGN 2.1): a refusing operation is not a violation, a half-applied one is
                ctx.raised(op + ("[generic]" if generic else ""), e)
                try:
                    un = numpy.asarray(b.unscale(), dtype=float)
                    mok, vok, _, first = O.compare_matrix(un, R_before, mg_before, k, reps(ids))
                except Exception:
                    mok = vok = False; first = None; un = None
                if not (mok and vok):
                    ctx.violation("C15.ops", site, "object intact after an operation that raised", vform,
                                  witness={"history": hist, "raw": R_before, "unscaled": un, "first_bad": first}, coords=coords)
                rejudge(site, k)
                continue
            obj = b if inplace else res
            if inplace and res is not None:
                ctx.sumnote("in-place operation returned a value")
            # which taxa / traits does the result hold?  (found through the labels, C03 judges the labels themselves)
            try:
                nrow = int(obj.mat.shape[0]); ncol = int(obj.mat.shape[1])
            except Exception:
                nrow, ncol = -1, -1
            try:
                lids = decode(obj.taxa) if obj.taxa is not None and len(obj.taxa) == nrow else None
            except Exception:
                lids = None
            try:
                ltids = tdecode(obj.trait) if obj.trait is not None and len(obj.trait) == ncol else None
            except Exception:
                ltids = None
            if io_op and nrow == len(exp) and ncol == len(expt):
                # persistence keeps order: the labels must come back exactly (same strings, as strings)
                for what_, want, got in (("taxa", labels(exp)["taxa"].tolist(), None if (nolab or obj.taxa is None) else list(obj.taxa)),
                                         ("trait", tnames(expt).tolist(), None if obj.trait is None else list(obj.trait))):
                    if got is None:
                        if not (what_ == "taxa" and nolab):
                            ctx.check("C15.ops", False, site, "%s labels come back exactly" % what_, "labels lost", coords=coords,
                                      witness={"history": list(hist), "expected": want})
                        continue
                    skip = set()
                    if op == "csv round trip" and what_ == "taxa":
                        # CSV is untyped text read with pandas defaults: a label column that consists only of number-like strings is
                        # read as numbers ('007' -> 7.0) and pandas' missing-value tokens ('NA', 'None', 'nan', 'null', ...) are read
                        # as NaN.  Out of the domain of C15 (counted); label fidelity of text files belongs to C16.
                        skip = {i_ for i_, w_ in enumerate(want) if LCLS.get(w_) in ("number-like", "missing-value / boolean tokens")}
                        nsk = sum(1 for i_ in skip if not (isinstance(got[i_], str) and got[i_] == want[i_]))
                        if nsk:
                            ctx.sumnote("CSV: number-like / NA-token taxa labels read back altered (out of domain, counted)", nsk)
                    bad = next((i_ for i_, (w_, g_) in enumerate(zip(want, got)) if i_ not in skip and not (isinstance(g_, str) and g_ == w_)), None)
                    lc = "any" if bad is None else (LCLS.get(want[bad], "hostile trait name") if what_ == "taxa" else
                                                    ("plain" if want[bad] in TNAMES else "hostile trait name"))
                    ctx.check("C15.ops", bad is None, site, "%s labels come back exactly" % what_, "label contents: " + lc,
                              witness=None if bad is None else {"history": list(hist), "expected": want, "got": [repr(x) for x in got],
                                                                "first_bad": bad}, coords=coords)
            if lids is None:
                lids = list(exp)
                ctx.sumnote("result without usable taxa labels (rows identified by position)")
            elif lids != exp:
                ctx.sumnote("label order differs from the harness model")
            if ltids is None:
                ltids = list(expt)
                ctx.sumnote("result without usable trait labels (columns identified by position)")
            elif ltids != expt:
                ctx.sumnote("trait order differs from the harness model")
            w0 = {"history": list(hist), "class": cls.__name__, "initial_taxa": ids0, "initial_traits": tnames(tids0), "initial_raw": RAW(ids0, tids0),
                  "column_classes_by_trait": dict(zip(TN, ccs))}
            if nrow != len(exp) or sorted(lids) != sorted(exp) or ncol != len(expt) or sorted(ltids) != sorted(expt):
                ctx.check("C15.ops", False, site, "result holds exactly the requested taxa and traits", vform,
                          witness=dict(w0, expected_taxa=exp, labels=lids, nrows=nrow, expected_traits=tnames(expt), trait_labels=tnames(ltids),
                                       ncols=ncol), coords=coords)
                rejudge(site, k)
                return
            R = RAW(lids, ltids); mg = MG(ltids)
            try:
                un = numpy.asarray(obj.unscale(), dtype=float)
            except Exception as e:
                ctx.check("C15.ops", False, site, "unscale() of the result raised %s" % type(e).__name__, vform,
                          witness=dict(w0, error=str(e)[:200]), coords=coords)
                return
            mok, vok, worst, first = O.compare_matrix(un, R, mg, k, reps(lids))
            if mok and vok:
                ctx.maxnote("ops round trip |err|/tol", worst)
            w = None
            if not (mok and vok):
                i, j = first if first else (0, 0)
                w = dict(w0, taxa=lids, traits=tnames(ltids),
                         first_bad={"row": i, "trait": TN[ltids[j]] if j < len(ltids) else j, "taxon": lids[i] if i < len(lids) else None,
                                    "source_array_type": {"d": "float64", "f": "float32", "i": "int64"}[str(src[lids[i]])] if i < len(lids) else None},
                         source_types="".join(src[lids].tolist()), result_dtype=str(getattr(obj.mat, "dtype", None)),
                         raw_row=R[i] if R.size else None, unscaled_row=un[i] if un.ndim == 2 and un.shape[0] > i else None,
                         location=obj.location, scale=obj.scale)
            is32 = str(getattr(obj.mat, "dtype", "")) == "float32" and bool(numpy.any(src[lids] != "f"))
            if is32 and demoted[0] is None:
                demoted[0] = (site, vform)
            elif not is32:
                demoted[0] = None
            ksite, kform = site, vform
            if not (mok and vok) and is32 and first and src[lids[first[0]]] != "f" and mok:
                # a float64/int64 taxon lost precision inside a single-precision matrix: the mechanism is the operation that
                # put it there (the loss may only become visible at a later step, when the values stop being exactly representable)
                ksite, kform = demoted[0]
                w["demoted_to_float32_by"] = ksite
            good = ctx.check("C15.ops", mok and vok, ksite, "every retained taxon keeps its raw values, missing stays missing", kform,
                             what=None if (mok and vok) else "C15.ops: after %s the matrix no longer reproduces the raw values of its taxa (%s)"
                             % (site, "NaN mask differs" if not mok else "values differ"), witness=w, coords=coords)
            if not inplace:
                # the source of a non-mutating operation is still what it was
                try:
                    un0 = numpy.asarray(b.unscale(), dtype=float)
                    m0, v0, _, f0 = O.compare_matrix(un0, R_before, mg_before, k, reps(ids))
                except Exception:
                    m0 = v0 = False; f0 = None
                ctx.check("C15.ops", m0 and v0, site, "source matrix unchanged by a non-mutating operation", vform,
                          witness=dict(w0, first_bad=f0), coords=coords)
            rejudge(site, k)
            if not good:
                return  # later states descend from a corrupted object: judging them would only multiply the same finding
            if op in ("append_taxa", "incorp_taxa", "remove_taxa"):
                tag = INPLACE
            elif (not inplace and not trait_op and op != "hdf5 round trip"):
                tag = ""       # new object standardised on its own taxa (taxa-axis operation, pandas / csv re-import)
            sts, _ = col_stats(R)
            if not inplace and not tag:
                # a result built by the standardising constructor is that constructor's responsibility
                check_stored(ctx, obj, R, sts, mg, k, site0 if _FN[0] > fn0 else site, coords, derived=True, prec=prec_of(lids))
            check_stats(ctx, obj, R, sts, mg, k, coords, tag, prec_of(lids))
            if io_op and obj.trait is not None and [x for x in obj.trait] != tnames(ltids).tolist():
                try:
                    obj.trait = tnames(ltids)      # altered trait names were judged above; put them back for the rest of the history
                except Exception as e:
                    ctx.raised("re-attaching labels", e)
                    return
            relabel = io_op and obj.taxa is not None and [x for x in obj.taxa] != labels(lids)["taxa"].tolist()
            if (obj.taxa is None or relabel) and io_op:
                # read back without label columns (or, from text, with altered labels - judged above): the user puts the labels
                # back (rows were identified by position)
                try:
                    lb = labels(lids); obj.taxa = lb["taxa"]; obj.taxa_grp = lb["taxa_grp"]
                except Exception as e:
                    ctx.raised("re-attaching labels", e)
                    return
            b, ids, tids = obj, lids, ltids
    finally:
        for pth in (h5path, csvpath):
            try:
                os.unlink(pth)
            except OSError:
                pass


# ------------------------------------------------------------------ family: generic scaled matrix
def case_generic(ctx, c):
    from pybrops.core.mat.DenseScaledMatrix import DenseScaledMatrix
    g = ctx.rng("generic", c)
    n = min(rand_n(g), 60); t = int(g.integers(1, 5))
    R, ccs = gen_matrix(g, n, t)
    nd3 = g.random() < 0.25
    coords = [c, "generic"]
    ctx.case("generic:" + worst_class(ccs) + ("/3-D" if nd3 else ""), R, nd3, trivial=(n == 1 and t == 1))
    if c % 101 == 0:
        ctx.sample({"family": "generic", "column_classes": ccs, "raw": R[:12].tolist(), "three_dimensional": nd3})
    sts, mags = col_stats(R)
    A = R.reshape((1, n, t)) if nd3 and n % 2 else (R.reshape((2, n // 2, t)) if nd3 else R)
    flat = lambda X: numpy.asarray(X, dtype=float).reshape((-1, t))  # noqa: E731
    Rf = flat(A)
    site = "DenseScaledMatrix."
    if g.random() < 0.6:
        loc0 = numpy.zeros(t); sc0 = numpy.ones(t)      # raw values stored as they are
    else:
        loc0 = numpy.array([float(g.choice([0.0, 1.0, -5.0, 100.0])) for _ in range(t)])
        sc0 = numpy.array([float(g.choice([1.0, 2.0, 0.5, 10.0])) for _ in range(t)])
    mags = [m + abs(float(l)) for m, l in zip(mags, loc0)]   # the initial parametrisation enters the rounding error
    try:
        # an object that holds raw = sc0 * stored + loc0 with an arbitrary (not standardised) parametrisation
        sm = DenseScaledMatrix((A - loc0) / sc0, location=loc0.copy(), scale=sc0.copy())
        un = sm.unscale(inplace=False)
    except Exception as e:
        ctx.raised("DenseScaledMatrix construct/unscale", e)
        return

    def cmp(got, k=1):
        mok, vok, worst, first = O.compare_matrix(flat(got), Rf, mags, k)
        return mok and vok, first

    good, first = cmp(un, 2)
    ctx.check("C15.generic", good, site + "unscale", "unscale(inplace=False) == scale*mat + location", "any",
              witness={"raw": Rf, "got": flat(un), "first_bad": first}, coords=coords)
    ctx.check("C15.generic", not any(numpy.shares_memory(un, x) for x in (sm.mat, sm.location, sm.scale)), site + "unscale",
              "unscale(inplace=False) returns an array of its own", "any", coords=coords)
    before = numpy.array(sm.mat, copy=True)
    try:
        out = sm.rescale(inplace=False)
    except Exception as e:
        ctx.raised("DenseScaledMatrix.rescale", e)
        return
    ctx.check("C15.generic", numpy.array_equal(before, sm.mat, equal_nan=True) and numpy.array_equal(sm.location, loc0)
              and numpy.array_equal(sm.scale, sc0), site + "rescale", "rescale(inplace=False) leaves the object unchanged", "any",
              witness={"before": before, "after": sm.mat}, coords=coords)
    try:
        sm.rescale(inplace=True)
    except Exception as e:
        ctx.raised("DenseScaledMatrix.rescale", e)
        return
    good, first = cmp(sm.scale * sm.mat + sm.location, 3)
    ctx.check("C15.generic", good, site + "rescale", "after rescale(): scale*mat + location == raw", "any",
              witness={"raw": Rf, "location": sm.location, "scale": sm.scale, "first_bad": first}, coords=coords)
    ctx.check("C15.generic", not any(numpy.shares_memory(out, x) for x in (sm.mat, sm.location, sm.scale)), site + "rescale",
              "rescale(inplace=False) returns an array of its own", "any", coords=coords)
    ctx.check("C15.generic", numpy.array_equal(flat(out), flat(sm.mat), equal_nan=True), site + "rescale",
              "rescale(inplace=False) returns what rescale(inplace=True) stores", "any", coords=coords)
    S = flat(sm.mat)
    for j in range(t):
        st = sts[j]
        if st is None:
            continue
        fin = [x for x in S[:, j].tolist() if x == x]
        if len(fin) != st["n"]:
            continue
        if st["const"]:
            v = st["tmax"]
            icls = "constant column/" + ("value with short binary expansion" if O.short_binary(v) else "value with long binary expansion")
            cond = float(sm.scale[j]) == 1.0 and all(abs(x) <= 4 * O.EPS * 4 * (3 * abs(v) + 300.0) for x in fin)
            ctx.check("C15.generic", cond, site + "rescale", "constant trait stored as zeros with scale exactly 1", icls,
                      witness={"raw_column": Rf[:, j], "stored_column": S[:, j], "location": sm.location[j], "scale": sm.scale[j]},
                      coords=coords)
            continue
        tolc = O.REL_STAT * 4 * (st["mag"] + 100.0) / st["tstd"] + 1e-12
        if tolc > 0.25:
            continue
        m = math.fsum(fin) / len(fin); s = math.sqrt(math.fsum((x - m) ** 2 for x in fin) / len(fin))
        ctx.check("C15.generic", abs(m) <= tolc and abs(s - 1.0) <= tolc, site + "rescale", "stored column has mean 0 and sd 1",
                  O.keyclass(st), witness={"raw_column": Rf[:, j], "stored_column": S[:, j], "stored_mean": m, "stored_sd": s},
                  coords=coords)
    # transform / untransform are inverse maps between the two scales
    try:
        tr = sm.transform(numpy.array(A, copy=True), copy=True)
        ut = sm.untransform(numpy.array(sm.mat, copy=True), copy=False)
    except Exception as e:
        ctx.raised("DenseScaledMatrix.transform/untransform", e)
        return
    ctx.check("C15.generic", not any(numpy.shares_memory(tr, x) for x in (sm.mat, sm.location, sm.scale)), site + "transform",
              "transform(copy=True) returns an array of its own", "any", coords=coords)
    good, first = cmp(ut, 3)
    ctx.check("C15.generic", good, site + "untransform", "untransform(stored) == raw", "any",
              witness={"raw": Rf, "got": flat(ut), "first_bad": first}, coords=coords)
    good, first = cmp(sm.scale * tr + sm.location, 4)
    ctx.check("C15.generic", good, site + "transform", "scale*transform(raw) + location == raw", "any",
              witness={"raw": Rf, "first_bad": first}, coords=coords)
    try:
        sm.unscale(inplace=True)
    except Exception as e:
        ctx.raised("DenseScaledMatrix.unscale", e)
        return
    good, first = cmp(sm.mat, 4)
    ctx.check("C15.generic", good and bool(numpy.all(sm.scale == 1.0)) and bool(numpy.all(sm.location == 0.0)),
              site + "unscale", "unscale(inplace=True) stores raw values with location 0 and scale 1", "any",
              witness={"raw": Rf, "stored": flat(sm.mat), "location": sm.location, "scale": sm.scale, "first_bad": first}, coords=coords)


FAMILIES = {"build": (case_build, 10000, 320000), "ops": (case_ops, 5200, 120000), "generic": (case_generic, 3600, 64000)}


def run_shard(ctx):
    for name, (fn, q, t) in FAMILIES.items():
        for c in ctx.case_ids(q, t):
            fn(ctx, c)


def replay(ctx, coords):
    FAMILIES[coords[1]][0](ctx, int(coords[0]))
