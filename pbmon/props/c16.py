"""C16 - saving, loading and copying reproduce objects exactly.

Runtime monitoring: seeded object zoo (genotype, phased genotype, breeding-value, coancestry, variance matrices,
genetic maps, genomic models, phenotyping protocols) is pushed through the library's real writers/readers
(HDF5, CSV, data frame, dict of data frames / CSV files, VCF import) and through copy/deepcopy; a class-aware
observable-equality oracle (pbmon/oracle/obsequal.py) written from the property statement judges what comes back.
"""
import copy as _copy
import os
import re
import shutil
import tempfile

import numpy

from pbmon import boot  # noqa: F401
from pbmon.oracle import obsequal as OE

PROPERTY = "C16"
NSHARDS = {"quick": 4, "thorough": 16}
CLAUSES = {
    "C16.roundtrip.hdf5": 400, "C16.roundtrip.table": 400,
    "C16.lastwrite": 150, "C16.lastwrite.handle": 300, "C16.lastwrite.locations": 300,
    "C16.vcf.phased": 100, "C16.vcf.unphased": 100,
    "C16.copy.equal": 400, "C16.copy.isolated": 200,
    "C16.returns": 500,
}
HOOKS_REQUIRED = ["h5py_File_write_dict"]
RULE = ("seeded class-based zoo over 42 classes (7 core labelled-matrix base classes, 8 progeny covariance matrices, 2 genotype, 3 breeding-value, 4 coancestry, 9 variance-matrix incl. the "
        "generic square taxa-trait base, 2 genetic-map, 3 genomic-model, 2 phenotyping classes); per object: optional label "
        "arrays present/absent, taxa/variants grouped/ungrouped, 1-3 traits, label alphabets ASCII / non-ASCII / with "
        "separators, sorted / unsorted label order, NaN data, standardised / arbitrary location-scale; objects left by the public "
        "API in unusual states before they are written or copied (labels renamed through the setters after grouping, rows / "
        "variants reordered within their groups through the setters, sorted by custom keys, ungrouped after grouping); table readers told "
        "their columns by name / by integer position / mixed, trait columns inferred or listed explicitly, label columns "
        "moved to other places of the frame, every subset of the optional label / group columns switched off on both sides; "
        "hyperparameter dictionaries with containers nested two and three levels deep (copy cases); genetic maps without spline / "
        "default spline / spline of every supported kind (linear, slinear, nearest, nearest-up, zero, previous, next, quadratic, "
        "cubic) and fill value (extrapolate or a number), built by the constructor options or by build_spline(), or taken over "
        "from another map by interp_gmap(); group paths None / "
        "nested / trailing slash / non-ASCII / with spaces; file given as str / Path / open h5py.File; write histories of "
        "2-4 objects on one location (richer->poorer, poorer->richer, same, cross-class); multi-step sessions through one "
        "caller-owned open h5py.File (2-3 groups written, read back - some twice -, overwritten, read again; handle checked "
        "open and usable after every call; file judged after the caller closes it), the same histories by file name and by "
        "handle-then-file-name, with the base group (None or '/') among the locations in every order - every location must "
        "read back its last object; harness-written VCF text (1-4 "
        "contigs, shuffled records, missing IDs, multi-allelic calls, extra FORMAT keys, FILTER values PASS / '.' / q10 / LowQual / "
        "'q10;s50', QUAL present or missing, INFO fields and flags, multi-character REF/ALT, non-ASCII sample names; plus a "
        "'many variants, few samples' class of 1025/1500/2600/4100 variants x 1-4 samples, about 6 files per quick run).  A case is "
        "non-trivial when the object has more than one entry on some labelled axis; distinct = digest of the object's "
        "observation plus the route/options.")
ASSUME = [
    "matching options: the reader is given exactly the options the writer was given (column names - or, equivalently, the "
    "integer positions of those columns in the table, for all or some of the column options -, units, spline "
    "settings, auto_group/auto_build_spline matching the source's state, gpmod passed to the phenotyping readers, "
    "model_name/hyperparams passed to the data-frame readers of genomic models, location/scale passed to the breeding-value "
    "data-frame reader when stored values are written, float_precision='round_trip' for CSV readers that forward it)",
    "a field for which a tabular format has no representation under any option (derived group index arrays "
    "taxa_grp_name/stix/spix/len in CSV/data-frame layouts; absent taxa/trait labels in long or wide tables that need row "
    "identifiers) is not demanded back; the number of such skipped comparisons is reported in the evidence counters",
    "labels are unique within an axis and are not numeric-looking/NA-like strings for CSV routes (pandas type inference is "
    "not the library's)",
    "random-generator handles (rng) of phenotyping protocols are external resources, not object state",
    "observable equality includes behaviour that depends on construction options no array attribute shows: interp_genpos / "
    "interp_gmap / gdist1p / gdist2p between markers and beyond the map ends and gdist1g / gdist2g of genetic maps, unscale() of "
    "breeding-value matrices, predict_numpy() of genomic models on fixed design matrices (a query that raises must raise the "
    "same exception type on both sides)",
    "pickle round trips are judged as copies where the class can be pickled; a class that cannot is only counted",
    "a VCF record without ID may be imported as '.', 'None', '' or None; with auto_group_vrnt=True the imported variants "
    "may be reordered as long as every record stays intact and all records are present",
    "CSV readers that do not forward float_precision (ExtendedGeneticMap.from_csv) and routes whose own options require "
    "arithmetic (cM units, unscale=True) are compared with |a-b| <= 1e-9*scale + 1e-12; everything else exactly",
]
TRUSTED = ["h5py, pandas, cyvcf2 as used by the library", "pbmon/oracle/obsequal.py"]
TOL = 1e-9
QUICK_TOTAL, THOROUGH_TOTAL = 6000, 160000


# =============================================================== helpers
_SHARD_ROOT = []


def scratch_dir():
    """Per-case temporary directory under $PBMON_SCRATCH_DIR (fallback: the system temp dir).  The cases of one shard live
    under one per-process parent so that concurrent shards do not serialise on the lock of a common parent directory."""
    if not _SHARD_ROOT:
        root = os.environ.get("PBMON_SCRATCH_DIR") or tempfile.gettempdir()
        os.makedirs(root, exist_ok=True)
        _SHARD_ROOT.append(tempfile.mkdtemp(prefix="c16-p%d-" % os.getpid(), dir=root))
    return tempfile.mkdtemp(prefix="case-", dir=_SHARD_ROOT[0])


def cleanup_scratch():
    while _SHARD_ROOT:
        shutil.rmtree(_SHARD_ROOT.pop(), ignore_errors=True)


def _raw(f):
    return f.__func__ if isinstance(f, (classmethod, staticmethod)) else f


def defsite(cls, name):
    """Class in the MRO that really implements ``name`` (definitions that only delegate to super are skipped)."""
    for k in cls.__mro__:
        if name in vars(k):
            fn = _raw(vars(k)[name])
            code = getattr(fn, "__code__", None)
            if code is not None and "super" in code.co_names and len(code.co_code) < 120:
                continue
            return "%s.%s" % (k.__name__, name)
    return "%s.%s" % (cls.__name__, name)


def norm_msg(e):
    s = "%s: %s" % (type(e).__name__, str(e))
    s = re.sub(r"\(file: [^)]*\)", "(file)", s)
    s = re.sub(r"``[^`]*``|'[^']*'|\"[^\"]*\"", "..", s)
    s = re.sub(r"/[^\s]+", "<path>", s)
    s = re.sub(r"\d+", "#", s)
    return s[:90]


LABEL_CLASSES = ("ASCII labels", "non-ASCII labels", "labels with separators")


def mklabels(g, n, lcls, prefix, order="sorted"):
    if lcls == "ASCII labels":
        lab = ["%s%03d" % (prefix, i) for i in range(n)]
    elif lcls == "non-ASCII labels":
        pool = ["ñ", "中文", "Ü", "е", "🌾", "é", "ß", "ö̈"]
        lab = ["%s%s%02d%s" % (prefix, pool[int(g.integers(len(pool)))], i, pool[int(g.integers(len(pool)))]) for i in range(n)]
    else:
        pool = [",", " ", '"', "/", ";", "'", "#", "|", ":", "=", "(x)"]
        lab = ["%s%s%02d%s" % (prefix, pool[int(g.integers(len(pool)))], i, pool[int(g.integers(len(pool)))] + "z") for i in range(n)]
    lab = sorted(lab)
    if order == "unsorted" and n > 1:
        p = g.permutation(n)
        while numpy.array_equal(p, numpy.arange(n)):
            p = g.permutation(n)
        lab = [lab[i] for i in p]
    return numpy.array(lab, dtype=object)


def pick(g, seq):
    return seq[int(g.integers(len(seq)))]


# =============================================================== zoo
class Spec:
    """An object of the zoo together with what the driver must know about it."""
    def __init__(self, obj, kind, meta):
        self.obj, self.kind, self.meta = obj, kind, meta


def _rich(g, richness):
    """Probability-of-presence rule for optional fields."""
    if richness == "rich":
        return True
    if richness == "poor":
        return False
    return bool(g.random() < 0.6)


def build_gmat(g, cls_name, richness, lcls, big=False):
    from pybrops.popgen.gmat.DenseGenotypeMatrix import DenseGenotypeMatrix
    from pybrops.popgen.gmat.DensePhasedGenotypeMatrix import DensePhasedGenotypeMatrix
    phased = cls_name == "DensePhasedGenotypeMatrix"
    n = int(g.integers(1, 9)); p = int(g.integers(1, 13))
    if phased:
        nph = int(pick(g, [2, 2, 2, 1, 3]))
        mat = (g.integers(-128, 128, (nph, n, p)) if g.random() < 0.15 else g.integers(0, 2, (nph, n, p))).astype("int8")
        ploidy = nph
    else:
        ploidy = int(pick(g, [2, 2, 2, 1, 4]))
        mat = (g.integers(-128, 128, (n, p)) if g.random() < 0.15 else g.integers(0, ploidy + 1, (n, p))).astype("int8")
    kw = {}
    order = pick(g, ["sorted", "unsorted"])
    if _rich(g, richness):
        kw["taxa"] = mklabels(g, n, lcls, "t", order)
    if _rich(g, richness):
        kw["taxa_grp"] = g.integers(0, 3, n).astype("int64")
    has_chr = _rich(g, richness)
    if has_chr:
        kw["vrnt_chrgrp"] = g.integers(1, 4, p).astype("int64")
        kw["vrnt_phypos"] = g.permutation(numpy.arange(1, p + 1, dtype="int64") * 7)
    if _rich(g, richness):
        kw["vrnt_name"] = mklabels(g, p, lcls, "m", order)
    if _rich(g, richness):
        kw["vrnt_genpos"] = numpy.round(g.uniform(0, 2, p), 6) if g.random() < 0.3 else g.uniform(0, 2, p)
    if _rich(g, richness):
        kw["vrnt_xoprob"] = g.uniform(0, 0.5, p)
    if _rich(g, richness):
        kw["vrnt_hapgrp"] = g.integers(0, 4, p).astype("int64")
    if _rich(g, richness):
        kw["vrnt_hapalt"] = numpy.array([pick(g, ["A", "C", "G", "T", "AT"]) for _ in range(p)], dtype=object)
    if _rich(g, richness):
        kw["vrnt_hapref"] = numpy.array([pick(g, ["A", "C", "G", "T"]) for _ in range(p)], dtype=object)
    if _rich(g, richness):
        kw["vrnt_mask"] = g.random(p) < 0.5
    if phased:
        obj = DensePhasedGenotypeMatrix(mat, **kw)
    else:
        obj = DenseGenotypeMatrix(mat, ploidy=ploidy, **kw)
    grouped = []
    if "taxa_grp" in kw and (richness == "rich" or g.random() < 0.5):
        obj.group_taxa(); grouped.append("taxa")
    if has_chr and (richness == "rich" or g.random() < 0.5):
        obj.group_vrnt(); grouped.append("vrnt")
    meta = dict(lcls=lcls if ("taxa" in kw or "vrnt_name" in kw) else "labels absent",
                gcls="grouped" if grouped else ("ungrouped" if ("taxa_grp" in kw or has_chr) else "no group labels"),
                dcls="int8 calls", trivial=(n < 2 and p < 2))
    return Spec(obj, cls_name, meta)


BV_CLASSES = {
    "DenseBreedingValueMatrix": "pybrops.popgen.bvmat.DenseBreedingValueMatrix",
    "DenseEstimatedBreedingValueMatrix": "pybrops.popgen.bvmat.DenseEstimatedBreedingValueMatrix",
    "DenseGenomicEstimatedBreedingValueMatrix": "pybrops.popgen.bvmat.DenseGenomicEstimatedBreedingValueMatrix",
}
CMAT_CLASSES = {
    "DenseMolecularCoancestryMatrix": "pybrops.popgen.cmat.DenseMolecularCoancestryMatrix",
    "DenseVanRadenCoancestryMatrix": "pybrops.popgen.cmat.DenseVanRadenCoancestryMatrix",
    "DenseYangCoancestryMatrix": "pybrops.popgen.cmat.DenseYangCoancestryMatrix",
    "DenseGeneralizedWeightedCoancestryMatrix": "pybrops.popgen.cmat.DenseGeneralizedWeightedCoancestryMatrix",
}
VMAT_CLASSES = {  # name -> (module, taxa roles of the long table, None = generic base-class layout)
    "DenseTwoWayDHAdditiveGeneticVarianceMatrix": ("pybrops.model.vmat", ("female", "male")),
    "DenseTwoWayDHAdditiveGenicVarianceMatrix": ("pybrops.model.vmat", ("female", "male")),
    "DenseDihybridDHAdditiveGeneticVarianceMatrix": ("pybrops.model.vmat", ("female", "male")),
    "DenseDihybridDHAdditiveGenicVarianceMatrix": ("pybrops.model.vmat", ("female", "male")),
    "DenseThreeWayDHAdditiveGeneticVarianceMatrix": ("pybrops.model.vmat", ("recurrent", "female", "male")),
    "DenseThreeWayDHAdditiveGenicVarianceMatrix": ("pybrops.model.vmat", ("recurrent", "female", "male")),
    "DenseFourWayDHAdditiveGeneticVarianceMatrix": ("pybrops.model.vmat", ("female2", "male2", "female1", "male1")),
    "DenseFourWayDHAdditiveGenicVarianceMatrix": ("pybrops.model.vmat", ("female2", "male2", "female1", "male1")),
    "DenseSquareTaxaTraitMatrix": ("pybrops.core.mat", None),
}
GMOD_CLASSES = {
    "DenseAdditiveLinearGenomicModel": "pybrops.model.gmod.DenseAdditiveLinearGenomicModel",
    "DenseAdditiveDominanceLinearGenomicModel": "pybrops.model.gmod.DenseAdditiveDominanceLinearGenomicModel",
    "rrBLUPModel0": "pybrops.model.gmod.rrBLUPModel0",
}


def _cls(modpath, name):
    import importlib
    return getattr(importlib.import_module(modpath), name)


def get_class(name):
    if name in ("DenseGenotypeMatrix", "DensePhasedGenotypeMatrix"):
        return _cls("pybrops.popgen.gmat." + name, name)
    if name in BV_CLASSES:
        return _cls(BV_CLASSES[name], name)
    if name in CMAT_CLASSES:
        return _cls(CMAT_CLASSES[name], name)
    if name in VMAT_CLASSES:
        return _cls(VMAT_CLASSES[name][0] + "." + name, name)
    if name in GMOD_CLASSES:
        return _cls(GMOD_CLASSES[name], name)
    if name in ("StandardGeneticMap", "ExtendedGeneticMap"):
        return _cls("pybrops.popgen.gmap." + name, name)
    if name in ("G_E_Phenotyping", "TruePhenotyping"):
        return _cls("pybrops.breed.prot.pt." + name, name)
    if name in CORE_CLASSES:
        return _cls("pybrops.core.mat." + name, name)
    if name in PCV_CLASSES:
        return _cls("pybrops.model.pcvmat." + name, name)
    raise KeyError(name)


def _taxa_part(g, n, richness, lcls, need_taxa=False):
    kw = {}
    order = pick(g, ["sorted", "unsorted"])
    if need_taxa or _rich(g, richness):
        kw["taxa"] = mklabels(g, n, lcls, "t", order)
    if _rich(g, richness):
        kw["taxa_grp"] = g.integers(0, 3, n).astype("int64")
    return kw, order


def _traits(g, t, richness, lcls, need=False):
    order = pick(g, ["sorted", "unsorted"])
    if need or _rich(g, richness):
        return mklabels(g, t, lcls, "y", order), order
    return None, order


def build_bvmat(g, cls_name, richness, lcls):
    cls = get_class(cls_name)
    n = int(g.integers(1, 9)); t = int(g.integers(1, 4))
    kw, order = _taxa_part(g, n, richness, lcls)
    trait, torder = _traits(g, t, richness, lcls)
    raw = g.normal(size=(n, t)) * g.uniform(0.5, 20, t) + g.uniform(-50, 50, t)
    if g.random() < 0.15 and n > 2:
        raw[g.integers(n), g.integers(t)] = numpy.nan
    if g.random() < 0.5:
        obj = cls.from_numpy(raw, trait=trait, **kw); dcls = "standardised values"
    else:
        loc = g.uniform(-5, 5, t); sc = g.uniform(0.5, 3, t)
        obj = cls(mat=raw, location=loc, scale=sc, trait=trait, **kw); dcls = "arbitrary location and scale"
    grouped = False
    if "taxa_grp" in kw and (richness == "rich" or g.random() < 0.5):
        obj.group_taxa(); grouped = True
    meta = dict(lcls=lcls if ("taxa" in kw or trait is not None) else "labels absent",
                gcls="grouped" if grouped else ("ungrouped" if "taxa_grp" in kw else "no group labels"),
                dcls=dcls, trivial=(n < 2 and t < 2), nan=bool(numpy.isnan(raw).any()))
    return Spec(obj, cls_name, meta)


def build_cmat(g, cls_name, richness, lcls):
    cls = get_class(cls_name)
    n = int(g.integers(1, 8))
    kw, order = _taxa_part(g, n, richness, lcls)
    a = g.normal(size=(n, n + 2)); mat = a @ a.T / (n + 2)
    obj = cls(mat=mat, **kw)
    grouped = False
    if "taxa_grp" in kw and (richness == "rich" or g.random() < 0.5):
        obj.group_taxa(); grouped = True
    meta = dict(lcls=lcls if "taxa" in kw else "labels absent",
                gcls="grouped" if grouped else ("ungrouped" if "taxa_grp" in kw else "no group labels"),
                dcls="taxa order %s" % order if "taxa" in kw else "any", trivial=n < 2)
    return Spec(obj, cls_name, meta)


def build_vmat(g, cls_name, richness, lcls):
    cls = get_class(cls_name)
    roles = VMAT_CLASSES[cls_name][1]
    nsq = 2 if roles is None else len(roles)
    n = int(g.integers(1, {2: 6, 3: 5, 4: 4}[nsq])); t = int(g.integers(1, 4))
    kw, order = _taxa_part(g, n, richness, lcls)
    trait, torder = _traits(g, t, richness, lcls)
    mat = g.uniform(0, 4, (n,) * nsq + (t,))
    if g.random() < 0.1 and n > 1:
        mat[(0,) * nsq + (0,)] = numpy.nan
    obj = cls(mat=mat, trait=trait, **kw)
    grouped = False
    if "taxa_grp" in kw and (richness == "rich" or g.random() < 0.5):
        obj.group_taxa(); grouped = True
    oc = []
    if "taxa" in kw and n > 1:
        oc.append("taxa labels %s" % ("in sorted order" if _is_sorted(obj.taxa) else "not in sorted order"))
    if trait is not None and t > 1:
        oc.append("trait labels %s" % ("in sorted order" if _is_sorted(obj.trait) else "not in sorted order"))
    meta = dict(lcls=lcls if ("taxa" in kw or trait is not None) else "labels absent",
                gcls="grouped" if grouped else ("ungrouped" if "taxa_grp" in kw else "no group labels"),
                dcls="/".join(oc) if oc else "single taxon and trait or labels absent", trivial=(n < 2 and t < 2))
    return Spec(obj, cls_name, meta)


def _is_sorted(lab):
    l = list(lab)
    return l == sorted(l)


SPLINE_KINDS = {"linear": 2, "slinear": 2, "nearest": 2, "nearest-up": 2, "zero": 2, "previous": 2, "next": 2, "quadratic": 3, "cubic": 4}


def build_gmap(g, cls_name, richness, lcls):
    """Genetic maps; the interpolation spline is absent, built with the defaults, or built with any supported kind and
    fill value - through the constructor options or by an explicit build_spline() call."""
    cls = get_class(cls_name)
    nchr = int(g.integers(1, 4))
    kind = pick(g, list(SPLINE_KINDS)) if g.random() < 0.6 else "linear"
    fill = "extrapolate" if g.random() < 0.75 else numpy.array(pick(g, [0.0, numpy.nan, -1.0]))
    chrs, pos, gen = [], [], []
    for c in range(nchr):
        k = int(g.integers(SPLINE_KINDS[kind], 7))
        pp = numpy.sort(g.choice(numpy.arange(1, 400), k, replace=False)) * 5
        gg = numpy.cumsum(g.uniform(0.001, 0.4, k))
        if g.random() < 0.3:
            gg = numpy.round(gg, 3)
        chrs += [c + 1] * k; pos += list(pp); gen += list(gg)
    m = len(chrs)
    perm = g.permutation(m) if g.random() < 0.6 else numpy.arange(m)
    chrs = numpy.array(chrs, dtype="int64")[perm]; pos = numpy.array(pos, dtype="int64")[perm]; gen = numpy.array(gen, dtype=float)[perm]
    auto_group = bool(g.random() < 0.8)
    how = pick(g, ["none", "constructor", "constructor", "build_spline()", "build_spline()"])
    kw = dict(auto_group=auto_group, auto_build_spline=(how == "constructor"))
    if how == "constructor":
        kw.update(spline_kind=kind, spline_fill_value=fill)
    if cls_name == "ExtendedGeneticMap":
        stop = pos + g.integers(0, 4, m)
        if _rich(g, richness):
            kw["vrnt_name"] = mklabels(g, m, lcls, "m", "unsorted")
        if _rich(g, richness):
            kw["vrnt_fncode"] = numpy.array([pick(g, ["E", "I", "U", "P"]) for _ in range(m)], dtype=object)
        obj = cls(chrs, pos, stop.astype("int64"), gen, **kw)
    else:
        obj = cls(chrs, pos, gen, **kw)
    if how == "build_spline()":
        obj.build_spline(kind=kind, fill_value=fill)
    foreign = False
    if obj.spline is not None and g.random() < 0.25:
        # a map whose interpolators do NOT derive from its own marker arrays: the product of interp_gmap(), which keeps the
        # spline of the map it was interpolated from
        try:
            qc, qp = [], []
            for u in numpy.unique(chrs):
                pu = numpy.sort(pos[chrs == u])
                lo, hi = int(pu.min()), int(pu.max())
                qq = numpy.unique(g.integers(lo - (3 if isinstance(obj.spline_fill_value, str) else 0), hi + 1, int(g.integers(2, 6))))
                qc += [int(u)] * len(qq); qp += qq.tolist()
            qc, qp = numpy.array(qc, dtype="int64"), numpy.array(qp, dtype="int64")
            new = obj.interp_gmap(qc, qp, qp + 1) if cls_name == "ExtendedGeneticMap" else obj.interp_gmap(qc, qp)
            if new.spline is not None and bool(numpy.all(numpy.isfinite(new.vrnt_genpos))):
                obj, foreign = new, True
                auto_group = bool(obj.is_grouped())
                kw.pop("vrnt_name", None)
        except Exception:
            pass
    has = obj.spline is not None
    sk = obj.spline_kind if has else None
    scls = "no spline" if not has else ("default linear spline" if (sk == "linear" and isinstance(obj.spline_fill_value, str))
                                        else "spline of non-default kind or fill value")
    if foreign:
        scls = "spline taken over from another map (interp_gmap)"
    meta = dict(lcls=lcls if (getattr(obj, "vrnt_name", None) is not None) else "labels absent", gcls="grouped" if auto_group else "ungrouped",
                dcls="spline built" if has else "no spline", pcls=scls, trivial=False, auto_group=auto_group, auto_spline=has,
                foreign_spline=foreign)
    return Spec(obj, cls_name, meta)


def _nested_value(g, depth=0):
    """Free-form parameter value with mutable containers nested two or more levels deep."""
    k = pick(g, ["dict in dict", "list in list", "array in dict in dict", "array in list in dict", "dict in list"])
    if k == "dict in dict":
        v = {"prior": {"scale": float(g.normal()), "df": int(g.integers(1, 9))}}
    elif k == "list in list":
        v = [[int(x) for x in g.integers(0, 9, 3)], [int(x) for x in g.integers(0, 9, 2)]]
    elif k == "array in dict in dict":
        v = {"prior": {"scale": g.normal(size=2), "grid": {"lo": g.normal(size=1)}}}
    elif k == "array in list in dict":
        v = {"folds": [g.integers(0, 9, 3), g.integers(0, 9, 2)]}
    else:
        v = [{"name": "a", "w": g.normal(size=2)}, {"name": "b", "w": [1.0, 2.0]}]
    return v, k


NESTED_PARAMS = [False]     # set by the copy cases: free-form parameter slots then also hold nested containers (formats that
                            # store hyperparameters accept flat dictionaries of scalars / strings / arrays only)


def _hyper(g, richness, lcls):
    if NESTED_PARAMS[0] and g.random() < 0.6:
        d = {"hp0": float(g.normal())} if g.random() < 0.5 else {}
        for i in range(int(g.integers(1, 3))):
            d["nested%d" % i], _ = _nested_value(g)
        return d, "nested hyperparameter containers"
    if not _rich(g, richness):
        return None, "no hyperparameters"
    d = {}
    kinds = []
    nk = int(g.integers(1, 4))
    for i in range(nk):
        k = pick(g, ["int", "float", "array", "str"])
        kinds.append(k)
        key = "hp%d" % i if lcls == "ASCII labels" or g.random() < 0.5 else "hpé%d" % i
        if k == "int":
            d[key] = int(g.integers(-5, 100))
        elif k == "float":
            d[key] = float(g.normal())
        elif k == "array":
            d[key] = g.normal(size=int(g.integers(1, 4)))
        else:
            d[key] = "REML" if lcls == "ASCII labels" else "méthode"
    return d, ("string-valued hyperparameter" if "str" in kinds else "numeric hyperparameters")


def build_gmod(g, cls_name, richness, lcls, need_trait=False):
    cls = get_class(cls_name)
    t = int(g.integers(1, 4)); p = int(g.integers(1, 9)); q = int(pick(g, [1, 1, 2]))
    beta = g.normal(size=(q, t))
    u_misc = g.normal(size=(int(g.integers(1, 3)), t)) if _rich(g, richness) and g.random() < 0.5 else None
    u_a = g.normal(size=(p, t))
    trait, torder = _traits(g, t, richness, lcls, need=need_trait)
    model_name = (("rr-%d" % int(g.integers(100))) if lcls == "ASCII labels" else "modèle-%d" % int(g.integers(100))) if _rich(g, richness) else None
    hyper, hcls = _hyper(g, richness, lcls)
    kw = dict(beta=beta, u_misc=u_misc, u_a=u_a, trait=trait, model_name=model_name, hyperparams=hyper)
    if cls_name == "DenseAdditiveDominanceLinearGenomicModel":
        kw["u_d"] = g.normal(size=(p, t)) * 0.1
    if cls_name == "rrBLUPModel0":
        kw["method"] = "ML"
    obj = cls(**kw)
    meta = dict(lcls=lcls if trait is not None else "labels absent", gcls="no group labels", dcls="any", pcls=hcls,
                trivial=(t < 2 and p < 2))
    return Spec(obj, cls_name, meta)


def build_pt(g, cls_name, richness, lcls):
    cls = get_class(cls_name)
    gm = build_gmod(g, pick(g, ["DenseAdditiveLinearGenomicModel", "DenseAdditiveDominanceLinearGenomicModel"]), richness, lcls)
    t = gm.obj.ntrait
    if cls_name == "TruePhenotyping":
        return Spec(cls(gpmod=gm.obj), cls_name, dict(lcls=gm.meta["lcls"], gcls="no group labels", dcls="any", pcls="any",
                                                      trivial=True, gpmod=gm.obj))
    nenv = int(g.integers(1, 5))
    nrep = int(g.integers(1, 4)) if g.random() < 0.5 else g.integers(1, 4, nenv).astype("int64")

    def var():
        if not _rich(g, richness):
            return None
        return float(numpy.round(g.uniform(0, 3), 3)) if g.random() < 0.4 else g.uniform(0, 3, t)
    obj = cls(gpmod=gm.obj, nenv=nenv, nrep=nrep, var_env=var(), var_rep=var(), var_err=var(),
              rng=numpy.random.default_rng(int(g.integers(1 << 30))) if g.random() < 0.5 else None)
    return Spec(obj, cls_name, dict(lcls=gm.meta["lcls"], gcls="no group labels", dcls="any", pcls="any", trivial=(nenv < 2 and t < 2),
                                    gpmod=gm.obj))


CORE_CLASSES = ["DenseMatrix", "DenseTaxaMatrix", "DenseVariantMatrix", "DenseTaxaVariantMatrix", "DenseTraitMatrix",
                "DenseTaxaTraitMatrix", "DenseSquareTaxaMatrix"]


PCV_CLASSES = {   # progeny covariance matrices (square taxa axes x trait x trait): HDF5, copy and pickle routes
    "DenseTwoWayDHAdditiveProgenyGeneticCovarianceMatrix": 2, "DenseTwoWayDHAdditiveProgenyGenicCovarianceMatrix": 2,
    "DenseDihybridDHAdditiveProgenyGeneticCovarianceMatrix": 2, "DenseDihybridDHAdditiveProgenyGenicCovarianceMatrix": 2,
    "DenseThreeWayDHAdditiveProgenyGeneticCovarianceMatrix": 3, "DenseThreeWayDHAdditiveProgenyGenicCovarianceMatrix": 3,
    "DenseFourWayDHAdditiveProgenyGeneticCovarianceMatrix": 4, "DenseFourWayDHAdditiveProgenyGenicCovarianceMatrix": 4,
}


def build_pcv(g, cls_name, richness, lcls):
    cls = get_class(cls_name)
    nsq = PCV_CLASSES[cls_name]
    n = int(g.integers(1, {2: 6, 3: 4, 4: 4}[nsq])); t = int(g.integers(1, 4))
    kw, order = _taxa_part(g, n, richness, lcls)
    trait, torder = _traits(g, t, richness, lcls)
    mat = g.normal(size=(n,) * nsq + (t, t))
    obj = cls(mat=mat, trait=trait, **kw)
    grouped = False
    if "taxa_grp" in kw and (richness == "rich" or g.random() < 0.5):
        obj.group_taxa(); grouped = True
    meta = dict(lcls=lcls if ("taxa" in kw or trait is not None) else "labels absent",
                gcls="grouped" if grouped else ("ungrouped" if "taxa_grp" in kw else "no group labels"), dcls="any",
                trivial=(n < 2 and t < 2))
    return Spec(obj, cls_name, meta)


def build_core(g, cls_name, richness, lcls):
    """Core labelled-matrix classes the persistable classes inherit their writers/readers/copy methods from."""
    cls = get_class(cls_name)
    n = int(g.integers(1, 8)); k = n if cls_name == "DenseSquareTaxaMatrix" else int(g.integers(1, 8))
    mat = g.normal(size=(n, k))
    probe = cls(mat)
    kw = {}
    has = []
    order = pick(g, ["sorted", "unsorted"])
    if hasattr(probe, "taxa_axis"):
        nt = mat.shape[probe.taxa_axis]
        if _rich(g, richness):
            kw["taxa"] = mklabels(g, nt, lcls, "t", order)
        if _rich(g, richness):
            kw["taxa_grp"] = g.integers(0, 3, nt).astype("int64")
    if hasattr(probe, "trait_axis"):
        if _rich(g, richness):
            kw["trait"] = mklabels(g, mat.shape[probe.trait_axis], lcls, "y", order)
    if hasattr(probe, "vrnt_axis"):
        p = mat.shape[probe.vrnt_axis]
        if _rich(g, richness):
            kw["vrnt_chrgrp"] = g.integers(1, 4, p).astype("int64")
            kw["vrnt_phypos"] = g.permutation(numpy.arange(1, p + 1, dtype="int64") * 7)
        if _rich(g, richness):
            kw["vrnt_name"] = mklabels(g, p, lcls, "m", order)
        if _rich(g, richness):
            kw["vrnt_genpos"] = g.uniform(0, 2, p)
        if _rich(g, richness):
            kw["vrnt_xoprob"] = g.uniform(0, 0.5, p)
        if _rich(g, richness):
            kw["vrnt_hapgrp"] = g.integers(0, 4, p).astype("int64")
        if _rich(g, richness):
            kw["vrnt_hapalt"] = numpy.array([pick(g, ["A", "C", "G", "T"]) for _ in range(p)], dtype=object)
        if _rich(g, richness):
            kw["vrnt_hapref"] = numpy.array([pick(g, ["A", "C", "G", "T"]) for _ in range(p)], dtype=object)
        if _rich(g, richness):
            kw["vrnt_mask"] = g.random(p) < 0.5
    obj = cls(mat, **kw)
    grouped = []
    if "taxa_grp" in kw and (richness == "rich" or g.random() < 0.5):
        obj.group_taxa(); grouped.append("taxa")
    if "vrnt_chrgrp" in kw and (richness == "rich" or g.random() < 0.5):
        obj.group_vrnt(); grouped.append("vrnt")
    meta = dict(lcls=lcls if any(f in kw for f in ("taxa", "trait", "vrnt_name")) else "labels absent",
                gcls="grouped" if grouped else ("ungrouped" if ("taxa_grp" in kw or "vrnt_chrgrp" in kw) else "no group labels"),
                dcls="any", trivial=(n < 2 and k < 2))
    return Spec(obj, cls_name, meta)


ZOO = (CORE_CLASSES + list(PCV_CLASSES) + ["DenseGenotypeMatrix", "DensePhasedGenotypeMatrix"] + list(BV_CLASSES) + list(CMAT_CLASSES) + list(VMAT_CLASSES)
       + ["StandardGeneticMap", "ExtendedGeneticMap"] + list(GMOD_CLASSES) + ["G_E_Phenotyping", "TruePhenotyping"])
HDF5_CLASSES = [k for k in ZOO if k not in ("StandardGeneticMap", "ExtendedGeneticMap")]
TABLE_CLASSES = list(BV_CLASSES) + list(CMAT_CLASSES) + list(VMAT_CLASSES) + ["StandardGeneticMap", "ExtendedGeneticMap"]
DICT_CLASSES = list(GMOD_CLASSES)


def build(g, cls_name, richness=None, lcls=None):
    richness = richness or pick(g, ["rich", "mixed", "mixed", "poor"])
    lcls = lcls or pick(g, LABEL_CLASSES)
    if cls_name in ("DenseGenotypeMatrix", "DensePhasedGenotypeMatrix"):
        s = build_gmat(g, cls_name, richness, lcls)
    elif cls_name in CORE_CLASSES:
        s = build_core(g, cls_name, richness, lcls)
    elif cls_name in PCV_CLASSES:
        s = build_pcv(g, cls_name, richness, lcls)
    elif cls_name in BV_CLASSES:
        s = build_bvmat(g, cls_name, richness, lcls)
    elif cls_name in CMAT_CLASSES:
        s = build_cmat(g, cls_name, richness, lcls)
    elif cls_name in VMAT_CLASSES:
        s = build_vmat(g, cls_name, richness, lcls)
    elif cls_name in ("StandardGeneticMap", "ExtendedGeneticMap"):
        s = build_gmap(g, cls_name, richness, lcls)
    elif cls_name in GMOD_CLASSES:
        s = build_gmod(g, cls_name, richness, lcls)
    else:
        s = build_pt(g, cls_name, richness, lcls)
    s.meta["richness"] = richness
    perturb_state(g, s, lcls)
    return s


VRNT_ARRAYS = ("vrnt_chrgrp", "vrnt_phypos", "vrnt_name", "vrnt_genpos", "vrnt_xoprob", "vrnt_hapgrp", "vrnt_hapalt", "vrnt_hapref",
               "vrnt_mask")


def _within_group_perm(g, labels, grouped, n=None):
    """Permutation of an axis that keeps every run of equal group labels in place when the axis is grouped (group index
    tables stay valid), any permutation otherwise."""
    n = len(labels) if labels is not None else int(n)
    if not grouped or labels is None:
        return g.permutation(n)
    perm = numpy.arange(n)
    lab = numpy.asarray(labels)
    st = 0
    for i in range(1, n + 1):
        if i == n or lab[i] != lab[st]:
            perm[st:i] = st + g.permutation(i - st)
            st = i
    return perm


def perturb_state(g, spec, lcls):
    """Bring a labelled matrix into a state the PUBLIC API can leave it in before it is written or copied: labels renamed
    through the setters after grouping, rows / variants reordered within their groups through the setters, sorted by custom
    keys, ungrouped after grouping.  Only the object's own public setters and methods are used."""
    obj, meta = spec.obj, spec.meta
    if not hasattr(obj, "taxa_axis") and not hasattr(obj, "vrnt_axis"):
        return
    if hasattr(obj, "mat") is False or g.random() < 0.45:
        meta["state"] = "as constructed"
        return
    ops = []
    try:
        if hasattr(obj, "taxa_axis") and obj.ntaxa > 1:
            op = pick(g, ["rename", "reorder within groups", "custom sort", "ungroup", "none"])
            grouped = bool(obj.is_grouped_taxa()) if hasattr(obj, "is_grouped_taxa") else False
            if op == "rename" and obj.taxa is not None:
                obj.taxa = mklabels(g, obj.ntaxa, lcls, "r", "unsorted"); ops.append("taxa renamed through the setter")
            elif op == "reorder within groups":
                perm = _within_group_perm(g, obj.taxa_grp, grouped, obj.ntaxa)
                axes = tuple(getattr(obj, "square_taxa_axes", (obj.taxa_axis,)))
                mat = obj.mat
                for ax in axes:
                    mat = numpy.take(mat, perm, axis=ax)
                tx, tg = obj.taxa, obj.taxa_grp
                obj.mat = numpy.ascontiguousarray(mat)
                if tx is not None:
                    obj.taxa = tx[perm]
                if tg is not None:
                    obj.taxa_grp = tg[perm]
                ops.append("taxa reordered within groups through the setters" if grouped else "taxa reordered through the setters")
            elif op == "custom sort" and hasattr(obj, "sort_taxa"):
                obj.sort_taxa(keys=(g.permutation(obj.ntaxa),)); ops.append("taxa sorted by a custom key")
            elif op == "ungroup" and grouped and hasattr(obj, "ungroup_taxa"):
                obj.ungroup_taxa(); ops.append("taxa ungrouped after grouping")
        if hasattr(obj, "vrnt_axis") and obj.nvrnt > 1:
            op = pick(g, ["rename", "reorder within groups", "custom sort", "ungroup", "none"])
            grouped = bool(obj.is_grouped_vrnt()) if hasattr(obj, "is_grouped_vrnt") else False
            if op == "rename" and obj.vrnt_name is not None:
                obj.vrnt_name = mklabels(g, obj.nvrnt, lcls, "v", "unsorted"); ops.append("variants renamed through the setter")
            elif op == "reorder within groups":
                perm = _within_group_perm(g, obj.vrnt_chrgrp, grouped, obj.nvrnt)
                vals = {f: getattr(obj, f) for f in VRNT_ARRAYS}
                obj.mat = numpy.ascontiguousarray(numpy.take(obj.mat, perm, axis=obj.vrnt_axis))
                for f, v in vals.items():
                    if v is not None:
                        setattr(obj, f, v[perm])
                ops.append("variants reordered within chromosomes through the setters" if grouped else "variants reordered through the setters")
            elif op == "custom sort" and hasattr(obj, "sort_vrnt"):
                obj.sort_vrnt(keys=(g.permutation(obj.nvrnt),)); ops.append("variants sorted by a custom key")
            elif op == "ungroup" and grouped and hasattr(obj, "ungroup_vrnt"):
                obj.ungroup_vrnt(); ops.append("variants ungrouped after grouping")
    except Exception as e:      # an operation the class does not support in this state: the object stays as it is
        ops.append("(%s raised %s)" % (op, type(e).__name__))
    meta["state"] = "; ".join(ops) if ops else "as constructed"
    # the input classes of the keys describe the object as it is now
    gt = bool(obj.is_grouped_taxa()) if hasattr(obj, "is_grouped_taxa") else False
    gv = bool(obj.is_grouped_vrnt()) if hasattr(obj, "is_grouped_vrnt") else False
    has_grp = getattr(obj, "taxa_grp", None) is not None or getattr(obj, "vrnt_chrgrp", None) is not None
    meta["gcls"] = "grouped" if (gt or gv) else ("ungrouped" if has_grp else "no group labels")
    if spec.kind in VMAT_CLASSES:
        oc = []
        if obj.taxa is not None and obj.ntaxa > 1:
            oc.append("taxa labels %s" % ("in sorted order" if _is_sorted(obj.taxa) else "not in sorted order"))
        if obj.trait is not None and obj.ntrait > 1:
            oc.append("trait labels %s" % ("in sorted order" if _is_sorted(obj.trait) else "not in sorted order"))
        meta["dcls"] = "/".join(oc) if oc else "single taxon and trait or labels absent"
    if spec.kind in CMAT_CLASSES and obj.taxa is not None:
        meta["dcls"] = "taxa order %s" % ("sorted" if _is_sorted(obj.taxa) else "unsorted")


def icls_for(cat, meta):
    if cat == "labels":
        return meta.get("lcls", "any")
    if cat in ("grouplabels", "groupindex"):
        return meta.get("gcls", "any")
    if cat == "params":
        return meta.get("pcls", meta.get("dcls", "any"))
    return meta.get("dcls", "any")


REL = {"data": "data arrays equal (dtype, shape, values)", "labels": "label arrays equal", "grouplabels": "group labels equal",
       "groupindex": "derived group index arrays equal", "params": "parameters equal"}


# =============================================================== guarded calls (affirmative-result policy)
class Raised(Exception):
    pass


def guarded(ctx, site, fmt, coords, fn, witness=None):
    ctx.ok("C16.returns")
    try:
        return fn()
    except Exception as e:
        ctx.raised(site, e)
        import traceback
        ctx.violation("C16.returns", site, "raised " + norm_msg(e), fmt,
                      what="%s raised on an in-domain object (%s route): %s: %s" % (site, fmt, type(e).__name__, str(e)[:200]),
                      witness=dict(witness or {}, traceback=traceback.format_exc()[-1500:]), coords=coords)
        raise Raised()


def judge(ctx, clause, site, src_obs, got_obs, meta, coords, fmt, tol=None, skip=(), extra=None, cats=OE.CATS, note="",
          prefix=None, icls_override=None):
    """One evaluation per category; key = clause|site|category relation|input class of that category."""
    d = OE.diff(src_obs, got_obs, tol=tol, skip=skip)
    if tol is not None:     # routes compared with a tolerance: report how much of it was used
        for f in OE.FAMILY[src_obs["__family__"]]["data"] + OE.FAMILY[src_obs["__family__"]]["params"]:
            if f in skip:
                continue
            a, b = src_obs.get(f), got_obs.get(f)
            if isinstance(a, numpy.ndarray) and isinstance(b, numpy.ndarray) and a.shape == b.shape and a.dtype.kind == "f" \
                    and b.dtype.kind == "f" and a.size:
                m = numpy.isfinite(a) & numpy.isfinite(b)
                if m.any():
                    ctx.maxnote("worst |a-b|/max|a| on routes compared with tolerance 1e-9 (cM units, unscaled values, CSV without "
                                "round_trip parsing)", float(numpy.max(numpy.abs(a[m] - b[m])) / (numpy.max(numpy.abs(a[m])) + 1e-300)))
    by_cat = {}
    for f, cat, why in d:
        by_cat.setdefault(cat, []).append((f, why))
    for cat in cats:
        fields = [f for f in OE.FAMILY[src_obs["__family__"]][cat] if f not in skip]
        if not fields and not (cat == "params" and "__class__" in [x[0] for x in by_cat.get(cat, [])]):
            continue
        bad = by_cat.get(cat, [])
        # how the columns were designated concerns what is read from columns; parameters keep their own input class
        icls = icls_for(cat, meta) if (not icls_override or cat in ("params", "groupindex")) else icls_override
        ctx.check(clause, not bad, site, REL[cat] + note, icls if prefix is None else "%s/%s" % (prefix, icls),
                  what=None if not bad else "%s: %s after %s: %s" % (site, REL[cat], fmt, "; ".join("%s: %s" % b for b in bad)[:400]),
                  witness=None if not bad else dict(extra or {}, source=_wit(src_obs), got=_wit(got_obs), differing=bad),
                  coords=coords)
    return d


def align_axes(src, got):
    """Long tables identify rows by label: bring ``got`` into the axis order of ``src`` when both carry the same unique
    labels.  Returns (aligned observation of got, list of axes whose order differed)."""
    out = dict(got)
    moved = []
    mat = got.get("mat")
    if not isinstance(mat, numpy.ndarray):
        return out, moved
    for axis_field in ("taxa", "trait"):
        a, b = src.get(axis_field), got.get(axis_field)
        if not (isinstance(a, numpy.ndarray) and isinstance(b, numpy.ndarray)) or a.shape != b.shape or a.ndim != 1:
            continue
        la, lb = a.tolist(), b.tolist()
        if la == lb or len(set(map(repr, la))) != len(la) or sorted(map(repr, la)) != sorted(map(repr, lb)):
            continue
        pos = {repr(x): i for i, x in enumerate(lb)}
        perm = numpy.array([pos[repr(x)] for x in la], dtype=int)
        moved.append(axis_field)
        out[axis_field] = b[perm]
        mat = out["mat"]
        if axis_field == "taxa":
            for ax in range(mat.ndim - 1):
                if mat.shape[ax] == len(perm):
                    mat = numpy.take(mat, perm, axis=ax)
            tg = out.get("taxa_grp")
            if isinstance(tg, numpy.ndarray) and tg.shape == perm.shape:
                out["taxa_grp"] = tg[perm]
        else:
            if mat.shape[-1] == len(perm):
                mat = numpy.take(mat, perm, axis=mat.ndim - 1)
        out["mat"] = mat
    return out, moved


def _wit(obs):
    return {k: v for k, v in obs.items()}


# =============================================================== routes
GROUPS = [None, "g", "g1/g2/g3", "grp/", "a/b/", "grp/é", "données/ñ/中", "with space/sub grp", "/abs/path", "x" * 40]


def h5_write_read(ctx, spec, path, group, how, coords, reader_cls=None):
    """Write ``spec.obj`` to (path, group) and read it back with matching options."""
    import h5py
    from pathlib import Path
    obj = spec.obj
    cls = reader_cls or type(obj)
    wsite, rsite = defsite(type(obj), "to_hdf5"), defsite(cls, "from_hdf5")
    extra = {}
    if spec.kind in ("G_E_Phenotyping", "TruePhenotyping"):
        extra["gpmod"] = spec.meta["gpmod"]
    wit = {"group": group, "file arg": how}
    if how == "h5py.File":
        def w():
            with h5py.File(path, "a") as f:
                obj.to_hdf5(f, group)

        def r():
            with h5py.File(path, "r") as f:
                return cls.from_hdf5(f, group, **extra)
    else:
        p = Path(path) if how == "Path" else path

        def w():
            obj.to_hdf5(p, group)

        def r():
            return cls.from_hdf5(p, group, **extra)
    guarded(ctx, wsite, "hdf5", coords, w, wit)
    return rsite, lambda: guarded(ctx, rsite, "hdf5", coords, r, wit)


def table_options(g, spec):
    """(write kwargs, read kwargs, skip fields, tol, route name) for to_pandas/from_pandas and to_csv/from_csv."""
    o, kind, meta = spec.obj, spec.kind, spec.meta
    custom = bool(g.random() < 0.4)
    skip, tol, route = set(OE.TAXA_GRP_IX), None, "stored values"

    def nm(base):
        return ("c_" + base + ("é" if g.random() < 0.5 else "")) if custom else base
    if kind in BV_CLASSES:
        tc, gc = nm("taxa"), nm("taxa_grp")
        wk = dict(taxa_col=tc if o.taxa is not None else None, taxa_grp_col=gc if o.taxa_grp is not None else None,
                  trait_cols="all")
        rk = dict(taxa_col=wk["taxa_col"], taxa_grp_col=wk["taxa_grp_col"], trait_cols="infer")
        if g.random() < 0.5:
            wk["unscale"] = False; rk["location"] = o.location; rk["scale"] = o.scale
        else:
            wk["unscale"] = True; route = "unscaled values"
        if o.trait is None:
            skip.add("trait")
    elif kind in CMAT_CLASSES:
        tc, gc = nm("taxa"), nm("taxa_grp")
        wk = dict(taxa_col=tc, taxa_grp_col=gc if (o.taxa_grp is not None or g.random() < 0.5) else None, taxa="all")
        rk = dict(wk)
        if o.taxa is None:
            skip.add("taxa")
    elif kind in VMAT_CLASSES:
        roles = VMAT_CLASSES[kind][1]
        if roles is None:
            tcs = [nm("taxa_%d" % i) for i in range(2)]; gcs = [nm("taxa_grp_%d" % i) for i in range(2)]
            wk = dict(taxa_colnames=tcs, taxa_grp_colnames=gcs if o.taxa_grp is not None else None,
                      trait_colnames=nm("trait_0"), value_colname=nm("value"))
            rk = dict(wk, ntaxaaxes=2)
        else:
            wk = {}
            for r in roles:
                wk[r + "_col"] = nm(r)
                wk[r + "_grp_col"] = nm(r + "_grp") if o.taxa_grp is not None else None
            wk["trait_col"] = nm("trait")
            wk["covariance_col" if "Covariance" in kind else "variance_col"] = nm("variance")
            rk = dict(wk)
        if o.taxa is None:
            skip.add("taxa")
        if o.trait is None:
            skip.add("trait")
    else:  # genetic maps
        units = pick(g, ["M", "cM", "Morgans", "centiMorgans"])
        wk = dict(vrnt_chrgrp_col=nm("chr"), vrnt_phypos_col=nm("pos"), vrnt_genpos_col=nm("cM"), vrnt_genpos_units=units)
        if kind == "ExtendedGeneticMap":
            wk.update(vrnt_stop_col=nm("stop"), vrnt_name_col=nm("name"), vrnt_fncode_col=nm("fncode"))
        rk = dict(wk, auto_group=meta["auto_group"], auto_build_spline=meta["auto_spline"], spline_kind=o.spline_kind,
                  spline_fill_value=o.spline_fill_value)
        if meta.get("foreign_spline"):      # interpolators that are not a function of the table: handed to the reader
            rk.update(spline=o.spline, auto_build_spline=False)
        if kind == "ExtendedGeneticMap":
            rk["vrnt_name_col"] = wk["vrnt_name_col"] if o.vrnt_name is not None else None
            rk["vrnt_fncode_col"] = wk["vrnt_fncode_col"] if o.vrnt_fncode is not None else None
        skip = set()
        route = "units " + ("M" if units in ("M", "Morgans") else "cM")
        if units in ("cM", "centiMorgans"):
            tol = {"vrnt_genpos": TOL, "spline": TOL, "behaviour": TOL}
    return wk, rk, skip, tol, route


COLUMN_LIST_KEYS = ("taxa_colnames", "taxa_grp_colnames", "trait_colnames")


def column_option_keys(rk):
    """Reader options that designate columns (by name or by integer position)."""
    return [k for k in rk if k.endswith("_col") or k in COLUMN_LIST_KEYS or k == "value_colname"]


def label_columns(kind, wk):
    """Names of the label (non-value) columns a wide table was written with; their place among the value columns is free."""
    return [v for k, v in wk.items() if k in ("taxa_col", "taxa_grp_col") and isinstance(v, str)]


def switch_off_optional(g, spec, wk, rk, skip):
    """Optional label columns may be switched off on BOTH sides (None): the field is then deliberately not exported."""
    kind, o = spec.kind, spec.obj
    off = []
    if kind in BV_CLASSES:
        if wk.get("taxa_col") is not None and g.random() < 0.15:
            wk["taxa_col"] = rk["taxa_col"] = None; skip.add("taxa"); off.append("taxa")
        if wk.get("taxa_grp_col") is not None and g.random() < 0.15:
            wk["taxa_grp_col"] = rk["taxa_grp_col"] = None; skip.add("taxa_grp"); off.append("taxa_grp")
    elif kind in CMAT_CLASSES:
        if wk.get("taxa_grp_col") is not None and o.taxa_grp is not None and g.random() < 0.15:
            wk["taxa_grp_col"] = rk["taxa_grp_col"] = None; skip.add("taxa_grp"); off.append("taxa_grp")
    elif kind in VMAT_CLASSES and o.taxa_grp is not None and g.random() < 0.6:
        # every subset of the optional group columns (one per parental role), switched consistently on both sides; in a
        # complete table every taxon occurs in every role, so any non-empty subset still carries all group labels
        if "taxa_grp_colnames" in wk and wk["taxa_grp_colnames"] is not None:
            keep = [bool(g.random() < 0.5) for _ in wk["taxa_grp_colnames"]]
            new = [c_ if k_ else None for c_, k_ in zip(wk["taxa_grp_colnames"], keep)]
            wk["taxa_grp_colnames"] = list(new); rk["taxa_grp_colnames"] = list(new)
            off += ["taxa_grp column %d" % i for i, k_ in enumerate(keep) if not k_]
            anyon = any(keep)
        else:
            gk = [k for k in wk if k.endswith("_grp_col")]
            keep = {k: bool(g.random() < 0.5) for k in gk}
            for k in gk:
                if not keep[k]:
                    wk[k] = rk[k] = None; off.append(k)
            anyon = any(keep.values())
        if not anyon:
            skip.add("taxa_grp")
    if kind == "ExtendedGeneticMap":        # optional label columns of the reader, each independently
        for k, f in (("vrnt_name_col", "vrnt_name"), ("vrnt_fncode_col", "vrnt_fncode")):
            if rk.get(k) is not None and g.random() < 0.15:
                rk[k] = None; skip.add(f); off.append(k)
    return off


def move_columns(g, kind, df, wk):
    """The same table with its columns in another order (value columns of wide tables keep their relative order, because
    'the remaining columns, in order' is how those layouts define the trait / taxa axis)."""
    cols = list(df.columns)
    if kind in BV_CLASSES or kind in CMAT_CLASSES:
        lab = [c_ for c_ in cols if c_ in label_columns(kind, wk)]
        rest = [c_ for c_ in cols if c_ not in lab]
        lab = [lab[i] for i in g.permutation(len(lab))]
        for c_ in lab:
            rest.insert(int(g.integers(0, len(rest) + 1)), c_)
        new = rest
    else:
        new = [cols[i] for i in g.permutation(len(cols))]
    return df[new], new != cols


def designate(g, rk, columns, mode):
    """Replace column names in the reader options by integer positions in ``columns`` (mode 'positions': all of them,
    'mixed': each with probability 1/2).  Returns the new options and the list of options given by position."""
    cols = list(columns)
    out = dict(rk)
    byp = []

    def conv(v):
        if isinstance(v, str) and v in cols and (mode == "positions" or g.random() < 0.5):
            return cols.index(v), True
        return v, False
    for k in column_option_keys(rk):
        v = rk[k]
        if isinstance(v, (list, tuple)):
            nv = [conv(e) for e in v]
            out[k] = [e for e, _ in nv]
            if any(b for _, b in nv):
                byp.append(k)
        else:
            out[k], b = conv(v)
            if b:
                byp.append(k)
    return out, byp


def explicit_trait_cols(g, spec, rk, columns, mode):
    """Breeding-value tables: name the trait columns explicitly (sequence of names and/or positions, in table order)
    instead of letting the reader infer them."""
    cols = list(columns)
    labpos = set()
    for v in (rk.get("taxa_col"), rk.get("taxa_grp_col")):
        if isinstance(v, str):
            labpos.add(cols.index(v))
        elif v is not None:
            labpos.add(int(v))
    tpos = [i for i in range(len(cols)) if i not in labpos]
    named = spec.obj.trait is not None and all(isinstance(cols[i], str) for i in tpos)
    seq = []
    for i in tpos:
        by_pos = (not named) or mode == "positions" or (mode == "mixed" and g.random() < 0.5)
        seq.append(i if by_pos else cols[i])
    return seq


# CSV readers that forward extra keyword arguments to pandas.read_csv: exact text round trip is selectable
CSV_FORWARDS_KW = set(BV_CLASSES) | set(CMAT_CLASSES) | set(VMAT_CLASSES) | {"StandardGeneticMap"} | set(GMOD_CLASSES)


def bv_unscaled_view(obs, obj):
    """Observation of a breeding-value matrix through its unscaled values (route 'unscaled values')."""
    o = dict(obs)
    o["mat"] = obj.unscale()
    return o


# =============================================================== cases
def case_roundtrip(ctx, c):
    g = ctx.rng("rt", c)
    fmt = ["hdf5", "hdf5", "csv", "pandas"][c % 4]
    if fmt == "hdf5":
        kind = HDF5_CLASSES[(c // 4) % len(HDF5_CLASSES)]
    else:
        allc = TABLE_CLASSES + DICT_CLASSES
        kind = allc[(c // 4) % len(allc)]
    coords = [c, "rt"]
    spec = build(g, kind)
    obj, meta = spec.obj, spec.meta
    src = OE.freeze(OE.observe(obj))
    clause = "C16.roundtrip.hdf5" if fmt == "hdf5" else "C16.roundtrip.table"
    d = scratch_dir()
    try:
        if fmt == "hdf5":
            group = pick(g, GROUPS); how = pick(g, ["str", "str", "Path", "h5py.File"])
            ctx.case("roundtrip/hdf5/%s" % kind, OE.digest(src), group, how, trivial=meta["trivial"])
            if c % 97 == 0:
                ctx.sample({"case": c, "route": "hdf5", "class": kind, "group": group, "file arg": how, "meta": _meta_json(meta),
                            "object": src})
            path = os.path.join(d, pick(g, ["a.h5", "données é.h5", "b c.hdf5"]))
            try:
                rsite, read = h5_write_read(ctx, spec, path, group, how, coords)
                got = read()
            except Raised:
                return
            judge(ctx, clause, rsite, src, OE.observe(got), meta, coords, "hdf5", extra={"group": group, "file arg": how})
            ctx.check(clause, OE.digest(OE.observe(obj)) == OE.digest(src), defsite(type(obj), "to_hdf5"),
                      "writing leaves the source object unchanged", "hdf5", coords=coords)
            return
        if kind in DICT_CLASSES:
            case_dict_route(ctx, c, g, spec, src, fmt, d, coords)
            return
        wk, rk, skip, tol, route = table_options(g, spec)
        ctx.case("roundtrip/%s/%s" % (fmt, kind), OE.digest(src), route, sorted(wk.items(), key=lambda kv: kv[0]).__repr__(),
                 trivial=meta["trivial"])
        if c % 97 == 0:
            ctx.sample({"case": c, "route": fmt, "class": kind, "write options": wk, "read options": rk, "meta": _meta_json(meta),
                        "object": src})
        cls = type(obj)
        skip = set(skip)
        off = switch_off_optional(g, spec, wk, rk, skip)
        mode = pick(g, ["names", "names", "positions", "positions", "mixed"])     # how the reader is told where the columns are
        moved = False
        wit = {"write options": wk, "read options": rk, "route": route, "columns designated by": mode, "optional columns switched off": off}
        try:
            if fmt == "pandas":
                rsite = defsite(cls, "from_pandas")
                df = guarded(ctx, defsite(cls, "to_pandas"), fmt, coords, lambda: obj.to_pandas(**wk), wit)
                if g.random() < 0.35:
                    df, moved = move_columns(g, kind, df, wk)
                columns = list(df.columns)
                rk, byp = designate(g, rk, columns, mode) if mode != "names" else (rk, [])
                if kind in BV_CLASSES and g.random() < 0.4:
                    rk["trait_cols"] = explicit_trait_cols(g, spec, rk, columns, mode)
                    byp += ["trait_cols"] if any(isinstance(e, int) for e in rk["trait_cols"]) else []
                wit.update({"read options": rk, "columns of the table": columns, "options given by position": byp})
                got = guarded(ctx, rsite, fmt, coords, lambda: cls.from_pandas(df, **rk), wit)
            else:
                import pandas
                rsite = defsite(cls, "from_pandas")  # from_csv = pandas.read_csv + from_pandas: same mechanism
                path = os.path.join(d, pick(g, ["t.csv", "tablé 1.csv"]))
                sepkw = {"sep": pick(g, [",", ",", "\t", ";"])}
                wit = dict(wit, **sepkw)
                guarded(ctx, defsite(cls, "to_csv"), fmt, coords, lambda: obj.to_csv(path, **wk, **sepkw), wit)
                columns = list(pandas.read_csv(path, nrows=0, encoding="utf-8", **sepkw).columns)   # header as any reader sees it
                rk, byp = designate(g, rk, columns, mode) if mode != "names" else (rk, [])
                if kind in BV_CLASSES and g.random() < 0.4:
                    rk["trait_cols"] = explicit_trait_cols(g, spec, rk, columns, mode)
                    byp += ["trait_cols"] if any(isinstance(e, int) for e in rk["trait_cols"]) else []
                wit.update({"read options": rk, "columns of the table": columns, "options given by position": byp})
                rk2 = dict(rk)
                if kind in CSV_FORWARDS_KW:
                    rk2["float_precision"] = "round_trip"
                elif tol is None:
                    tol = TOL
                got = guarded(ctx, defsite(cls, "from_csv"), fmt, coords, lambda: cls.from_csv(path, **rk2, **sepkw), wit)
        except Raised:
            return
        gobs = OE.observe(got)
        sview = src
        note = ""
        if kind in BV_CLASSES:
            if route == "unscaled values":
                # the table carries location + scale*mat: the object must come back with the same unscaled values.  How the
                # reader decomposes them into (mat, location, scale) is left open by the property (no option conveys it)
                sview = bv_unscaled_view(src, obj); gobs = bv_unscaled_view(gobs, got)
                tol = TOL
                note = " (unscaled values)"
                skip = set(skip) | {"location", "scale"}
            else:
                # stored values + location/scale handed to the reader: parameters first; a reader that ignores them also
                # changes mat, which is then the same finding
                dpar = OE.diff(src, gobs, tol=None, skip=set(OE.FAMILY["bvmat"]["data"]) | set(OE.FAMILY["bvmat"]["labels"])
                               | set(OE.FAMILY["bvmat"]["grouplabels"]) | set(OE.TAXA_GRP_IX))
                if dpar:
                    ctx.check(clause, False, rsite, "location and scale handed to the reader are the object's location and scale",
                              "stored values written (unscale=False)", what="%s ignored location/scale (%s route): %s" % (rsite, fmt, dpar),
                              witness=dict(wit, source=src, got=gobs), coords=coords)
                    skip = set(skip) | {"location", "scale", "mat", "behaviour"}
        ctx.sumnote("fields not representable in the tabular format (not demanded)", len(skip))
        if kind in VMAT_CLASSES:
            # long tables identify cells by label: (a) content equal cell by cell, (b) axis order of the source kept
            gobs, moved = align_axes(sview, gobs)
            ctx.check(clause, not moved, rsite, "taxa and trait axes keep the order of the source object", "labels not in sorted order"
                      if "not in sorted order" in meta["dcls"] else "labels in sorted order",
                      what="%s returned the %s axis in a different order than the object written (%s route); cell contents are "
                           "compared after re-alignment" % (rsite, " and ".join(moved), fmt),
                      witness=dict(wit, source=src, got=OE.observe(got)), coords=coords)
            meta = dict(meta, dcls="any")
        # keys of the plain by-name route stay as they are; positional / moved-column routes get their own input class
        how = None
        if byp:
            how = "columns designated by integer position (all or some)"
        elif moved:
            how = "columns of the frame in another order"
        ctx.sumnote("table round trips with options given by position", 1 if byp else 0)
        ctx.sumnote("table round trips with moved columns", 1 if moved else 0)
        ctx.sumnote("table round trips with an optional label column switched off on both sides", 1 if off else 0)
        judge(ctx, clause, rsite, sview, gobs, meta, coords, fmt, tol=tol, skip=skip, extra=wit, note=note,
              icls_override=how)
    finally:
        shutil.rmtree(d, ignore_errors=True)


def case_dict_route(ctx, c, g, spec, src, fmt, d, coords):
    """Genomic models through dict-of-data-frames / dict-of-CSV-files."""
    obj, meta, kind = spec.obj, spec.meta, spec.kind
    cls = type(obj)
    clause = "C16.roundtrip.table"
    keys = ["beta", "u_misc", "u_a"] + (["u_d"] if kind == "DenseAdditiveDominanceLinearGenomicModel" else [])
    skip = set()
    if obj.trait is None:
        skip.add("trait")
    rk = dict(trait_cols="infer", model_name=obj.model_name, hyperparams=_copy.deepcopy(obj.hyperparams))
    if obj.trait is not None and g.random() < 0.4:       # trait columns named explicitly instead of inferred
        rk["trait_cols"] = [str(t_) for t_ in obj.trait]
    ctx.case("roundtrip/%s_dict/%s" % (fmt, kind), OE.digest(src), trivial=meta["trivial"])
    if c % 97 == 0:
        ctx.sample({"case": c, "route": fmt + "_dict", "class": kind, "meta": _meta_json(meta), "object": src})
    try:
        if fmt == "pandas":
            rsite = defsite(cls, "from_pandas_dict")
            dic = guarded(ctx, defsite(cls, "to_pandas_dict"), fmt, coords, lambda: obj.to_pandas_dict(trait_cols="trait"))
            got = guarded(ctx, rsite, fmt, coords, lambda: cls.from_pandas_dict(dic, **rk))
        else:
            rsite = defsite(cls, "from_pandas_dict")
            fn = {k: os.path.join(d, "%s_%s.csv" % (kind, k)) for k in keys}
            guarded(ctx, defsite(cls, "to_csv_dict"), fmt, coords, lambda: obj.to_csv_dict(fn, trait_cols="trait"))
            got = guarded(ctx, defsite(cls, "from_csv_dict"), fmt, coords,
                          lambda: cls.from_csv_dict(fn, float_precision="round_trip", **rk))
    except Raised:
        return
    ctx.sumnote("fields not representable in the tabular format (not demanded)", len(skip))
    judge(ctx, clause, rsite, src, OE.observe(got), meta, coords, fmt, skip=skip)


def _meta_json(meta):
    return {k: v for k, v in meta.items() if isinstance(v, (str, bool, int, float))}


RICHNESS_RANK = {"poor": 0, "mixed": 1, "rich": 2}
CROSS = {  # classes whose HDF5 layouts share dataset names: writing one over the other on the same group
    "bvmat": list(BV_CLASSES), "cmat": list(CMAT_CLASSES), "vmat": list(VMAT_CLASSES),
    "gmat": ["DenseGenotypeMatrix", "DensePhasedGenotypeMatrix"], "gmod": list(GMOD_CLASSES),
}
CROSS_POOL = list(BV_CLASSES)[:1] + list(CMAT_CLASSES)[:1] + list(VMAT_CLASSES)[:2] + ["DenseGenotypeMatrix", "DensePhasedGenotypeMatrix"] \
    + list(GMOD_CLASSES)[:2]


def _plain_read(spec, path, group, reader_cls=None):
    cls = reader_cls or type(spec.obj)
    extra = {"gpmod": spec.meta["gpmod"]} if spec.kind in ("G_E_Phenotyping", "TruePhenotyping") else {}
    return cls.from_hdf5(path, group, **extra)


def case_handle_session(ctx, c):
    """Write histories through ONE caller-owned open h5py.File: several groups written, each read back (some twice),
    overwritten and read again through the same handle.  After every call the handle must still be open and usable; the
    final file contents are judged after the caller closes it.  References are plain file-name round trips, so defects of
    the plain round trip are not counted twice."""
    import h5py
    g = ctx.rng("hs", c)
    coords = [c, "hs"]
    via = pick(g, ["handle", "handle", "file name", "file name", "handle then file name"])
    clause = "C16.lastwrite.handle" if via == "handle" else "C16.lastwrite.locations"
    kind = HDF5_CLASSES[(c // 5) % len(HDF5_CLASSES)]
    d = scratch_dir()
    f = None
    try:
        ng = int(g.integers(2, 4))
        groups = [GROUPS[i] for i in g.choice(len(GROUPS), ng, replace=False)]
        if None not in groups and g.random() < 0.6:         # the base group of the file, in either spelling, at any place
            groups[int(g.integers(ng))] = pick(g, [None, "/"])
        kinds = [kind] + [kind if g.random() < 0.7 else pick(g, HDF5_CLASSES) for _ in range(ng - 1)]
        cur = [build(g, k) for k in kinds]                     # object currently meant to be in each group
        over = [build(g, kinds[i], richness=pick(g, ["poor", "rich"])) for i in range(ng)]   # what overwrites it later
        script = [("w", i) for i in range(ng)] + [("r", 0)] + ([("r", 0)] if g.random() < 0.6 else []) + [("r", i) for i in range(1, ng)]
        script += [("o", 0), ("r", 0), ("r", 1)]
        if g.random() < 0.5:
            script += [("o", 1), ("r", 1), ("r", 1), ("r", 0)]
        if ng > 2:
            script += [("r", 2)]
        refs = {}

        def ref_of(spec):
            if id(spec) not in refs:
                fp = os.path.join(d, "ref%d.h5" % len(refs))
                try:
                    spec.obj.to_hdf5(fp, "ref")
                    refs[id(spec)] = OE.freeze(OE.observe(_plain_read(spec, fp, "ref")))
                except Exception as e:          # plain round trip fails: C16.roundtrip / C16.returns judge that
                    ctx.raised("handle session: plain round trip of an object", e)
                    refs[id(spec)] = None
            return refs[id(spec)]
        ctx.case(("handle session/" if via == "handle" else "multi-location session by %s/" % via) + kind, [OE.digest(OE.observe(s_.obj)) for s_ in cur + over], repr(groups), repr(script), trivial=False)
        if c % 97 == 0:
            ctx.sample({"case": c, "route": "one caller-owned h5py.File", "classes": kinds, "groups": groups, "script": script})
        path = os.path.join(d, "session.h5")
        f = h5py.File(path, pick(g, ["a", "w"])) if via != "file name" else None
        switch = int(g.integers(2, len(script) - 1)) if via == "handle then file name" else len(script)
        wit = {"classes": kinds, "groups": groups, "script": script, "access": via}
        lastw = None                # (site, location index) of the most recent write
        ncalls = 0
        aborted = False
        for step, (op, i) in enumerate(script):
            if op == "o":
                cur[i] = over[i]
            spec = cur[i]
            cls = type(spec.obj)
            site = defsite(cls, "from_hdf5" if op == "r" else "to_hdf5")
            if f is not None and step >= switch:        # the caller closes its handle; the rest of the history goes by file name
                f.close(); f = None
            by_handle = f is not None
            target = f if by_handle else path
            if by_handle:
                when = "first call on the handle" if ncalls == 0 else "after earlier calls on the same handle"
            else:
                when = "by file name, base group involved" if any(x in (None, "/") for x in groups) else "by file name, named groups only"
            # a location that breaks after a write to ANOTHER location is the business of that write
            blame = lastw[0] if (op == "r" and lastw is not None and lastw[1] != i and not by_handle) else site
            w2 = dict(wit, step=step, op=op, group=groups[i], **{"through": "handle" if by_handle else "file name"})
            try:
                if op == "r":
                    extra = {"gpmod": spec.meta["gpmod"]} if spec.kind in ("G_E_Phenotyping", "TruePhenotyping") else {}
                    got = cls.from_hdf5(target, groups[i], **extra)
                else:
                    spec.obj.to_hdf5(target, groups[i])
                    lastw = (site, i)
            except Exception as e:
                ctx.raised(site + (" through a caller-owned handle" if by_handle else " within a multi-location history"), e)
                if ref_of(spec) is None:        # the same call fails on a fresh file too: not this clause's business
                    aborted = True
                    break
                if by_handle:
                    ctx.check(clause, False, site, "call through a caller-owned open h5py.File succeeds (raised %s)" % norm_msg(e), when,
                              what="%s raised through an open handle although the same call works with a file name: %s: %s"
                                   % (site, type(e).__name__, str(e)[:160]), witness=w2, coords=coords)
                else:
                    ctx.check(clause, False, blame, "every location of the file stays readable/writable during a write history over "
                              "several locations (raised %s)" % norm_msg(e), when,
                              what="%s raised at location %r after writes to other locations of the same file: %s: %s"
                                   % (site, groups[i], type(e).__name__, str(e)[:160]), witness=w2, coords=coords)
                aborted = True
                break
            ncalls += 1
            if not by_handle:
                if op == "r":
                    ref = ref_of(spec)
                    if ref is not None:
                        diffs = OE.diff(ref, OE.observe(got))
                        ctx.check(clause, not diffs, blame, "every location reads back the last object written to it", when,
                                  what="%s at %r: %s" % (site, groups[i], diffs),
                                  witness=dict(w2, expected=ref, got=OE.observe(got), differing=diffs), coords=coords)
                continue
            alive = bool(f.id.valid)
            usable = False
            if alive:
                try:
                    f.flush(); list(f.keys()); usable = True
                except Exception:
                    usable = False
            ctx.check(clause, alive and usable, site, "caller-owned h5py.File is still open and usable after the call", "read" if op == "r" else "write",
                      what="%s closed (or invalidated) the h5py.File handed in by the caller" % site, witness=w2, coords=coords)
            if not (alive and usable):
                aborted = True
                break
            if op == "r":
                ref = ref_of(spec)
                if ref is not None:
                    diffs = OE.diff(ref, OE.observe(got))
                    ctx.check(clause, not diffs, site, "object read through the open handle equals the last one written to that group", when,
                              what="%s: %s" % (site, diffs), witness=dict(w2, expected=ref, got=OE.observe(got), differing=diffs), coords=coords)
        if f is not None:
            try:
                f.close()
            except Exception:
                pass
        f = None
        if aborted:
            return
        for i, spec in enumerate(cur):          # final file contents, after the caller closed the handle
            ref = ref_of(spec)
            if ref is None:
                continue
            site = defsite(type(spec.obj), "to_hdf5")
            try:
                got = _plain_read(spec, path, groups[i])
            except Exception as e:
                ctx.check(clause, False, site, "final file contents readable after the caller closes the handle (raised %s)" % norm_msg(e),
                          "after a write session through one handle", witness=dict(wit, group=groups[i]), coords=coords)
                continue
            diffs = OE.diff(ref, OE.observe(got))
            ctx.check(clause, not diffs, site, "each group of the closed file holds the last object written to it through the handle",
                      "after a write session through one handle", what="%s: %s" % (site, diffs),
                      witness=dict(wit, group=groups[i], expected=ref, got=OE.observe(got), differing=diffs), coords=coords)
    finally:
        if f is not None:
            try:
                f.close()
            except Exception:
                pass
        shutil.rmtree(d, ignore_errors=True)


def case_lastwrite(ctx, c):
    """History independence: what is read after a sequence of writes to one location must be what a write of the last
    object alone to a fresh location gives (whether *that* equals the object is C16.roundtrip's business)."""
    if c % 5 and c % 3 == 0:       # a third of the HDF5 histories: multi-step session through one caller-owned handle
        return case_handle_session(ctx, c)
    g = ctx.rng("lw", c)
    coords = [c, "lw"]
    fmt = "hdf5" if c % 5 else "csv"
    d = scratch_dir()
    try:
        if fmt == "csv":
            kind = TABLE_CLASSES[(c // 5) % len(TABLE_CLASSES)]
            kinds = [kind] * int(g.integers(2, 4))
        else:
            kind = HDF5_CLASSES[(c // 5) % len(HDF5_CLASSES)]
            nw = int(g.integers(2, 5))
            if g.random() < 0.2 and kind in CROSS_POOL:
                kinds = [pick(g, CROSS_POOL) for _ in range(nw - 1)] + [kind]
            else:
                kinds = [kind] * nw
        pattern = pick(g, ["richer then poorer", "richer then poorer", "poorer then richer", "mixed history"])
        if pattern == "richer then poorer":
            rich = ["rich"] * (len(kinds) - 1) + ["poor"]
        elif pattern == "poorer then richer":
            rich = ["poor"] * (len(kinds) - 1) + ["rich"]
        else:
            rich = [pick(g, ["rich", "mixed", "poor"]) for _ in kinds]
        specs = [build(g, k, richness=r) for k, r in zip(kinds, rich)]
        hist = pattern if len(set(kinds)) == 1 else "cross-class history"
        last = specs[-1]
        src = OE.freeze(OE.observe(last.obj))
        ctx.case("lastwrite/%s/%s/%s" % (fmt, kind, hist), OE.digest(src), [OE.digest(OE.observe(s.obj)) for s in specs[:-1]],
                 trivial=False)
        if c % 97 == 0:
            ctx.sample({"case": c, "route": "lastwrite/" + fmt, "classes": kinds, "richness": rich, "last object": src})
        cls = type(last.obj)
        if fmt == "hdf5":
            group = pick(g, GROUPS); path = os.path.join(d, "h.h5"); fresh = os.path.join(d, "fresh.h5")
            rsite = defsite(cls, "from_hdf5")
            try:
                last.obj.to_hdf5(fresh, group)
                ref = _plain_read(last, fresh, group)
            except Exception as e:      # the plain round trip itself fails: judged by C16.roundtrip / C16.returns
                ctx.raised("lastwrite: plain round trip of the last object", e)
                return
            robs = OE.observe(ref)
            try:
                for s in specs[:-1]:
                    h5_write_read(ctx, s, path, group, pick(g, ["str", "Path", "h5py.File"]), coords)
                guarded(ctx, defsite(cls, "to_hdf5"), "hdf5", coords, lambda: last.obj.to_hdf5(path, group))
            except Raised:
                return
            earlier = [OE.observe(s.obj) for s in specs[:-1]]
            dropped = [f for cat in OE.CATS for f in OE.FAMILY[src["__family__"]][cat]
                       if not _present(src.get(f)) and any(_present(e.get(f)) for e in earlier)]
            wit = {"group": group, "classes": kinds, "richness": rich, "last": src, "fields present earlier but not in the last object": dropped}
            try:
                got = _plain_read(last, path, group)
            except Exception as e:
                ctx.raised(rsite + " after write history", e)
                if dropped:
                    ctx.check("C16.lastwrite", False, "h5py_File_write_dict",
                              "a field absent (None / missing key) in the last object written is absent after reading", hist,
                              what="stale datasets of an earlier write survive overwrite=True and make %s raise %s: %s"
                                   % (rsite, type(e).__name__, str(e)[:120]), witness=wit, coords=coords)
                else:
                    ctx.check("C16.lastwrite", False, rsite, "readable after a write history (raised %s)" % norm_msg(e), hist,
                              witness=wit, coords=coords)
                return
            gobs = OE.observe(got)
            diffs = OE.diff(robs, gobs)
            def dict_stale(f):   # keys of an earlier dict-valued field that the last object does not have
                lv, gv = robs.get(f), gobs.get(f)
                if not (isinstance(lv, dict) and isinstance(gv, dict)) or not set(gv) > set(lv):
                    return False
                extra_keys = set(gv) - set(lv)
                return all(any(isinstance(e.get(f), dict) and k in e[f] for e in earlier) for k in extra_keys) and \
                    OE.value_diff(lv, {k: gv[k] for k in lv}) is None
            stale = [(f, cat, why) for f, cat, why in diffs if f in dropped or dict_stale(f)]
            other = [(f, cat, why) for f, cat, why in diffs if not (f in dropped or dict_stale(f))]
            ctx.check("C16.lastwrite", not stale, "h5py_File_write_dict",
                      "a field absent (None / missing key) in the last object written is absent after reading", hist,
                      what="stale datasets of an earlier write survive overwrite=True: %s" % stale,
                      witness=dict(wit, got=gobs, stale=stale), coords=coords)
            ctx.check("C16.lastwrite", not other, rsite, "object read after a write history equals the last one written", hist,
                      what="%s: %s" % (rsite, other), witness=dict(wit, got=gobs, differing=other), coords=coords)
        else:
            path = os.path.join(d, "t.csv"); fresh = os.path.join(d, "fresh.csv")
            rsite = defsite(cls, "from_pandas")
            opts = [table_options(g, s) for s in specs]
            wk, rk = opts[-1][0], dict(opts[-1][1])
            if last.kind in CSV_FORWARDS_KW:
                rk["float_precision"] = "round_trip"
            try:
                last.obj.to_csv(fresh, **wk)
                ref = cls.from_csv(fresh, **rk)
            except Exception as e:
                ctx.raised("lastwrite: plain round trip of the last object", e)
                return
            try:
                for s, o in zip(specs, opts):
                    guarded(ctx, defsite(cls, "to_csv"), "csv", coords, lambda: s.obj.to_csv(path, **o[0]))
                got = guarded(ctx, defsite(cls, "from_csv"), "csv", coords, lambda: cls.from_csv(path, **rk))
            except Raised:
                return
            diffs = OE.diff(OE.observe(ref), OE.observe(got))
            ctx.check("C16.lastwrite", not diffs, rsite, "object read after a write history equals the last one written", hist + "/csv",
                      what="%s" % diffs, witness={"last": src, "got": OE.observe(got), "differing": diffs}, coords=coords)
    finally:
        shutil.rmtree(d, ignore_errors=True)


def _present(v):
    if v is None:
        return False
    if isinstance(v, dict):
        return len(v) > 0
    return True


# --------------------------------------------------------------- VCF
BIG_VCF_SIZES = (1025, 1500, 2600, 4100)   # variants: just past / well past importer buffer sizes such as 1024, 2048, 4096


def make_vcf(g, lcls, big=0):
    """``big`` = number of variants of the 'many variants, few samples' class (0: small hostile files)."""
    n = int(g.integers(1, 7)); nchr = int(g.integers(1, 5)); m = int(g.integers(1, 15))
    if big:
        n = int(g.integers(1, 5)); m = int(big)
    if lcls == "non-ASCII labels":
        samples = ["Sé%d" % i if i % 2 else "样本%d" % i for i in range(n)]
    elif lcls == "labels with separators":
        samples = ["S-%d.x" % i if i % 2 else "s_%d:b" % i for i in range(n)]
    else:
        samples = ["S%d" % i for i in range(n)]
    contigs = sorted(int(x) for x in g.choice(numpy.arange(1, 30), nchr, replace=False))
    recs = []
    used = set()
    multi = bool(g.random() < 0.3)
    extra_fmt = bool(g.random() < 0.3)
    if big:     # vectorised draws: generation cost stays negligible next to the import itself
        chs = g.choice(numpy.array(contigs), m); poss = g.choice(2000000, m, replace=False) + 1
        nalts = g.integers(1, 4, m) if multi else numpy.ones(m, dtype=int)
        allc = (g.random((m, n, 2)) * (nalts + 1)[:, None, None]).astype(int)
        miss = g.random(m) < 0.1
        for i in range(m):
            recs.append(dict(chrom=int(chs[i]), pos=int(poss[i]), id=None if miss[i] else "rs%d_%d" % (chs[i], poss[i]), ref="A",
                             alt=",".join(["C", "G", "T"][:int(nalts[i])]), calls=allc[i]))
    for i in range(0 if big else m):
        ch = int(pick(g, contigs))
        pos = int(g.integers(1, 100000))
        while (ch, pos) in used:
            pos = int(g.integers(1, 100000))
        used.add((ch, pos))
        nalt = int(g.integers(1, 4)) if multi else 1
        ident = None if g.random() < 0.25 else "rs%d_%d" % (ch, pos) if g.random() < 0.7 else "m%dé" % i
        calls = g.integers(0, nalt + 1, (n, 2))
        recs.append(dict(chrom=ch, pos=pos, id=ident, ref="A", alt=",".join(["C", "G", "T"][:nalt]), calls=calls))
    order = pick(g, ["sorted", "shuffled", "shuffled"])
    if order == "sorted":
        recs.sort(key=lambda r: (r["chrom"], r["pos"]))
    else:
        recs = [recs[i] for i in g.permutation(len(recs))]
    # record annotations that do not touch the calls: FILTER values, QUAL present/missing, INFO fields, long REF/ALT alleles,
    # 'chr'-prefixed contig names
    annot = bool(g.random() < 0.6)
    chrpfx = "chr" if (annot and not big and g.random() < 0.15) else ""
    filters = ["PASS", ".", "q10", "LowQual", "q10;s50"]
    nm = len(recs)
    fcol = [pick(g, filters) for _ in range(nm)] if annot else [("PASS" if extra_fmt else ".")] * nm
    qcol = [pick(g, [".", "30", "99.5", "0"]) for _ in range(nm)] if annot else ["."] * nm
    longal = annot and g.random() < 0.4
    lines = ["##fileformat=VCFv4.2"] + ["##contig=<ID=%s%d>" % (chrpfx, c) for c in contigs]
    lines.append('##FORMAT=<ID=GT,Number=1,Type=String,Description="Genotype">')
    if annot:
        lines += ['##FILTER=<ID=q10,Description="Quality below 10">', '##FILTER=<ID=s50,Description="Few samples">',
                  '##FILTER=<ID=LowQual,Description="Low quality">', '##INFO=<ID=NS,Number=1,Type=Integer,Description="Samples">',
                  '##INFO=<ID=DB,Number=0,Type=Flag,Description="dbSNP">']
    if extra_fmt or annot:
        lines.append('##INFO=<ID=AF,Number=A,Type=Float,Description="Allele frequency">')
    if extra_fmt:
        lines.append('##FORMAT=<ID=DP,Number=1,Type=Integer,Description="Depth">')
        lines.append('##FORMAT=<ID=GQ,Number=1,Type=Integer,Description="Genotype quality">')
    lines.append("\t".join(["#CHROM", "POS", "ID", "REF", "ALT", "QUAL", "FILTER", "INFO", "FORMAT"] + samples))
    for j, r in enumerate(recs):
        gt = ["%d|%d%s" % (a, b, ":%d:%d" % (int(g.integers(1, 60)), int(g.integers(1, 99))) if extra_fmt else "") for a, b in r["calls"]]
        nalt_ = len(r["alt"].split(","))
        af = "AF=" + ",".join("0.1" for _ in range(nalt_))
        info = (pick(g, [".", af, "NS=%d;%s" % (len(samples), af), "NS=3;DB"]) if annot else (af if extra_fmt else "."))
        ref, alt = r["ref"], r["alt"]
        if longal and j % 2 == 0:
            ref, alt = "ATG", ",".join(["A", "ATGTG", "AT"][:nalt_])
        lines.append("\t".join(["%s%d" % (chrpfx, r["chrom"]), str(r["pos"]), r["id"] or ".", ref, alt, qcol[j], fcol[j], info,
                                "GT:DP:GQ" if extra_fmt else "GT"] + gt))
    nonpass = any(f not in ("PASS", ".") for f in fcol)
    cls = "%s/%s%s%s%s%s" % (order, "multi-allelic" if multi else "bi-allelic", "/missing IDs" if any(r["id"] is None for r in recs) else "",
                           "/extra FORMAT keys" if extra_fmt else "", "/FILTER other than PASS" if nonpass else "",
                           "/chr-prefixed contigs" if chrpfx else "")
    return "\n".join(lines) + "\n", samples, recs, cls


MISSING_ID = (".", "None", "", None)


def case_vcf(ctx, c):
    from pybrops.popgen.gmat.DenseGenotypeMatrix import DenseGenotypeMatrix
    from pybrops.popgen.gmat.DensePhasedGenotypeMatrix import DensePhasedGenotypeMatrix
    g = ctx.rng("vcf", c)
    coords = [c, "vcf"]
    lcls = pick(g, LABEL_CLASSES)
    big = BIG_VCF_SIZES[(c // 167) % len(BIG_VCF_SIZES)] if c % 167 == 3 else 0     # about 6 such files per quick run
    text, samples, recs, vcls = make_vcf(g, lcls, big)
    auto = bool(g.random() < 0.5)
    BIGCLS = "many variants (more than 1024), few samples"
    ctx.case("vcf/" + (BIGCLS if big else vcls.split("/")[0]) + "/" + lcls, text, auto, trivial=len(recs) < 2 and len(samples) < 2)
    if c % 97 == 0 and not big:
        ctx.sample({"case": c, "route": "vcf", "auto_group_vrnt": auto, "text": text})
    d = scratch_dir()
    try:
        path = os.path.join(d, pick(g, ["a.vcf", "donnée.vcf"]))
        with open(path, "w", encoding="utf-8") as f:
            f.write(text)
        for phased, cls, clause in ((True, DensePhasedGenotypeMatrix, "C16.vcf.phased"), (False, DenseGenotypeMatrix, "C16.vcf.unphased")):
            site = defsite(cls, "from_vcf")
            if "chr-prefixed contigs" in vcls:
                # chromosome labels of the library are integers: a reader may strip the prefix or reject the file; only a
                # successful import is judged
                try:
                    gm = cls.from_vcf(path, auto_group_vrnt=auto)
                except Exception as e:
                    ctx.raised(site + " on chr-prefixed contig names", e)
                    continue
            else:
                try:
                    gm = guarded(ctx, site, "vcf", coords, lambda: cls.from_vcf(path, auto_group_vrnt=auto), {"vcf": text[:4000]})
                except Raised:
                    continue
            if big:     # keep replay files small: the case is regenerated from its coordinates
                wit = {"vcf (head)": "\n".join(text.split("\n")[:12]), "variants": len(recs), "samples": samples, "auto_group_vrnt": auto}
            else:
                wit = {"vcf": text, "auto_group_vrnt": auto, "taxa": gm.taxa, "vrnt_chrgrp": gm.vrnt_chrgrp, "vrnt_phypos": gm.vrnt_phypos,
                       "vrnt_name": gm.vrnt_name, "mat": gm.mat}
            ok_t = (isinstance(gm.taxa, numpy.ndarray) and gm.taxa.dtype == object and gm.taxa.tolist() == samples)
            ctx.check(clause, ok_t, site, "sample names reproduced in order", lcls, witness=wit, coords=coords)
            m, n = len(recs), len(samples)
            nimp = gm.mat.shape[-1] if gm.mat.ndim >= 2 else -1
            ctx.check(clause, nimp == m, site, "every record of the file is imported (one variant per record)",
                      "records with FILTER other than PASS or '.'" if "FILTER other than PASS" in vcls else "all records PASS or '.'",
                      what="%s imported %d variants from a file with %d records (all with phased diploid calls)" % (site, nimp, m),
                      witness=wit, coords=coords)
            if nimp != m:
                continue
            shape_ok = (gm.mat.shape == ((2, n, m) if phased else (n, m))) and gm.mat.dtype == numpy.int8
            ctx.check(clause, shape_ok, site, "allele array is int8 of shape (phase, taxa, variant)" if phased else
                      "genotype array is int8 of shape (taxa, variant)", vcls.split("/")[1], witness=wit, coords=coords)
            if not shape_ok:
                continue
            meta_ok = (gm.vrnt_chrgrp is not None and gm.vrnt_phypos is not None and gm.vrnt_name is not None
                       and len(gm.vrnt_chrgrp) == m and len(gm.vrnt_phypos) == m and len(gm.vrnt_name) == m
                       and gm.vrnt_chrgrp.dtype.kind == "i" and gm.vrnt_phypos.dtype.kind == "i")
            ctx.check(clause, meta_ok, site, "variant coordinates and identifiers present, integer typed", "any", witness=wit, coords=coords)
            if not meta_ok:
                continue

            def rec_key(ch, pos, ident, col):
                return (int(ch), int(pos), "<missing>" if ident in MISSING_ID else ident, col)
            exp = []
            for r in recs:
                col = tuple(map(tuple, r["calls"].T.tolist())) if phased else tuple(r["calls"].sum(1).tolist())
                exp.append(rec_key(r["chrom"], r["pos"], r["id"], col))
            got = []
            for j in range(m):
                col = tuple(map(tuple, gm.mat[:, :, j].tolist())) if phased else tuple(gm.mat[:, j].tolist())
                got.append(rec_key(gm.vrnt_chrgrp[j], gm.vrnt_phypos[j], gm.vrnt_name[j], col))
            norm = (lambda seq: sorted(seq, key=repr)) if auto else (lambda seq: list(seq))
            how = "" if auto else " in file order"
            has_missing = any(r["id"] is None for r in recs)
            parts = (
                ("variant coordinates (chromosome, position) reproduced" + how, lambda k: k[:2], vcls.split("/")[0] + " records"),
                ("variant identifiers reproduced, attached to their coordinates" + how, lambda k: k[:3],
                 "some records without ID" if has_missing else "all records have IDs"),
                ("allele calls of every sample reproduced, attached to their record" + how, lambda k: k, vcls.split("/")[1]),
            )
            failed = False
            for rel, proj, pic in parts:
                if failed:
                    ctx.ok(clause)      # implied by the failure already reported for this import
                    continue
                ge, ee = norm([proj(k) for k in got]), norm([proj(k) for k in exp])
                ok = ge == ee
                w = None
                if not ok:
                    bad = [i for i in range(len(ee)) if ge[i] != ee[i]]
                    w = dict(wit, expected=exp, got=got) if not big else dict(
                        wit, **{"records differing": len(bad), "first differing (index, expected, got)": [(i, ee[i], ge[i]) for i in bad[:5]],
                                "last differing index": bad[-1]})
                ctx.check(clause, ok, site, rel, BIGCLS if big else pic, witness=w, coords=coords)
                failed = not ok
            if not phased:
                ctx.check(clause, gm.ploidy == 2, site, "ploidy of a diploid VCF is 2", "any", witness=wit, coords=coords)
    finally:
        shutil.rmtree(d, ignore_errors=True)


# --------------------------------------------------------------- copies
def case_copy(ctx, c):
    g = ctx.rng("cp", c)
    coords = [c, "cp"]
    kind = ZOO[c % len(ZOO)]
    NESTED_PARAMS[0] = True
    try:
        spec = build(g, kind)
    finally:
        NESTED_PARAMS[0] = False
    obj, meta = spec.obj, spec.meta
    src = OE.freeze(OE.observe(obj))
    dg = OE.digest(src)
    ctx.case("copy/" + kind, dg, trivial=meta["trivial"])
    if c % 97 == 0:
        ctx.sample({"case": c, "route": "copy", "class": kind, "meta": _meta_json(meta), "object": src})
    cls = type(obj)
    ways = [("copy.copy", lambda: _copy.copy(obj), "__copy__", False), ("copy.deepcopy", lambda: _copy.deepcopy(obj), "__deepcopy__", True)]
    import pickle
    ways.append(("pickle", lambda: pickle.loads(pickle.dumps(obj)), "__reduce_ex__", True))
    if hasattr(obj, "copy"):
        ways.append((".copy()", lambda: obj.copy(), "__copy__", False))
    if hasattr(obj, "deepcopy"):
        ways.append((".deepcopy()", lambda: obj.deepcopy(), "__deepcopy__", True))
        ways.append((".deepcopy(memo)", lambda: obj.deepcopy({}), "__deepcopy__", True))
    # phase 1: equality of every kind of copy (nothing is mutated)
    for wname, fn, dunder, deep in ways:
        site = defsite(cls, dunder)
        wcls = "deep copy" if deep else "shallow copy"
        if wname == "pickle":           # pickling is a copy mechanism only where the class supports it
            site, wcls = "%s pickle round trip" % cls.__name__, "pickle copy"
            try:
                cp = fn()
            except Exception as e:
                ctx.raised("pickle not supported: " + cls.__name__, e)
                continue
        else:
            try:
                cp = guarded(ctx, site, wname, coords, fn, {"object": src})
            except Raised:
                continue
        ctx.check("C16.copy.equal", cp is not obj, site, "copy is a new object", wcls, coords=coords)
        judge(ctx, "C16.copy.equal", site, src, OE.observe(cp), meta, coords, wname, prefix=wcls)
    # phase 2: no shared mutable state.  (1) no array of a deep copy overlaps memory of the source, (2) scrambling every array and
    # dict of the copy in place and running in-place operations on a copy leave the source's digest unchanged
    fam = src["__family__"]
    for wname, fn, dunder, deep in ways:
        if not deep:
            continue
        site = defsite(cls, dunder) if wname != "pickle" else "%s pickle round trip" % cls.__name__
        try:
            cp = fn()
        except Exception:
            continue     # already reported in phase 1
        cobs = OE.observe(cp)
        sarr = OE.arrays(OE.observe(obj))
        shared = [(pa, pb) for pa, a in sarr for pb, b in OE.arrays(cobs) if a.size and b.size and numpy.shares_memory(a, b)]
        cat = "none"
        if shared:
            top = shared[0][0].split(".")[0]
            cat = OE.category(fam, top) if any(top in OE.FAMILY[fam][c_] for c_ in OE.CATS) else "params"
        ctx.check("C16.copy.isolated", not shared, site, "no array of a deep copy shares memory with the source", "shared: " + cat,
                  what="%s shares %s" % (site, shared[:4]), witness={"shared": shared, "object": src, "way": wname}, coords=coords)
        nmut = 0
        for path, a in OE.arrays(cobs):
            nmut += bool(OE.scramble(a, g))
        # every dict / list of the free-form parameter slots, at every nesting depth, is changed in place
        slots = [cobs.get("hyperparams")]
        if isinstance(cobs.get("gpmod"), dict):
            slots.append(cobs["gpmod"].get("hyperparams"))
        deepest = 0
        for slot in slots:
            for depth, cont in OE.containers(slot):
                if isinstance(cont, dict):
                    cont["mutated@%d" % depth] = depth
                else:
                    cont.append("mutated@%d" % depth)
                nmut += 1; deepest = max(deepest, depth)
        ctx.sumnote("deep copies mutated in a container nested two or more levels deep", 1 if deepest >= 1 else 0)
        sp_s, sp_c = getattr(obj, "spline", None), getattr(cp, "spline", None)
        if isinstance(sp_s, dict) and isinstance(sp_c, dict):
            ctx.check("C16.copy.isolated", sp_s is not sp_c and all(sp_s[k] is not sp_c.get(k) for k in sp_s), site,
                      "spline dictionary and interpolators of a deep copy are distinct objects", "spline built", coords=coords)
            sp_c["__mutated__"] = None
        try:
            cp2 = fn()
        except Exception:
            cp2 = None
        for mname in (("sort", "group", "ungroup") if kind in ("StandardGeneticMap", "ExtendedGeneticMap") else
                      ("sort_taxa", "group_taxa", "sort_vrnt", "group_vrnt", "sort_trait", "ungroup_taxa", "ungroup_vrnt")):
            m = getattr(cp2, mname, None)
            if callable(m):
                try:
                    m(); nmut += 1
                except Exception as e:
                    ctx.raised("in-place %s on a deep copy" % mname, e)
        now = OE.observe(obj)
        changed = OE.diff(src, now)
        if isinstance(sp_s, dict) and "__mutated__" in sp_s:
            changed.append(("spline", "params", "dictionary shared with the copy"))
            sp_s.pop("__mutated__", None)
        ccat = changed[0][1] if changed else "none"
        ctx.check("C16.copy.isolated", not changed, site, "source unchanged after mutating every array/dict of the deep copy in place",
                  "changed: " + ccat, what="%s: source changed after in-place mutation of its deep copy: %s" % (site, changed),
                  witness={"object before": src, "object after": now, "arrays mutated": nmut, "way": wname}, coords=coords)
        if changed:
            break        # the source is no longer the generated object


# =============================================================== driver
_HOOKED = []


def install_hooks(ctx):
    if _HOOKED:
        return
    from pbmon import hooks
    from pybrops.core.util import h5py as H

    def count(a, k, r):
        ctx.hook("h5py_File_write_dict")
    hooks.rebind(H.h5py_File_write_dict, hooks.recording(H.h5py_File_write_dict, "h5py_File_write_dict", count))
    _HOOKED.append(1)


FAMILIES = ("rt", "rt", "lw", "cp", "vcf", "rt")  # 3/6 round trips, 1/6 each write histories, copies, VCF


def one_case(ctx, c, fam=None):
    install_hooks(ctx)
    fam = fam or FAMILIES[c % len(FAMILIES)]
    k = c // len(FAMILIES)
    if fam == "rt":
        k = (c // len(FAMILIES)) * 3 + {0: 0, 1: 1, 5: 2}[c % len(FAMILIES)]
    {"rt": case_roundtrip, "lw": case_lastwrite, "cp": case_copy, "vcf": case_vcf, "hs": case_handle_session}[fam](ctx, k)


def run_shard(ctx):
    try:
        for c in ctx.case_ids(QUICK_TOTAL, THOROUGH_TOTAL):
            one_case(ctx, c)
    finally:
        cleanup_scratch()


def replay(ctx, coords):
    install_hooks(ctx)
    k, fam = int(coords[0]), coords[1]
    try:
        {"rt": case_roundtrip, "lw": case_lastwrite, "cp": case_copy, "vcf": case_vcf, "hs": case_handle_session}[fam](ctx, k)
    finally:
        cleanup_scratch()
