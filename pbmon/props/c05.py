"""C05 - selection objectives mean what they say in every decision encoding."""
import importlib
import inspect
import pkgutil

import numpy

from pbmon import boot  # noqa: F401
from pbmon.gen import pop

PROPERTY = "C05"
NSHARDS = {"quick": 6, "thorough": 16}
CLAUSES = {"C05.definition": 1500, "C05.encodings": 800, "C05.invariance": 800, "C05.evalfn": 800, "C05.evaluate": 300, "C05.factory": 200, "C05.shared": 1500, "C05.inputs": 3000}
RULE = ("every concrete SelectionProblem class found at run time is mapped to a criterion family; families with an independent definition "
        "are instantiated (constructor level: harness data; factory level: generated populations, also taxon-permuted) in all encodings the "
        "family has; one contribution pattern is rendered as subset / integer counts / binary indicator / real weights and evaluated through "
        "latentfn, evalfn (with recording transformation functions and random weights) and the pymoo evaluate interface.  4-14 candidates, "
        "1-3 traits, subset sizes 1..n, all weight signs.  Shared-population cases: 5-12 factory calls (every factory that takes the "
        "population's matrices, all encodings, unscale True/False, the same call repeated) on the SAME live population objects (one or two "
        "populations of equal shape, interleaved; breeding value matrices with non-trivial location/scale built by from_numpy or the "
        "constructor); the observable state of every population object is digested around every call + evaluation and every problem built "
        "earlier is judged again after every later call.  Non-trivial: >= 2 candidates; distinct = digest of (class, data, decision).")
ASSUME = ["definitions (contribution vector c, sum c = 1): breeding-value-like families -c.V; OCS [sqrt(c'Kc), -c.EBV]; MGR sqrt(c'Kc); MEH "
          "-(1-sqrt(c'Kc)) with K = C'C the kinship factor product; family EBV [-c.EBV, -per-family contribution]; L1 sum_m |V c|; L2 ||C c||; "
          "PAFD sum_m w|t-p|; PAU sum_m w*[target allele absent from the selection]; MOGS = [PAU, PAFD]",
          "OHV/OPV/genotype-builder haplotype values are decided by C18, progeny variances and usefulness-criterion matrices by C12; here "
          "their problems are checked at constructor level only (the stored matrix is taken as data)",
          "classes with no definition in the table are listed in the evidence as unmodelled and nothing is claimed for them",
          "'the data of that population' is the state of the population objects as handed to the factory: original-scale breeding values = "
          "stored values * scale + location, standardised genomic values = centred and scaled with the population sd (ddof 0); a factory and "
          "the evaluation of its problem are queries - the population objects must read the same afterwards (C05.inputs), otherwise the "
          "problems built before and after from one object could not all hold 'the data of that population' (C05.shared)"]
TOL = 1e-9


def all_problem_classes():
    import pybrops.breed.prot.sel.prob as PK
    from pybrops.breed.prot.sel.prob.SelectionProblem import SelectionProblem
    out = {}
    for m in pkgutil.iter_modules(PK.__path__):
        try:
            mod = importlib.import_module("pybrops.breed.prot.sel.prob." + m.name)
        except Exception:
            continue
        for n, c in vars(mod).items():
            if inspect.isclass(c) and issubclass(c, SelectionProblem) and c.__module__ == mod.__name__ and not inspect.isabstract(c):
                out[n] = c
    return out


ENCS = ("Subset", "Integer", "Binary", "Real")
LINEAR = {  # family prefix -> constructor keyword holding the (ncandidate, ntrait) matrix
    "EstimatedBreedingValue": "ebv", "GenomicEstimatedBreedingValue": "gebv", "GeneralizedWeightedGenomicEstimatedBreedingValue": "gwgebv",
    "WeightedGenomic": "wgebv", "Random": "rbv", "ExpectedMaximumBreedingValue": "embv", "OptimalHaploidValue": "ohvmat",
    "UsefulnessCriterion": "ucmat",
}
XMAP = {"ExpectedMaximumBreedingValue", "OptimalHaploidValue", "UsefulnessCriterion"}


def family_of(name):
    for enc in ENCS:
        for suf in (enc + "MateSelectionProblem", enc + "SelectionProblem"):
            if name.endswith(suf):
                return name[: -len(suf)], enc
    return None, None


def common(enc, n, k, nobj, space=None, **extra):
    if enc == "Subset":
        # the decision space of a subset problem lists the admissible candidates: all of them in order, or (space=...) a
        # restricted list in any order - the decision vector holds candidate indices either way
        sp = numpy.arange(n) if space is None else numpy.asarray(space)
        d = dict(ndecn=k, decn_space=sp, decn_space_lower=numpy.repeat(int(sp.min()), k), decn_space_upper=numpy.repeat(int(sp.max()), k), nobj=nobj)
    else:
        lo, up = {"Real": (0.0, 1.0), "Integer": (0, 6), "Binary": (0, 1)}[enc]
        d = dict(ndecn=n, decn_space=numpy.stack([numpy.repeat(lo, n), numpy.repeat(up, n)]), decn_space_lower=numpy.repeat(lo, n),
                 decn_space_upper=numpy.repeat(up, n), nobj=nobj)
    d.update(extra)
    return d


class Rec:
    """Recording linear transformation handed to the problem as obj/ineqcv/eqcv transformation."""

    def __init__(self, A, off=0.0, relu=False):
        self.A, self.off, self.relu, self.calls = A, off, relu, []

    def __call__(self, x, latent, **kw):
        self.calls.append((numpy.array(x, copy=True), numpy.array(latent, copy=True), dict(kw)))
        v = self.A @ numpy.asarray(latent, dtype=float) + self.off
        ree = getattr(self, "reenter", None)
        if ree is not None and not getattr(self, "_busy", False):
            # a callback that asks the SAME problem about another candidate (e.g. to express an objective relative to a
            # reference solution) - legitimate re-entrancy; the numbers it gets are not used, only the side effects matter
            self._busy = True
            try:
                ree()
            finally:
                self._busy = False
        return numpy.maximum(v, 0.0) if self.relu else v


# ---------------------------------------------------------------- family data + definitions (constructor level)
def family_data(g, fam, n, t):
    """Returns (constructor kwargs, definition(c) -> latent vector, nlatent)."""
    if fam in LINEAR:
        M = g.normal(size=(n, t)) * g.choice([1.0, 10.0]) + g.choice([0.0, 5.0])
        if g.random() < 0.2:
            M = numpy.round(M)
        kw = {LINEAR[fam]: M}
        if fam in XMAP:
            kw["decn_space_xmap"] = numpy.stack([g.permutation(n)[:2] for _ in range(n)]).astype("int64")
        return kw, (lambda c: -(c @ M)), t
    if fam == "FamilyEstimatedBreedingValue":
        M = g.normal(size=(n, t)); fid = g.integers(0, 3, n).astype("int64"); fams = numpy.unique(fid)
        return dict(ebv=M, familyid=fid), (lambda c: numpy.r_[-(c @ M), -numpy.array([c[fid == f].sum() for f in fams])]), t + len(fams)
    if fam in ("OptimalContribution", "MeanGenomicRelationship", "MeanExpectedHeterozygosity"):
        A = g.normal(size=(n, n + 2)); K = A @ A.T / (n + 2) + 1e-3 * numpy.eye(n)
        C = numpy.linalg.cholesky(K).T
        if fam == "OptimalContribution":
            M = g.normal(size=(n, t))
            return dict(ebv=M, C=C), (lambda c: numpy.r_[numpy.sqrt(c @ K @ c), -(c @ M)]), 1 + t
        if fam == "MeanGenomicRelationship":
            return dict(C=C), (lambda c: numpy.r_[numpy.sqrt(c @ K @ c)]), 1
        return dict(C=C), (lambda c: numpy.r_[-(1.0 - numpy.sqrt(c @ K @ c))]), 1
    if fam == "L1NormGenomic":
        m = int(g.integers(2, 7)); V = g.normal(size=(t, m, n))
        return dict(V=V), (lambda c: numpy.array([numpy.abs(V[i] @ c).sum() for i in range(t)])), t
    if fam == "L2NormGenomic":
        Cs = []
        Ks = []
        for i in range(t):
            A = g.normal(size=(n, n + 2)); K = A @ A.T / (n + 2) + 1e-3 * numpy.eye(n); Ks.append(K); Cs.append(numpy.linalg.cholesky(K).T)
        Ct = numpy.stack(Cs)
        return dict(C=Ct), (lambda c: numpy.array([numpy.sqrt(c @ Ks[i] @ c) for i in range(t)])), t
    if fam in ("PopulationAlleleFrequencyDistance", "PopulationAlleleUnavailability", "MultiObjectiveGenomic"):
        m = int(g.integers(2, 9)); ploidy = 2
        geno = g.integers(0, 3, (n, m)).astype("int8")
        geno[:, g.random(m) < 0.3] = g.choice([0, 2])
        w = g.uniform(0, 1, (m, t)); w[g.random((m, t)) < 0.2] = 0.0
        tf = g.choice([0.0, 1.0, 0.5, 0.25], (m, t))

        def pafd(c_cnt):
            p = (c_cnt @ geno) / (ploidy * c_cnt.sum())
            return (w * numpy.abs(tf - p[:, None])).sum(0)

        def pau(c_cnt):
            p = (c_cnt @ geno) / (ploidy * c_cnt.sum())
            P = p[:, None]
            avail = ((tf <= 0.0) & (P < 1.0)) | ((tf >= 1.0) & (P > 0.0)) | ((tf > 0.0) & (tf < 1.0) & (P > 0.0) & (P < 1.0))
            return (w * ~avail).sum(0)
        kw = dict(geno=geno, ploidy=ploidy, mkrwt=w, tfreq=tf)
        if fam == "PopulationAlleleFrequencyDistance":
            return kw, pafd, t
        if fam == "PopulationAlleleUnavailability":
            return kw, pau, t
        return kw, (lambda c: numpy.r_[pau(c), pafd(c)]), 2 * t
    return None, None, None


def render(enc, cnt, g):
    """One contribution pattern (integer multiplicities ``cnt``) in the given encoding."""
    if enc == "Subset":
        x = numpy.repeat(numpy.arange(len(cnt)), cnt)
        return x
    if enc == "Integer":
        return (cnt * int(g.choice([1, 2, 3]))).astype("int64")
    if enc == "Binary":
        return cnt.astype("int64")
    return cnt * float(g.uniform(0.05, 0.15))


def near(a, b):
    a = numpy.asarray(a, dtype=float); b = numpy.asarray(b, dtype=float)
    if a.shape != b.shape:
        return False, float("inf")
    if a.size == 0:
        return True, 0.0
    scale = max(1.0, float(numpy.max(numpy.abs(b))))
    err = float(numpy.max(numpy.abs(a - b)))
    return err <= TOL * scale + 1e-12, err / scale


def case_constructor(ctx, c, classes, fams):
    g = ctx.rng("ctor", c)
    fam = fams[c % len(fams)]
    encs = [e for e in ENCS if any(family_of(nm) == (fam, e) for nm in classes)]
    n = int(g.integers(2, 15)); t = int(g.integers(1, 4))
    kw, defn, nlat = family_data(g, fam, n, t)
    if kw is None:
        return
    binary_ok = True
    k = int(g.integers(1, n + 1))
    members = g.choice(n, k, replace=False)
    cnt = numpy.bincount(members, minlength=n)           # multiplicities 1 so that all four encodings can express it
    cdef = cnt / cnt.sum()
    # PAFD/PAU/MOGS definitions take counts; the others take contributions (the same thing up to scale)
    expected = numpy.asarray(defn(cdef if fam not in ("PopulationAlleleFrequencyDistance", "PopulationAlleleUnavailability", "MultiObjectiveGenomic") else cnt.astype(float)), dtype=float)
    coords = [c, "ctor"]
    latents = {}
    for enc in encs:
        cname = [nm for nm in classes if family_of(nm) == (fam, enc)][0]
        cls = classes[cname]
        nobj = int(g.integers(1, 4)); nin = int(g.integers(0, 3)); neq = int(g.integers(0, 2))
        default_obj = g.random() < 0.3          # library default objective transformation (identity): nobj must equal the latent length
        if default_obj:
            nobj = nlat; nin = max(nin, 1)
        To = Rec(numpy.eye(nlat) if default_obj else g.normal(size=(nobj, nlat))); Ti = Rec(g.normal(size=(nin, nlat)), off=float(g.normal()), relu=True); Te = Rec(g.normal(size=(neq, nlat)))
        wo = g.choice([-2.0, -1.0, 1.0, 0.5], nobj); wi = g.uniform(0.5, 2.0, nin); we = g.uniform(0.5, 2.0, neq)
        wform = ""
        if g.random() < 0.35:
            # weights given as scalars (documented: a real number is repeated for every objective / constraint), among them
            # exactly zero (a family switched off) and integers; arrays may hold exact zeros too
            wo = [0.0, -1.0, 2.5, 1, 0][int(g.integers(5))]
            wi = [0.0, 2.0, 0, 1.5][int(g.integers(4))]
            we = [0.0, 3.0, 0, 0.5][int(g.integers(4))]
            wform = "/scalar weights (incl. exactly zero)"
        elif g.random() < 0.2:
            wo = wo.copy(); wo[int(g.integers(nobj))] = 0.0; wform = "/weight vector with an exact zero"
        kwo = {"tag": int(g.integers(100))}
        site = cname
        icls = "%s encoding%s%s" % (enc, "/default objective transformation" if default_obj else "", wform)
        space = None
        if enc == "Subset" and g.random() < 0.4:
            others = numpy.setdiff1d(numpy.arange(n), members)
            extra_c = others[g.random(len(others)) < 0.5]
            space = g.permutation(numpy.r_[members, extra_c]).astype("int64")
            icls += "/restricted candidate list in arbitrary order"
        ctx.case("%s" % cname, cname, sorted((a, numpy.asarray(b).tobytes()) for a, b in kw.items() if isinstance(b, numpy.ndarray)), members)
        try:
            prob = cls(**kw, **common(enc, n, k, nobj, space=space, obj_wt=wo, obj_trans=(None if default_obj else To), obj_trans_kwargs=(None if default_obj else kwo), nineqcv=nin, ineqcv_wt=wi, ineqcv_trans=Ti,
                                      neqcv=neq, eqcv_wt=we, eqcv_trans=Te))
        except Exception as e:
            ctx.raised(cname + " constructor", e); continue
        x = render(enc, cnt, g)
        if not default_obj and g.random() < 0.25:
            other = g.choice(n, k, replace=False); xo_ = render(enc, numpy.bincount(other, minlength=n), g)
            To.reenter = (lambda p_=prob, xx=xo_: (p_.evalfn(xx), p_.latentfn(xx)))
            icls += "/objective transformation re-enters the problem for another candidate"
        w = {"class": cname, "x": x, "data": {a: b for a, b in kw.items()}, "expected_latent": expected}
        try:
            lat = numpy.asarray(prob.latentfn(x), dtype=float)
        except Exception as e:
            ctx.raised(cname + ".latentfn", e); continue
        ok, err = near(lat, expected)
        ctx.maxnote("latent relative error", err if ok else 0.0)
        ctx.check("C05.definition", ok, site + ".latentfn", "latent vector == criterion definition", icls, witness=dict(w, got=lat), coords=coords)
        latents[enc] = lat
        # ---- invariance
        try:
            if enc == "Subset":
                lat2 = numpy.asarray(prob.latentfn(x[g.permutation(len(x))]), dtype=float); rel = "invariant to the order in which the subset is listed"
            elif enc == "Real":
                lat2 = numpy.asarray(prob.latentfn(x * float(g.choice([0.5, 3.0, 7.25]))), dtype=float); rel = "invariant to positive rescaling of the contribution vector"
            elif enc == "Integer":
                lat2 = numpy.asarray(prob.latentfn(x * 2), dtype=float); rel = "invariant to positive rescaling of the contribution vector"
            else:
                lat2 = None
            if lat2 is not None:
                ctx.check("C05.invariance", near(lat2, lat)[0], site + ".latentfn", rel, icls, witness=dict(w, got=[lat, lat2]), coords=coords)
        except Exception as e:
            ctx.raised(cname + ".latentfn (transformed decision)", e)
        # ---- evalfn: declared weights x declared transformations of the latent vector
        for T in (To, Ti, Te):
            T.calls.clear()
        try:
            o, gi, hi = prob.evalfn(x)
        except Exception as e:
            ctx.raised(cname + ".evalfn", e); continue
        eo = wo * (To.A @ expected); ei = wi * numpy.maximum(Ti.A @ expected + Ti.off, 0.0); ee = we * (Te.A @ expected)
        good = near(o, eo)[0] and near(gi, ei)[0] and near(hi, ee)[0]
        reent = getattr(To, "reenter", None) is not None
        fed = all((len(T.calls) == 1 or reent) and len(T.calls) >= 1 and any(numpy.array_equal(cl[0], x) and near(cl[1], expected)[0] for cl in T.calls)
                  for T in ((Ti, Te) if default_obj else (To, Ti, Te)))
        kwok = default_obj or ((len(To.calls) == 1 or reent) and To.calls[0][2] == kwo)
        ctx.check("C05.evalfn", good and fed and kwok, site + ".evalfn", "objectives/violations == weights x transformations(decision, latent)", icls,
                  witness=dict(w, got=[o, gi, hi], expected=[eo, ei, ee], transformations_fed_correctly=fed, kwargs_passed=kwok), coords=coords)
        # ---- pymoo interface row-wise equals evalfn
        try:
            X = numpy.stack([x, x])
            out = {}
            prob._evaluate(X, out)
            Fok = near(out["F"], numpy.stack([eo, eo]))[0]
            Gok = ("G" not in out and nin == 0) or ("G" in out and near(out["G"], numpy.stack([ei, ei]))[0])
            Hok = ("H" not in out and neq == 0) or ("H" in out and near(out["H"], numpy.stack([ee, ee]))[0])
            ctx.check("C05.evaluate", Fok and Gok and Hok, site + "._evaluate", "row-wise equal to evalfn", icls, witness=dict(w, out={a: b for a, b in out.items()}), coords=coords)
        except Exception as e:
            ctx.raised(cname + "._evaluate", e)
    # ---- unequal multiplicities (only integer counts and real weights can express them)
    cnt2 = g.integers(0, 4, n); cnt2[int(g.integers(n))] += 1
    if n > 1 and cnt2.max() == cnt2[cnt2 > 0].min():
        cnt2[int(numpy.argmax(cnt2))] += 1
    arg2 = cnt2 / cnt2.sum() if fam not in ("PopulationAlleleFrequencyDistance", "PopulationAlleleUnavailability", "MultiObjectiveGenomic") else cnt2.astype(float)
    try:
        exp2 = numpy.asarray(defn(arg2), dtype=float)
    except Exception:
        exp2 = None
    lat2s = {}
    for enc in encs:
        if enc not in ("Integer", "Real") or exp2 is None:
            continue          # a subset lists DISTINCT members (C06): repeated members are outside its declared decision space
        cname = [nm for nm in classes if family_of(nm) == (fam, enc)][0]
        try:
            prob = classes[cname](**kw, **common(enc, n, k, nlat))
            x2 = cnt2.astype("int64") if enc == "Integer" else cnt2 * 0.11
            lat2s[enc] = numpy.asarray(prob.latentfn(x2), dtype=float)
        except Exception as e:
            ctx.raised(cname + " (unequal multiplicities)", e); continue
        ctx.check("C05.definition", near(lat2s[enc], exp2)[0], cname + ".latentfn", "latent vector == criterion definition", "%s encoding/unequal multiplicities" % enc,
                  witness={"class": cname, "x": x2, "data": {a: b for a, b in kw.items()}, "expected_latent": exp2, "got": lat2s[enc]}, coords=coords)
    if "Integer" in lat2s and "Real" in lat2s:
        ctx.check("C05.encodings", near(lat2s["Integer"], lat2s["Real"])[0], fam + "*SelectionProblem.latentfn", "identical values in every encoding of the same contributions",
                  "Integer vs Real/unequal multiplicities", witness={"family": fam, "counts": cnt2, "values": lat2s}, coords=coords)
    # ---- keyword-argument dicts left to their defaults belong to ONE transformation of ONE problem
    if encs:
        cname = [nm for nm in classes if family_of(nm) == (fam, encs[0])][0]
        try:
            p1 = classes[cname](**kw, **common(encs[0], n, k, nlat))
            p2 = classes[cname](**kw, **common(encs[0], n, k, nlat))
            d1 = p1.obj_trans_kwargs
            if isinstance(d1, dict):
                d1["leak"] = 1
                others = [p1.ineqcv_trans_kwargs, p1.eqcv_trans_kwargs, p2.obj_trans_kwargs, p2.ineqcv_trans_kwargs, p2.eqcv_trans_kwargs,
                          classes[cname](**kw, **common(encs[0], n, k, nlat)).obj_trans_kwargs]
                ctx.check("C05.evalfn", not any(isinstance(o_, dict) and "leak" in o_ for o_ in others), cname + " keyword-argument defaults",
                          "an in-place change of one transformation's default keyword arguments stays with that transformation of that problem", "%s encoding" % encs[0],
                          witness={"class": cname}, coords=coords)
                d1.pop("leak", None)
        except Exception as e:
            ctx.raised(cname + " (default kwargs)", e)
    if len(latents) > 1:
        ks = list(latents)
        for a in ks[1:]:
            ctx.check("C05.encodings", near(latents[a], latents[ks[0]])[0], fam + "*SelectionProblem.latentfn", "identical values in every encoding of the same contributions",
                      "%s vs %s" % (ks[0], a), witness={"family": fam, "members": members, "values": {e: v for e, v in latents.items()}}, coords=coords)


# ---------------------------------------------------------------- factory level
def case_factory(ctx, c, classes):
    from pybrops.popgen.bvmat.DenseBreedingValueMatrix import DenseBreedingValueMatrix
    from pybrops.model.gmod.DenseAdditiveLinearGenomicModel import DenseAdditiveLinearGenomicModel
    from pybrops.popgen.cmat.fcty.DenseMolecularCoancestryMatrixFactory import DenseMolecularCoancestryMatrixFactory
    from pybrops.popgen.gmat.DenseGenotypeMatrix import DenseGenotypeMatrix
    g = ctx.rng("fcty", c)
    n = int(g.integers(4, 12)); m = int(g.integers(6, 25)); t = int(g.integers(1, 4))
    pg = pop.make_pgmat(g, n, m, 2, codes="01", xomode="random")
    perm = g.permutation(n)
    pg.reorder_taxa(perm)                                   # population deliberately not in generation/sorted order
    if pg.is_grouped_taxa():
        pg.ungroup_taxa()
    Z = pg.mat.sum(0).astype(float)
    raw = g.normal(size=(n, t)) * 2 + 5
    tr = numpy.array(["y%d" % i for i in range(t)], dtype=object)
    bv = DenseBreedingValueMatrix.from_numpy(raw, taxa=pg.taxa, taxa_grp=pg.taxa_grp, trait=tr)
    u = g.normal(size=(m, t)); u[int(g.integers(m))] = 0.0
    if t > 1:      # sparse architecture: a marker that is neutral for one trait only (exact zero cell, not a zero row)
        for _ in range(int(g.integers(1, 4))):
            u[int(g.integers(m)), int(g.integers(t))] = 0.0
    beta = g.normal(size=(1, t))
    mod = DenseAdditiveLinearGenomicModel(beta=beta, u_misc=None, u_a=u, trait=tr)
    un = DenseGenotypeMatrix(pg.mat.sum(0).astype("int8"), taxa=pg.taxa, taxa_grp=pg.taxa_grp, vrnt_chrgrp=pg.vrnt_chrgrp, vrnt_phypos=pg.vrnt_phypos, ploidy=2)
    K = 0.5 * (1.0 + ((Z - 1) @ (Z - 1).T) / m)            # molecular kinship from raw dosages (2x average IBS /2)
    fam_ids = numpy.asarray(pg.taxa_grp); fams = numpy.unique(fam_ids)
    ac = Z.sum(0)[:, None]; mx = 2 * n
    fc = numpy.where(u > 0, ac, mx - ac).astype(float); fc[u == 0] = 0
    faf = fc / mx

    def wt(alpha):
        return u * numpy.power(numpy.where(faf > 0, faf, 1.0), -alpha)
    alpha = float(g.choice([0.0, 0.3, 0.5, 1.0]))
    SP = [None]      # candidate list handed to the subset problems (None = all taxa in order)
    EX = [{}]        # declared transformations / weights handed through the factory
    MW = numpy.abs(u); TA = Z / 2.0; TF = (u > 0).astype(float)      # sparse absolute effects: zero weights not shared by all traits
    from pbmon.oracle import relmat
    from pybrops.popgen.cmat.fcty.DenseGeneralizedWeightedCoancestryMatrixFactory import DenseGeneralizedWeightedCoancestryMatrixFactory as GWF
    _g2 = ctx.rng("fcty-l2", c)
    MW2 = numpy.abs(u) + 0.05; AF2 = _g2.uniform(0.05, 0.95, (m, t))     # trait-specific marker weights and target frequencies
    table = {
        "EstimatedBreedingValue": (lambda cl, enc, k: cl.from_bvmat(bvmat=bv, unscale=True, **common(enc, n, k, t, space=SP[0], **EX[0])), lambda cc: -(cc @ raw), "from_bvmat"),
        "GenomicEstimatedBreedingValue": (lambda cl, enc, k: cl.from_gmat_gpmod(gmat=pg, gpmod=mod, unscale=True, **common(enc, n, k, t, space=SP[0], **EX[0])), lambda cc: -(cc @ (Z @ u + beta[0])), "from_gmat_gpmod"),
        "GeneralizedWeightedGenomicEstimatedBreedingValue": (lambda cl, enc, k: cl.from_gmat_algpmod(gmat=un, algpmod=mod, alpha=alpha, **common(enc, n, k, t, space=SP[0], **EX[0])), lambda cc: -(cc @ (Z @ wt(alpha))), "from_gmat_algpmod"),
        "WeightedGenomic": (lambda cl, enc, k: cl.from_gmat_algpmod(gmat=un, algpmod=mod, **common(enc, n, k, t, space=SP[0], **EX[0])), lambda cc: -(cc @ (Z @ wt(0.5))), "from_gmat_algpmod"),
        "OptimalContribution": (lambda cl, enc, k: cl.from_bvmat_gmat(bvmat=bv, gmat=pg, cmatfcty=DenseMolecularCoancestryMatrixFactory(), unscale=True, **common(enc, n, k, 1 + t, space=SP[0], **EX[0])),
                                lambda cc: numpy.r_[numpy.sqrt(cc @ K @ cc), -(cc @ raw)], "from_bvmat_gmat"),
        "MeanExpectedHeterozygosity": (lambda cl, enc, k: cl.from_gmat(gmat=pg, cmatfcty=DenseMolecularCoancestryMatrixFactory(), **common(enc, n, k, 1, space=SP[0], **EX[0])),
                                       lambda cc: numpy.r_[-(1 - numpy.sqrt(cc @ K @ cc))], "from_gmat"),
        "MeanGenomicRelationship": (lambda cl, enc, k: cl.from_gmat(gmat=pg, cmatfcty=DenseMolecularCoancestryMatrixFactory(), **common(enc, n, k, 1, space=SP[0], **EX[0])),
                                    lambda cc: numpy.r_[numpy.sqrt(cc @ K @ cc)], "from_gmat"),
        "L1NormGenomic": (lambda cl, enc, k: cl.from_numpy(mkrwt=MW, tafreq=TA, tfreq=TF, **common(enc, n, k, t, space=SP[0], **EX[0])),
                          lambda cc: numpy.array([numpy.abs(MW[:, i] * (cc @ TA - TF[:, i])).sum() for i in range(t)]), "from_numpy"),
        "L2NormGenomic": (lambda cl, enc, k: cl.from_gmat(gmat=un, cmatfcty=GWF(), mkrwt=MW2, afreq=AF2, **common(enc, n, k, t, space=SP[0], **EX[0])),
                          lambda cc: numpy.array([numpy.sqrt(cc @ (0.5 * relmat.gweighted(Z, 2, AF2[:, i], MW2[:, i])[0]) @ cc) for i in range(t)]), "from_gmat"),
        "FamilyEstimatedBreedingValue": (lambda cl, enc, k: cl.from_bvmat(bvmat=bv, **common(enc, n, k, t + len(fams), space=SP[0], **EX[0])),
                                         lambda cc: numpy.r_[-(cc @ bv.mat), -numpy.array([cc[fam_ids == f].sum() for f in fams])], "from_bvmat"),
    }
    fam = list(table)[c % len(table)]
    build, defn, fname = table[fam]
    k = int(g.integers(1, n + 1))
    members = g.choice(n, k, replace=False); cnt = numpy.bincount(members, minlength=n); cc = cnt / cnt.sum()
    try:
        expected = numpy.asarray(defn(cc), dtype=float)
    except Exception:
        return
    tolK = fam in ("OptimalContribution", "MeanExpectedHeterozygosity", "MeanGenomicRelationship", "L2NormGenomic")   # documented jitter on the kinship diagonal (<= 1e-6)
    for enc in ENCS:
        cname = fam + enc + "SelectionProblem"
        if cname not in classes:
            continue
        ctx.case("factory:%s.%s" % (cname, fname), cname, pg.mat, raw, u, members)
        SP[0] = None; ecls = "%s encoding" % enc
        if enc == "Subset" and g.random() < 0.4:
            others = numpy.setdiff1d(numpy.arange(n), members)
            SP[0] = g.permutation(numpy.r_[members, others[g.random(len(others)) < 0.5]]).astype("int64")
            ecls += "/restricted candidate list in arbitrary order"
        # half of the problems declare their own transformations, weights and (pairwise different) keyword arguments at the factory
        nlat = len(expected); declared = g.random() < 0.5
        if declared:
            nob = {"OptimalContribution": 1 + t, "MeanExpectedHeterozygosity": 1, "MeanGenomicRelationship": 1, "FamilyEstimatedBreedingValue": t + len(fams)}.get(fam, t)
            To = Rec(g.normal(size=(nob, nlat))); Ti = Rec(g.normal(size=(1, nlat)), off=float(g.normal()), relu=True); Te = Rec(g.normal(size=(1, nlat)))
            wo = g.choice([-2.0, -1.0, 1.0, 0.5], nob); wi = g.uniform(0.5, 2.0, 1); we = g.uniform(0.5, 2.0, 1)
            kws = [{"tag": "obj", "a": int(g.integers(100))}, {"tag": "ineq", "b": int(g.integers(100))}, {"tag": "eq", "c": int(g.integers(100))}]
            EX[0] = dict(obj_wt=wo, obj_trans=To, obj_trans_kwargs=kws[0], nineqcv=1, ineqcv_wt=wi, ineqcv_trans=Ti, ineqcv_trans_kwargs=kws[1],
                         neqcv=1, eqcv_wt=we, eqcv_trans=Te, eqcv_trans_kwargs=kws[2])
        else:
            EX[0] = {}
        try:
            prob = build(classes[cname], enc, k)
            xdec = render(enc, cnt, g)
            lat = numpy.asarray(prob.latentfn(xdec), dtype=float)
        except Exception as e:
            ctx.raised("%s.%s" % (cname, fname), e); continue
        if declared:
            try:
                o_, gi_, hi_ = prob.evalfn(xdec)
                eo = wo * (To.A @ expected); ei = wi * numpy.maximum(Ti.A @ expected + Ti.off, 0.0); ee = we * (Te.A @ expected)
                if tolK:     # documented jitter on the kinship diagonal: values to 1e-4, keyword arguments exactly
                    def near_(a_, b_):
                        a_ = numpy.asarray(a_, dtype=float); b_ = numpy.asarray(b_, dtype=float)
                        return (a_.shape == b_.shape and bool(numpy.all(numpy.abs(a_ - b_) <= 1e-4 * (1 + numpy.abs(b_)))),)
                else:
                    near_ = near
                good = near_(o_, eo)[0] and near_(gi_, ei)[0] and near_(hi_, ee)[0]
                kwok = all(len(T.calls) >= 1 and T.calls[-1][2] == kw_ for T, kw_ in zip((To, Ti, Te), kws))
                ctx.check("C05.evalfn", good and kwok, "%s.%s" % (cname, fname), "objectives/violations == weights x transformations(decision, latent) as declared at the factory",
                          "%s encoding" % enc, witness={"class": cname, "x": xdec, "got": [o_, gi_, hi_], "expected": [eo, ei, ee],
                                                        "kwargs_received": [T.calls[-1][2] if T.calls else None for T in (To, Ti, Te)], "kwargs_declared": kws}, coords=[c, "fcty"])
            except Exception as e:
                ctx.raised("%s.%s evalfn" % (cname, fname), e)
        if lat.shape != expected.shape:
            ok = False
        elif tolK:
            ok = bool(numpy.all(numpy.abs(lat - expected) <= 1e-5 * (1 + numpy.abs(expected))))
        else:
            ok = near(lat, expected)[0]
        ctx.check("C05.factory", ok, "%s.%s" % (cname, fname), "problem holds the population's data in the population's taxon order", ecls,
                  witness={"class": cname, "members": members, "got": lat, "expected": expected, "taxa": pg.taxa}, coords=[c, "fcty"])


# ---------------------------------------------------------------- several problems from the SAME live population objects
BV_ATTRS = ("mat", "location", "scale", "taxa", "taxa_grp", "trait", "taxa_grp_name", "taxa_grp_stix", "taxa_grp_spix", "taxa_grp_len")
GM_ATTRS = ("mat", "ploidy", "taxa", "taxa_grp", "taxa_grp_name", "taxa_grp_stix", "taxa_grp_spix", "taxa_grp_len", "vrnt_chrgrp", "vrnt_phypos",
            "vrnt_genpos", "vrnt_xoprob", "vrnt_name", "vrnt_hapgrp", "vrnt_hapalt", "vrnt_hapref", "vrnt_mask", "vrnt_chrgrp_name",
            "vrnt_chrgrp_stix", "vrnt_chrgrp_spix", "vrnt_chrgrp_len")
MOD_ATTRS = ("beta", "u", "u_a", "u_misc", "trait", "model_name", "ntrait")


def _freeze(v):
    if isinstance(v, numpy.ndarray):
        return (str(v.dtype), v.shape, repr(v.tolist()) if v.dtype == object else v.tobytes())
    if isinstance(v, (list, tuple)):
        return tuple(_freeze(a) for a in v)
    if isinstance(v, dict):
        return tuple(sorted((repr(a), _freeze(b)) for a, b in v.items()))
    return repr(v)


def _state(obj, names):
    """Observable state of a population object: every public data attribute that can be read, frozen by value."""
    out = {}
    for a in names:
        try:
            out[a] = _freeze(getattr(obj, a))
        except Exception as e:
            out[a] = "unreadable:" + type(e).__name__
    return out


class _Pop:
    pass


def shared_population(g, n, m, t):
    """One live population: phased + unphased genotypes, a breeding value matrix with a non-trivial location/scale, a model.
    The harness keeps its OWN copies of everything (the truth); the library only ever sees the live objects."""
    from pybrops.popgen.bvmat.DenseBreedingValueMatrix import DenseBreedingValueMatrix
    from pybrops.model.gmod.DenseAdditiveLinearGenomicModel import DenseAdditiveLinearGenomicModel
    from pybrops.popgen.gmat.DenseGenotypeMatrix import DenseGenotypeMatrix
    P = _Pop(); P.n, P.m, P.t = n, m, t
    pg = pop.make_pgmat(g, n, m, 2, codes="01", xomode="random")
    pg.reorder_taxa(g.permutation(n))
    if pg.is_grouped_taxa():
        pg.ungroup_taxa()
    P.grouped = bool(g.random() < 0.4)
    if P.grouped:
        pg.group_taxa()             # a population kept sorted by family with group metadata: a factory must not regroup / ungroup it either
    P.pg = pg
    P.Z = pg.mat.sum(0).astype(float)
    tr = numpy.array(["y%d" % i for i in range(t)], dtype=object)
    loc = g.choice([0.0, 5.0, 180.0, -3000.0], t) + g.normal(size=t); sc = g.choice([1.0, 0.01, 12.0, 1000.0], t) * g.uniform(0.5, 1.5, t)
    form = ["from_numpy", "constructor", "constructor with location 0 and scale 1"][int(g.integers(3))]
    if form == "from_numpy":
        P.bv = DenseBreedingValueMatrix.from_numpy(g.normal(size=(n, t)) * sc + loc, taxa=pg.taxa, taxa_grp=pg.taxa_grp, trait=tr)
    elif form == "constructor":
        P.bv = DenseBreedingValueMatrix(g.normal(size=(n, t)), location=loc, scale=sc, taxa=pg.taxa, taxa_grp=pg.taxa_grp, trait=tr)
    else:
        P.bv = DenseBreedingValueMatrix(g.normal(size=(n, t)) * sc + loc, location=0.0, scale=1.0, taxa=pg.taxa, taxa_grp=pg.taxa_grp, trait=tr)
    P.bvform = form + (", grouped taxa" if P.grouped else "")
    if P.grouped:
        P.bv.group_taxa()
        if not numpy.array_equal(P.bv.taxa, pg.taxa):
            raise RuntimeError("harness: grouping changed the taxon order of the breeding value matrix")
    # the population's breeding values as handed over: stored values and original scale = stored * scale + location
    P.Vs = numpy.array(P.bv.mat, dtype=float, copy=True)
    P.Vr = P.Vs * numpy.array(P.bv.scale, dtype=float) + numpy.array(P.bv.location, dtype=float)
    u = g.normal(size=(m, t)); u[int(g.integers(m))] = 0.0
    if t > 1:
        u[int(g.integers(m)), int(g.integers(t))] = 0.0
    P.u = u.copy(); P.beta = g.normal(size=(1, t))
    P.mod = DenseAdditiveLinearGenomicModel(beta=P.beta.copy(), u_misc=None, u_a=u, trait=tr)
    P.un = DenseGenotypeMatrix(pg.mat.sum(0).astype("int8"), taxa=pg.taxa, taxa_grp=pg.taxa_grp, vrnt_chrgrp=pg.vrnt_chrgrp, vrnt_phypos=pg.vrnt_phypos, ploidy=2)
    if P.grouped:
        P.un.group_taxa()
        if not numpy.array_equal(P.un.taxa, pg.taxa):
            raise RuntimeError("harness: grouping changed the taxon order of the genotype matrix")
    P.fam_ids = numpy.array(pg.taxa_grp, copy=True); P.fams = numpy.unique(P.fam_ids)
    P.K = 0.5 * (1.0 + ((P.Z - 1) @ (P.Z - 1).T) / m)
    P.G = P.Z @ P.u + P.beta[0]                                   # genomic breeding values, original scale
    sd = P.G.std(0)
    P.Gs = (P.G - P.G.mean(0)) / sd if bool(numpy.all(sd > 1e-9)) else None      # centred and scaled (population sd, ddof 0)
    ac = P.Z.sum(0)[:, None]
    fc = numpy.where(P.u > 0, ac, 2 * n - ac).astype(float); fc[P.u == 0] = 0
    P.faf = fc / (2 * n)
    P.alpha = float(g.choice([0.0, 0.3, 0.5, 1.0]))
    P.MW2 = numpy.abs(P.u) + 0.05; P.AF2 = g.uniform(0.05, 0.95, (m, t))
    P.W = g.uniform(0, 1, (m, t)); P.W[g.random((m, t)) < 0.2] = 0.0
    P.TFQ = g.choice([0.0, 1.0, 0.5, 0.25], (m, t))
    P.W0, P.TFQ0 = P.W.copy(), P.TFQ.copy()
    P.objects = [("breeding value matrix", P.bv, BV_ATTRS), ("phased genotype matrix", P.pg, GM_ATTRS), ("genotype matrix", P.un, GM_ATTRS),
                 ("genomic model", P.mod, MOD_ATTRS)]
    return P


def shared_routes(P):
    """Every factory that takes the population's matrices: (family, factory, takes unscale, encodings, build, definition, kinship jitter,
    (data attribute, truth) or None).  Definitions use the harness's own copies only."""
    from pybrops.popgen.cmat.fcty.DenseMolecularCoancestryMatrixFactory import DenseMolecularCoancestryMatrixFactory as MCF
    from pybrops.popgen.cmat.fcty.DenseGeneralizedWeightedCoancestryMatrixFactory import DenseGeneralizedWeightedCoancestryMatrixFactory as GWF
    from pbmon.oracle import relmat
    n, t = P.n, P.t
    nf = len(P.fams)

    def V(U):
        return P.Vr if U else P.Vs

    def Gv(U):
        return P.G if U else P.Gs

    def wt(alpha):
        return P.u * numpy.power(numpy.where(P.faf > 0, P.faf, 1.0), -alpha)

    def freq(cnt):
        return (cnt @ P.Z) / (2 * cnt.sum())

    def pafd(cnt):
        return (P.W0 * numpy.abs(P.TFQ0 - freq(cnt)[:, None])).sum(0)

    def pau(cnt):
        p = freq(cnt)[:, None]; tf = P.TFQ0
        avail = ((tf <= 0.0) & (p < 1.0)) | ((tf >= 1.0) & (p > 0.0)) | ((tf > 0.0) & (tf < 1.0) & (p > 0.0) & (p < 1.0))
        return (P.W0 * ~avail).sum(0)
    R = [
        ("EstimatedBreedingValue", "from_bvmat", True, ENCS, lambda cl, e, k, U: cl.from_bvmat(bvmat=P.bv, unscale=U, **common(e, n, k, t)),
         lambda cnt, cc, U: -(cc @ V(U)), False, lambda U: ("ebv", V(U))),
        ("GenomicEstimatedBreedingValue", "from_bvmat", True, ENCS, lambda cl, e, k, U: cl.from_bvmat(bvmat=P.bv, unscale=U, **common(e, n, k, t)),
         lambda cnt, cc, U: -(cc @ V(U)), False, lambda U: ("gebv", V(U))),
        ("GenomicEstimatedBreedingValue", "from_gmat_gpmod", True, ENCS, lambda cl, e, k, U: cl.from_gmat_gpmod(gmat=P.pg, gpmod=P.mod, unscale=U, **common(e, n, k, t)),
         lambda cnt, cc, U: -(cc @ Gv(U)), False, lambda U: ("gebv", Gv(U))),
        ("OptimalContribution", "from_bvmat_gmat", True, ENCS, lambda cl, e, k, U: cl.from_bvmat_gmat(bvmat=P.bv, gmat=P.pg, cmatfcty=MCF(), unscale=U, **common(e, n, k, 1 + t)),
         lambda cnt, cc, U: numpy.r_[numpy.sqrt(cc @ P.K @ cc), -(cc @ V(U))], True, lambda U: ("ebv", V(U))),
        ("FamilyEstimatedBreedingValue", "from_bvmat", False, ENCS, lambda cl, e, k, U: cl.from_bvmat(bvmat=P.bv, **common(e, n, k, t + nf)),
         lambda cnt, cc, U: numpy.r_[-(cc @ P.Vs), -numpy.array([cc[P.fam_ids == f].sum() for f in P.fams])], False, lambda U: ("ebv", P.Vs)),
        ("MeanExpectedHeterozygosity", "from_gmat", False, ENCS, lambda cl, e, k, U: cl.from_gmat(gmat=P.pg, cmatfcty=MCF(), **common(e, n, k, 1)),
         lambda cnt, cc, U: numpy.r_[-(1 - numpy.sqrt(cc @ P.K @ cc))], True, None),
        ("MeanGenomicRelationship", "from_gmat", False, ENCS, lambda cl, e, k, U: cl.from_gmat(gmat=P.pg, cmatfcty=MCF(), **common(e, n, k, 1)),
         lambda cnt, cc, U: numpy.r_[numpy.sqrt(cc @ P.K @ cc)], True, None),
        ("GeneralizedWeightedGenomicEstimatedBreedingValue", "from_gmat_algpmod", False, ENCS,
         lambda cl, e, k, U: cl.from_gmat_algpmod(gmat=P.un, algpmod=P.mod, alpha=P.alpha, **common(e, n, k, t)), lambda cnt, cc, U: -(cc @ (P.Z @ wt(P.alpha))), False, None),
        ("WeightedGenomic", "from_gmat_algpmod", False, ENCS, lambda cl, e, k, U: cl.from_gmat_algpmod(gmat=P.un, algpmod=P.mod, **common(e, n, k, t)),
         lambda cnt, cc, U: -(cc @ (P.Z @ wt(0.5))), False, None),
        ("L2NormGenomic", "from_gmat", False, ENCS, lambda cl, e, k, U: cl.from_gmat(gmat=P.un, cmatfcty=GWF(), mkrwt=P.MW2, afreq=P.AF2, **common(e, n, k, t)),
         lambda cnt, cc, U: numpy.array([numpy.sqrt(cc @ (0.5 * relmat.gweighted(P.Z, 2, P.AF2[:, i], P.MW2[:, i])[0]) @ cc) for i in range(t)]), True, None),
        ("PopulationAlleleFrequencyDistance", "from_gmat_gpmod", False, ("Subset",),
         lambda cl, e, k, U: cl.from_gmat_gpmod(gmat=(P.pg if U else P.un), weight=P.W, target=P.TFQ, gpmod=P.mod, **common(e, n, k, t)), lambda cnt, cc, U: pafd(cnt), False, None),
        ("PopulationAlleleUnavailability", "from_gmat_gpmod", False, ("Subset",),
         lambda cl, e, k, U: cl.from_gmat_gpmod(gmat=(P.pg if U else P.un), weight=P.W, target=P.TFQ, gpmod=P.mod, **common(e, n, k, t)), lambda cnt, cc, U: pau(cnt), False, None),
        ("MultiObjectiveGenomic", "from_gmat_gpmod", False, ("Subset",),
         lambda cl, e, k, U: cl.from_gmat_gpmod(gmat=(P.pg if U else P.un), weight=P.W, target=P.TFQ, gpmod=P.mod, **common(e, n, k, 2 * t)),
         lambda cnt, cc, U: numpy.r_[pau(cnt), pafd(cnt)], False, None),
    ]
    return R


def _judge(prob, enc, defn, U, tolK, n, g):
    """A fresh contribution pattern in the problem's encoding against the definition.  Returns (ok, witness)."""
    k = int(prob.ndecn) if enc == "Subset" else int(g.integers(1, n + 1))
    members = g.choice(n, k, replace=False); cnt = numpy.bincount(members, minlength=n); cc = cnt / cnt.sum()
    expected = numpy.asarray(defn(cnt.astype(float), cc, U), dtype=float)
    x = render(enc, cnt, g)
    lat = numpy.asarray(prob.latentfn(x), dtype=float)
    if lat.shape != expected.shape:
        ok = False
    elif tolK:
        ok = bool(numpy.all(numpy.abs(lat - expected) <= 1e-5 * (1 + numpy.abs(expected))))
    else:
        ok = near(lat, expected)[0]
    return ok, {"x": x, "got": lat, "expected": expected}


def case_shared(ctx, c, classes):
    """Several problems (all encodings, repeated calls, unscale True/False, every factory that takes the population's matrices) built
    from the SAME live population objects - one or two populations of equal shape, calls interleaved.  Around every factory call and
    every evaluation the observable state of every population object is digested; every problem built earlier is judged again."""
    g = ctx.rng("shared", c)
    n = int(g.integers(3, 11)); m = int(g.integers(5, 20)); t = int(g.integers(1, 4))
    pops = [shared_population(g, n, m, t) for _ in range(int(g.choice([1, 2])))]
    routes = [shared_routes(P) for P in pops]
    nr = len(routes[0])
    # breeding-value-matrix routes drawn more often: they are the ones that can hand the population's own buffer to the problem
    wts = numpy.array([3.0 if r[1] in ("from_bvmat", "from_bvmat_gmat") else 1.0 for r in routes[0]]); wts /= wts.sum()
    built = []          # (population index, problem, encoding, definition, U, tolK, label)
    last = None
    coords = [c, "shared"]
    for step in range(int(g.integers(5, 13))):
        pi = int(g.integers(len(pops))); P = pops[pi]
        if last is not None and g.random() < 0.35:
            ri = last                                      # the same factory again (other encoding / other unscale / identical call)
        else:
            ri = int(g.choice(nr, p=wts))
        last = ri
        fam, fname, takesU, encs, build, defn, tolK, attr = routes[pi][ri]
        enc = encs[int(g.integers(len(encs)))]
        cname = fam + enc + "SelectionProblem"
        if cname not in classes:
            continue
        U = bool(g.integers(2))
        if fam == "GenomicEstimatedBreedingValue" and fname == "from_gmat_gpmod" and not U and P.Gs is None:
            U = True
        site = "%s.%s" % (cname, fname)
        ucls = ("/unscale=%s" % U) if takesU else ""
        k = int(g.integers(1, n + 1))
        ctx.case("shared:%s" % site, cname, P.Vs, P.Z, P.u, U, step)
        before = [_state(o, names) for _, o, names in P.objects]
        others_before = [[_state(o, names) for _, o, names in Q.objects] for Q in pops]
        try:
            prob = build(classes[cname], enc, k, U)
        except Exception as e:
            ctx.raised(site + " (shared population objects)", e); continue
        # ---- the new problem holds the population's data
        stop = False
        try:
            ok, w = _judge(prob, enc, defn, U, tolK, n, g)
            if ok and attr is not None:
                an, truth = attr(U)
                got = numpy.asarray(getattr(prob, an), dtype=float)
                ok = near(got, truth)[0]
                w = dict(w, attribute=an, attribute_got=got, attribute_expected=truth)
            ctx.check("C05.factory", ok, site, "problem holds the population's data in the population's taxon order",
                      "%s encoding/population objects shared by several problems%s" % (enc, ucls), witness=dict(w, **{"class": cname, "step": step, "bvmat built by": P.bvform, "populations in the case": len(pops)}), coords=coords)
            stop = stop or not ok
        except Exception as e:
            ctx.raised(site + ".latentfn (shared population objects)", e)
        # ---- every problem built earlier (from this or the other population) still holds its population's data
        for j, (pj, pr, en, df, Uj, tk, label) in enumerate(built):
            if pr is None:
                continue
            try:
                ok, w = _judge(pr, en, df, Uj, tk, n, g)
            except Exception as e:
                ctx.raised(label + ".latentfn (after later factory calls)", e); continue
            ctx.check("C05.shared", ok, site, "problems built earlier from the same population objects still hold the population's data after this factory call",
                      "population objects shared by several problems%s" % ucls, witness=dict(w, earlier_problem=label, earlier_unscale=Uj, later_call=site, step=step, populations_in_the_case=len(pops)), coords=coords)
            if not ok:
                built[j] = (pj, None, en, df, Uj, tk, label); stop = True
        built.append((pi, prob, enc, defn, U, tolK, site))
        # ---- the factory call and the evaluations left every population object as it was
        for qi, Q in enumerate(pops):
            ref = before if qi == pi else others_before[qi]
            for (oname, o, names), b in zip(Q.objects, ref):
                a = _state(o, names)
                changed = sorted(x for x in names if a[x] != b[x])
                ctx.check("C05.inputs", not changed, site, "factory call and evaluation leave the population's %s unchanged" % oname,
                          "population objects shared by several problems%s%s" % (ucls, "" if qi == pi else "/object of the OTHER population"),
                          witness={"class": cname, "attributes changed": changed, "step": step, "bvmat built by": P.bvform}, coords=coords)
                stop = stop or bool(changed)
        ok_arr = numpy.array_equal(P.W, P.W0) and numpy.array_equal(P.TFQ, P.TFQ0)
        if fname == "from_gmat_gpmod" and fam != "GenomicEstimatedBreedingValue":
            ctx.check("C05.inputs", ok_arr, site, "factory call and evaluation leave the caller's marker weight / target frequency arrays unchanged",
                      "population objects shared by several problems", witness={"class": cname, "step": step}, coords=coords)
            stop = stop or not ok_arr
        if stop:
            break            # the population is no longer the one the harness knows: later judgements would blame innocent factories


def case_uc(ctx, c, classes):
    """Usefulness-criterion problems built from a population: parental mean + selection intensity x sqrt(progeny variance),
    looked up through the cross map.  The progeny variance itself is taken from the library's variance matrix (decided by C12)."""
    from scipy import stats
    from pybrops.model.gmod.DenseAdditiveLinearGenomicModel import DenseAdditiveLinearGenomicModel
    from pybrops.popgen.gmap.HaldaneMapFunction import HaldaneMapFunction
    g = ctx.rng("uc", c)
    nparent = int(g.choice([2, 2, 3, 4]))
    fname = {2: "DenseTwoWayDHAdditiveGeneticVarianceMatrixFactory", 3: "DenseThreeWayDHAdditiveGeneticVarianceMatrixFactory", 4: "DenseFourWayDHAdditiveGeneticVarianceMatrixFactory"}[nparent]
    fcty = getattr(importlib.import_module("pybrops.model.vmat.fcty." + fname), fname)()
    epgc = {2: (0.5, 0.5), 3: (0.5, 0.25, 0.25), 4: (0.25, 0.25, 0.25, 0.25)}[nparent]
    n = int(g.integers(nparent, 6)); m = int(g.integers(3, 10)); t = int(g.integers(1, 3))
    pg = pop.make_pgmat(g, n, m, 2, codes="01", xomode="haldane")
    pg.mat[1] = pg.mat[0]        # inbred parents
    u = g.normal(size=(m, t)); beta = g.normal(size=(1, t))
    mod = DenseAdditiveLinearGenomicModel(beta=beta, u_misc=None, u_a=u, trait=numpy.array(["y%d" % i for i in range(t)], dtype=object))
    nself = int(g.choice([0, 1])); pct = float(g.choice([0.05, 0.1, 0.25]))
    unique = bool(g.integers(2))
    enc = ENCS[c % 4]
    cname = "UsefulnessCriterion%sMateSelectionProblem" % enc
    if cname not in classes:
        return
    try:
        vm = fcty.from_gmod(gmod=mod, pgmat=pg, ncross=1, nprogeny=10, nself=nself, gmapfn=HaldaneMapFunction())
        import itertools
        xmap = numpy.array(list(itertools.combinations(range(n), nparent) if unique else itertools.combinations_with_replacement(range(n), nparent)))
    except Exception as e:
        ctx.raised("variance matrix factory", e); return
    ncand = len(xmap)
    if ncand == 0:
        return
    k = int(g.integers(1, min(ncand, 6) + 1))
    userx = g.random() < 0.5
    fn_ = "from_pgmat_gpmod_xmap" if userx else "from_pgmat_gpmod"
    try:
        if userx:
            # the caller's own cross map: a subset of the candidate crosses, rows in any order, parents within a row in any order
            # (a three-/four-way cross is not symmetric in its parent positions)
            keep = g.permutation(ncand)[: int(g.integers(1, ncand + 1))]
            xmap = numpy.array([g.permutation(xmap[i]) for i in keep], dtype="int64").reshape(len(keep), nparent)
            ncand = len(xmap); k = min(k, ncand)
            prob = classes[cname].from_pgmat_gpmod_xmap(nparent=nparent, ncross=1, nprogeny=10, nself=nself, upper_percentile=pct, vmatfcty=fcty,
                                                        gmapfn=HaldaneMapFunction(), unique_parents=unique, pgmat=pg, gpmod=mod, xmap=xmap, **common(enc, ncand, k, t))
        else:
            prob = classes[cname].from_pgmat_gpmod(nparent=nparent, ncross=1, nprogeny=10, nself=nself, upper_percentile=pct, vmatfcty=fcty,
                                                   gmapfn=HaldaneMapFunction(), unique_parents=unique, pgmat=pg, gpmod=mod, **common(enc, ncand, k, t))
    except Exception as e:
        ctx.raised(cname + "." + fn_, e); return
    gebv = pg.mat.sum(0).astype(float) @ u + beta[0]
    inten = float(stats.norm.pdf(stats.norm.ppf(1.0 - pct)) / pct)
    lib_xmap = numpy.asarray(prob.decn_space_xmap)
    okmap = lib_xmap.ndim == 2 and sorted(map(tuple, lib_xmap.tolist())) == sorted(map(tuple, xmap.tolist()))   # same candidate crosses, any order
    if userx:
        okmap = numpy.array_equal(lib_xmap, xmap)       # a cross map supplied by the caller is used as given
    if not okmap:
        lib_xmap = xmap
    exp = numpy.array([numpy.asarray(epgc) @ gebv[list(row)] + inten * numpy.sqrt(numpy.maximum(vm.mat[tuple(row)], 0.0)) for row in lib_xmap])
    got = numpy.asarray(prob.ucmat, dtype=float)
    ctx.case("factory:%s.from_pgmat_gpmod" % cname, cname, pg.mat, u, nself, pct, unique)
    ctx.check("C05.factory", okmap and near(got, exp)[0], cname + "." + fn_,
              "usefulness criterion == contribution-weighted parental mean + intensity x sqrt(progeny variance) through the cross map",
              "%d-way cross%s" % (nparent, ", caller's own cross map" if userx else ""), witness={"class": cname, "nparent": nparent, "xmap": xmap, "got": got, "expected": exp}, coords=[c, "uc"])


def case_embv(ctx, c, classes):
    """Expected-maximum-breeding-value problems built from a population of INBRED lines: every progeny of a self or of a two-way
    cross of inbred lines is the same genotype, so the expected maximum over any number of progeny and replicates is exact:
    the breeding value of the line (self) or of the F1 (mean of the two parental dosages)."""
    from pybrops.model.gmod.DenseAdditiveLinearGenomicModel import DenseAdditiveLinearGenomicModel
    g = ctx.rng("embv", c)
    nparent = int(g.choice([1, 2, 2]))
    n = int(g.integers(2, 6)); m = int(g.integers(3, 10)); t = int(g.integers(1, 3))
    pg = pop.make_pgmat(g, n, m, 2, codes="01", xomode="haldane")
    pg.mat[1] = pg.mat[0]
    u = g.normal(size=(m, t)); beta = g.normal(size=(1, t))
    mod = DenseAdditiveLinearGenomicModel(beta=beta, u_misc=None, u_a=u, trait=numpy.array(["y%d" % i for i in range(t)], dtype=object))
    pname = "SelfCross" if nparent == 1 else "TwoWayCross"
    mateprot = getattr(importlib.import_module("pybrops.breed.prot.mate." + pname), pname)(rng=numpy.random.Generator(numpy.random.PCG64(int(g.integers(2 ** 31)))))
    unique = bool(g.integers(2)) if nparent == 2 else False
    enc = ENCS[c % 4]
    cname = "ExpectedMaximumBreedingValue%sSelectionProblem" % enc
    if cname not in classes:
        return
    import itertools
    xmap = numpy.array(list(itertools.combinations(range(n), nparent) if unique else itertools.combinations_with_replacement(range(n), nparent)))
    ncand = len(xmap)
    if ncand == 0:
        return
    k = int(g.integers(1, min(ncand, 5) + 1))
    nprog = int(g.integers(1, 5)); nrep = int(g.integers(1, 5))
    ctx.case("factory:%s.from_pgmat_gpmod" % cname, cname, pg.mat, u, nparent, unique, nprog, nrep)
    try:
        prob = classes[cname].from_pgmat_gpmod(nparent=nparent, nmating=1, nprogeny=nprog, nrep=nrep, unique_parents=unique, pgmat=pg, gpmod=mod,
                                               mateprot=mateprot, **common(enc, ncand, k, t))
    except Exception as e:
        ctx.raised(cname + ".from_pgmat_gpmod", e); return
    Z = pg.mat.sum(0).astype(float)
    lib_xmap = numpy.asarray(prob.decn_space_xmap)
    okmap = lib_xmap.ndim == 2 and sorted(map(tuple, lib_xmap.tolist())) == sorted(map(tuple, xmap.tolist()))
    if not okmap:
        lib_xmap = xmap
    exp = numpy.array([Z[list(row)].mean(0) @ u + beta[0] for row in lib_xmap])
    got = numpy.asarray(prob.embv, dtype=float)
    ctx.check("C05.factory", okmap and near(got, exp)[0], cname + ".from_pgmat_gpmod",
              "expected maximum breeding value of every candidate cross of inbred lines == breeding value of its (unique) progeny genotype",
              "selfs of inbred lines" if nparent == 1 else "two-way crosses of inbred lines",
              witness={"class": cname, "nparent": nparent, "xmap": lib_xmap, "nrep": nrep, "nprogeny": nprog, "got": got, "expected": exp}, coords=[c, "embv"])


def run_shard(ctx):
    classes = all_problem_classes()
    fams = sorted({family_of(n)[0] for n in classes if family_of(n)[0] is not None})
    modelled = [f for f in fams if family_data(numpy.random.default_rng(0), f, 4, 1)[0] is not None]
    unmod = sorted(n for n in classes if family_of(n)[0] not in modelled)
    ctx.note("concrete problem classes found", len(classes))
    ctx.note("families with a definition", modelled)
    ctx.note("unmodelled classes (nothing claimed)", unmod)
    for c in ctx.case_ids(len(modelled) * 150, len(modelled) * 16 * 1500):
        case_constructor(ctx, c, classes, modelled)
        if c % 211 == 0:
            ctx.sample({"family": modelled[c % len(modelled)], "case": c})
    for c in ctx.case_ids(8 * 100, 8 * 16 * 800):
        case_factory(ctx, c, classes)
    for c in ctx.case_ids(240, 16 * 600):
        case_shared(ctx, c, classes)
    for c in ctx.case_ids(120, 16 * 400):
        case_uc(ctx, c, classes)
    for c in ctx.case_ids(160, 16 * 300):
        case_embv(ctx, c, classes)


def replay(ctx, coords):
    classes = all_problem_classes()
    fams = sorted({family_of(n)[0] for n in classes if family_of(n)[0] is not None})
    modelled = [f for f in fams if family_data(numpy.random.default_rng(0), f, 4, 1)[0] is not None]
    if coords[1] == "uc":
        case_uc(ctx, int(coords[0]), classes)
    elif coords[1] == "embv":
        case_embv(ctx, int(coords[0]), classes)
    elif coords[1] == "shared":
        case_shared(ctx, int(coords[0]), classes)
    elif coords[1] == "ctor":
        case_constructor(ctx, int(coords[0]), classes, modelled)
    else:
        case_factory(ctx, int(coords[0]), classes)
