"""C08 - seeded runs are reproducible and explicit generators are isolated."""
import hashlib
import importlib
import json
import os
import pickle
import random
import subprocess
import sys

import numpy

from pbmon import boot  # noqa: F401
from pbmon.gen import pop

PROPERTY = "C08"
NSHARDS = {"quick": 6, "thorough": 16}
CLAUSES = {"C08.reseed": 1000, "C08.process": 40, "C08.explicit.depends": 500, "C08.explicit.global": 300}
HOOKS_REQUIRED = ["explicit-generator call preceded by a larger call of the same component",
                  "explicit-generator call with a cached normal deviate pending in the global NumPy stream",
                  "explicit-generator call with a cached normal deviate pending in the global Python stream",
                  "optimiser with explicit generator, cached normal deviate pending in the global NumPy stream",
                  "optimiser with explicit generator, no cached normal deviate in the global NumPy stream",
                  "program re-executed after re-seeding on the same kept option arrays / configuration objects",
                  "... of which sampled without replacement for exactly one complete set of the options"]
RULE = ("programs = sequences of 3-15 stochastic API calls (7 mating protocols with scalar and per-cross count arrays, G_E phenotyping "
        "with scalar and per-environment designs, 5 cross-configuration samplers (fresh objects; objects built once and sampled repeatedly; new objects "
        "from a kept selection vector; draws = one / two complete sets of the options, sets and a remainder, fewer than one set), 4 sampling utilities "
        "(fresh and kept option / weight arrays of several dtypes, with and without replacement, tuple and scalar sizes), raw global normal draws "
        "(odd numbers: cached deviates pending in both global streams), the six dense_*/mat_* meiosis "
        "helpers, prng.spawn, hill-climber and GA optimisers, coancestry jitter, expected-maximum-BV matrix with scalar and per-taxon "
        "counts) on a generated population whose cross maps, count arrays, option arrays and configuration objects are caller-owned and the same "
        "objects at every call; explicit-generator runs (every component that accepts rng, every optimiser class) are preceded by an odd number of "
        "global normal draws in one run and an even number in the other (numpy and random.gauss independently), "
        "hand the same generator to two consecutive calls and compare "
        "both outputs and the generator's continuation, the second run after a larger call of the same component with another generator; "
        "population; executed twice in one process after seed(s) with different prefixes (raw random/numpy draws, other programs), in two "
        "fresh interpreters with different PYTHONHASHSEED, and per component with equal-state explicit generators under differently "
        "seeded global streams.  Outputs are compared as bit-level digests call by call; optimisers also by the sequence of decisions "
        "evaluated.  Non-trivial: every program; distinct = digest of (seed, program).")
ASSUME = ["outputs are compared through pickled arrays/frames/labels (bit-level)",
          "objects built (and shallow-copied; deep-copied where the class defines __deepcopy__) BEFORE seeding belong to 'whatever was executed "
          "before the re-seeding'; a default copy.deepcopy of a protocol clones its generator and is not asserted to follow later seeds",
          "an entropy tap on numpy.random.default_rng / os.urandom only *explains* divergences; output equality decides",
          "digests of the caller-owned input arrays taken before and after each call only *explain* divergences (which call left an input modified); "
          "a modified input is judged through the later calls that use the same array / object again (third execution on the same objects, "
          "equal-state generator on the same inputs)",
          "'global streams left exactly as they were' is the whole state: Mersenne words, position AND the pending cached normal deviate "
          "(numpy has_gauss/cached_gaussian, random.gauss's gauss_next)"]
VERIF = os.path.dirname(os.path.dirname(os.path.dirname(os.path.abspath(__file__))))

MATE = ["SelfCross", "TwoWayCross", "TwoWayDHCross", "ThreeWayCross", "ThreeWayDHCross", "FourWayCross", "FourWayDHCross"]
CFGS = ["SubsetSelectionConfiguration", "RealSelectionConfiguration", "IntegerSelectionConfiguration", "BinarySelectionConfiguration",
        "SubsetMateSelectionConfiguration"]
HELPERS = {"dense_meiosis": ("pybrops.core.util.mate", "dense_meiosis"), "dense_dh": ("pybrops.core.util.mate", "dense_dh"),
           "dense_cross": ("pybrops.core.util.mate", "dense_cross"), "mat_meiosis": ("pybrops.breed.prot.mate.util", "mat_meiosis"),
           "mat_dh": ("pybrops.breed.prot.mate.util", "mat_dh"), "mat_mate": ("pybrops.breed.prot.mate.util", "mat_mate")}
GAS = ["SubsetGeneticAlgorithm", "RealGeneticAlgorithm", "IntegerGeneticAlgorithm", "BinaryGeneticAlgorithm", "NSGA2SubsetGeneticAlgorithm",
       "NSGA2RealGeneticAlgorithm", "NSGA2IntegerGeneticAlgorithm", "NSGA2BinaryGeneticAlgorithm", "NSGA3SubsetGeneticAlgorithm",
       "NSGA2MemeticSubsetGeneticAlgorithm:NSGA2SteepestDescentSubsetGeneticAlgorithm",
       "NSGA2MemeticSubsetGeneticAlgorithm:NSGA2StochasticDescentSubsetGeneticAlgorithm",
       "NSGA2MemeticSubsetGeneticAlgorithm:NSGA2MutatorASubsetGeneticAlgorithm",
       "NSGA2MemeticSubsetGeneticAlgorithm:NSGA2MutatorBSubsetGeneticAlgorithm"]
# boundary sizes of the subset problem handed to the subset GAs (subset = whole candidate set, one member, all but one)
GAS += [g_ + "/" + z for g_ in ("SubsetGeneticAlgorithm", "NSGA2SubsetGeneticAlgorithm", "NSGA3SubsetGeneticAlgorithm") for z in ("every candidate selected", "single member", "all but one")]

# Caller-owned inputs that OUTLIVE the call: option / selection / weight arrays and selection-configuration objects that a World builds
# once and every later call (of the same execution, of the next execution on the same objects, of an equal-state generator) uses again.
# name -> (kind, class or function, size class, (ncross, nparent, number of options))
ONE, TWO, REM, FEW = ("exactly one complete set of the options", "two complete sets of the options", "complete sets and a remainder",
                      "fewer draws than options")
KEPT = {}
for _c, _sz in (("SubsetSelectionConfiguration", {ONE: (4, 2, 8), TWO: (4, 2, 4), REM: (4, 2, 5), FEW: (3, 2, 8)}),
                ("SubsetMateSelectionConfiguration", {ONE: (4, 2, 4), TWO: (4, 2, 2), REM: (4, 2, 3), FEW: (3, 2, 5)}),
                ("BinarySelectionConfiguration", {ONE: (4, 2, 8), REM: (4, 2, 5)}),
                ("IntegerSelectionConfiguration", {ONE: (4, 2, 8), REM: (4, 2, 5)}),
                ("RealSelectionConfiguration", {"selection weights": (4, 2, 8)})):
    for _z, _d in _sz.items():
        KEPT["%s@object built once, sampled repeatedly/%s" % (_c, _z)] = ("object", _c, _z, _d)
for _c in ("SubsetSelectionConfiguration", "SubsetMateSelectionConfiguration"):
    KEPT["%s@new object from a kept selection vector/%s" % (_c, ONE)] = ("vector", _c, ONE, KEPT["%s@object built once, sampled repeatedly/%s" % (_c, ONE)][3])
for _z, _d in ((ONE, ((4, 3), False)), (ONE + ", scalar size", (12, False)), (TWO, ((8, 3), False)), (REM, ((5, 3), False)), (FEW, ((2, 3), False)),
               ("with replacement, weighted", ((5, 3), True))):
    KEPT["tiled_choice@kept option array/" + _z] = ("tiled_choice", "tiled_choice", _z.split(",")[0] if _z.startswith(ONE) else _z, _d)
KEPT["sus@kept option and weight arrays"] = ("sus", "sus", "kept option and weight arrays", None)
RAW = "raw global draws/odd number of normal deviates"


def dig(x):
    def norm(o):
        if o is None or isinstance(o, (int, float, str, bool)):
            return o
        if isinstance(o, numpy.ndarray):
            return (str(o.dtype), o.shape, o.tolist() if o.dtype == object else o.tobytes())
        if isinstance(o, (list, tuple)):
            return [norm(v) for v in o]
        if isinstance(o, dict):
            return {str(k): norm(v) for k, v in sorted(o.items(), key=lambda kv: str(kv[0]))}
        if hasattr(o, "to_numpy") and hasattr(o, "columns"):
            return (list(map(str, o.columns)), [norm(o[c].to_numpy()) for c in o.columns])
        if hasattr(o, "mat"):
            return (norm(numpy.asarray(o.mat)), norm(getattr(o, "taxa", None)), norm(getattr(o, "taxa_grp", None)))
        if hasattr(o, "xconfig"):
            return norm(o.xconfig)
        if hasattr(o, "soln_decn"):
            return (norm(numpy.asarray(o.soln_decn)), norm(numpy.asarray(o.soln_obj)))
        if isinstance(o, numpy.random.Generator):
            return norm(o.bit_generator.state["state"])
        return repr(o)
    return hashlib.sha1(pickle.dumps(norm(x))).hexdigest()[:12]


class World:
    """Deterministic fixtures (built from ``wseed`` only; never touches the global streams)."""

    def __init__(self, wseed):
        g = numpy.random.Generator(numpy.random.PCG64(wseed))
        self.pg = pop.make_pgmat(g, 8, 14, 2, codes="01", xomode="random")
        from pybrops.model.gmod.DenseAdditiveLinearGenomicModel import DenseAdditiveLinearGenomicModel
        self.mod = DenseAdditiveLinearGenomicModel(beta=numpy.array([[1.0, -2.0]]), u_misc=None, u_a=g.normal(size=(14, 2)),
                                                   trait=numpy.array(["y1", "y2"], dtype=object))
        self.ebv = g.normal(size=(8, 2))
        self.pgbig = pop.make_pgmat(g, 320, 14, 2, codes="01", xomode="random")      # a few hundred taxa: larger work arrays
        self.w = g.uniform(0.1, 1.0, 6)
        # objects a user builds once, *before* seeding, and keeps using afterwards (also through copies)
        import copy as _copy
        from pybrops.breed.prot.pt.G_E_Phenotyping import G_E_Phenotyping
        self.prebuilt = {}
        for n_ in MATE:
            cls = getattr(importlib.import_module("pybrops.breed.prot.mate." + n_), n_)
            o = cls()
            self.prebuilt[n_] = {"orig": o, "copy": _copy.copy(o), "deepcopy": _copy.deepcopy(o)}
        self.shared_record = []
        self.shared_problem = self.problem("Subset", 1, self.shared_record)     # one problem object used by several runs
        o = G_E_Phenotyping(self.mod, 2, 2, 1.0, 0.5, 1.0)
        self.prebuilt["G_E_Phenotyping"] = {"orig": o, "copy": _copy.copy(o), "deepcopy": _copy.deepcopy(o)}
        # caller-owned arrays handed to the calls (cross maps, per-cross / per-taxon counts): the same array objects for every call
        self.wseed = wseed
        self.arr = {"xc%d" % k: numpy.array([[(i + c) % 8 for i in range(k)] for c in range(2)]) for k in (1, 2, 3, 4)}
        self.arr.update({"nmating": numpy.array([1, 2]), "nprogeny": numpy.array([3, 1]), "embv nprogeny": numpy.array([3, 1, 2, 4, 2, 1, 3, 2]),
                         "embv nrep": numpy.array([2, 5, 3, 1, 2, 4, 1, 3]), "helper sel": numpy.arange(5) % 8})
        self.kept = {}

    def keep(self, name):
        """The long-lived inputs of a KEPT component: built on first use from (wseed, name) with a private generator (the global
        streams are not touched), afterwards always the same objects."""
        if name in self.kept:
            return self.kept[name]
        kind, cn, zcls, d = KEPT[name]
        g = numpy.random.Generator(numpy.random.PCG64([self.wseed, sorted(KEPT).index(name)]))
        dt = ["int64", "int32", "int16", "uint8"][int(g.integers(4))]
        if kind == "tiled_choice":
            k = {"a": (100 + g.permutation(40)[:12]).astype(dt if g.random() < 0.7 else "float64")}
            if d[1]:
                k["p"] = g.dirichlet(numpy.ones(12))
        elif kind == "sus":
            k = {"a": g.permutation(6).astype(dt), "p": g.uniform(0.1, 1.0, 6)}
        else:
            ncross, nparent, nopt = d
            cls = getattr(importlib.import_module("pybrops.breed.prot.sel.cfg." + cn), cn)
            if cn == "SubsetSelectionConfiguration":
                k = {"decn": g.permutation(8)[:nopt].astype(dt)}
            elif cn == "SubsetMateSelectionConfiguration":
                k = {"decn": g.permutation(6)[:nopt].astype(dt), "xmap": numpy.array([[0, 1], [2, 3], [4, 5], [6, 7], [1, 2], [3, 4]])}
            elif cn == "BinarySelectionConfiguration":
                v = numpy.zeros(8, dtype=dt); v[g.permutation(8)[:nopt]] = 1; k = {"decn": v}
            elif cn == "IntegerSelectionConfiguration":
                k = {"decn": g.multinomial(nopt, numpy.ones(8) / 8).astype(dt)}
            else:
                k = {"decn": g.dirichlet(numpy.ones(8))}
            k["args"] = (cls, ncross, nparent)
            if kind == "object":
                priv = numpy.random.Generator(numpy.random.PCG64(self.wseed + 11))
                k["obj"] = cls(ncross, nparent, 1, 1, self.pg, k["decn"], *([k["xmap"]] if "xmap" in k else []), priv)
        self.kept[name] = k
        return k

    def owned(self):
        """digest of every caller-owned input array (explains a divergence: which call left an input modified)"""
        d = {"pg.mat": self.pg.mat, "pg.vrnt_xoprob": self.pg.vrnt_xoprob, "pgbig.mat": self.pgbig.mat, "ebv": self.ebv, "sus weights": self.w,
             "model u_a": self.mod.u_a, "model beta": self.mod.beta, "shared problem decn_space": self.shared_problem.decn_space}
        d.update(self.arr)
        for n_, k in self.kept.items():
            for f_ in ("a", "p", "decn", "xmap"):
                if f_ in k:
                    d[n_ + ": " + {"a": "option array", "p": "weight array", "decn": "selection vector", "xmap": "cross map"}[f_]] = k[f_]
        return {n_: hashlib.sha1(numpy.ascontiguousarray(v).tobytes()).hexdigest()[:10] for n_, v in d.items() if isinstance(v, numpy.ndarray)}

    def problem(self, enc, nobj, record, ndecn=3):
        P = importlib.import_module("pybrops.breed.prot.sel.prob.EstimatedBreedingValueSelectionProblem")
        cls = getattr(P, "EstimatedBreedingValue%sSelectionProblem" % enc)
        n = 8
        if enc == "Subset":
            prob = cls(ebv=self.ebv, ndecn=ndecn, decn_space=numpy.arange(n), decn_space_lower=numpy.repeat(0, ndecn), decn_space_upper=numpy.repeat(n - 1, ndecn),
                       nobj=nobj, obj_wt=numpy.ones(nobj), obj_trans=(None if nobj == 2 else _head1))
        else:
            lo, up = {"Real": (0.0, 1.0), "Integer": (0, 3), "Binary": (0, 1)}[enc]
            prob = cls(ebv=self.ebv, ndecn=n, decn_space=numpy.stack([numpy.repeat(lo, n), numpy.repeat(up, n)]), decn_space_lower=numpy.repeat(lo, n),
                       decn_space_upper=numpy.repeat(up, n), nobj=nobj, obj_wt=numpy.ones(nobj), obj_trans=(None if nobj == 2 else _head1))
        orig = prob.latentfn

        def rec(x, *a, **k):
            record.append(numpy.asarray(x).tolist())
            return orig(x, *a, **k)
        prob.latentfn = rec
        return prob


def _head1(x, latent, **kw):
    return latent[:1]


def enc_of(name):
    for e in ("Subset", "Real", "Integer", "Binary"):
        if e in name:
            return e
    return "Subset"


def component(name, big=False):
    """callable(world, rng) -> output; rng None = library global generator.  ``big``: the same component with a larger request
    (more progeny / gametes / draws) - used for the calls that make up the interpreter history before a judged call."""
    if name in KEPT:
        def f(w, rng, _n=name):
            kind, cn, zcls, d = KEPT[_n]
            k = w.keep(_n)
            if kind == "tiled_choice":
                return _samp().tiled_choice(k["a"], d[0], d[1], k.get("p"), rng)
            if kind == "sus":
                return _samp().stochastic_universal_sampling(k["a"], k["p"], 9, rng)
            if kind == "vector":      # a new configuration object from the caller's (kept) selection vector
                cls, ncross, nparent = k["args"]
                return cls(ncross, nparent, 1, 1, w.pg, k["decn"], *([k["xmap"]] if "xmap" in k else []), rng).sample_xconfig(True)
            k["obj"].rng = rng        # None -> the library's global generator
            return k["obj"].sample_xconfig(True)
        return f
    if name == RAW:
        def f(w, rng):
            import pybrops.core.random.prng as prng
            return [float(numpy.random.standard_normal()), random.gauss(0.0, 1.0), prng.normal(0.0, 1.0, 2).tolist()]
        return f
    if "@" in name and not name.startswith("SteepestDescent"):
        base, variant = name.split("@")

        def f(w, rng, _b=base, _v=variant):
            o = w.prebuilt[_b][_v]
            if _b == "G_E_Phenotyping":
                return o.phenotype(w.pg)
            xc = numpy.array([[(i + c) % 8 for i in range(o.nparent)] for c in range(2)])
            return o.mate(w.pg, xc, 2, 2, nself=1)
        return f
    if name in MATE or name.split("/")[0] in MATE:
        def f(w, rng, _n=name.split("/")[0], _arr=name.endswith("/per-cross counts")):
            cls = getattr(importlib.import_module("pybrops.breed.prot.mate." + _n), _n)
            P = cls(rng=rng)
            xc = w.arr["xc%d" % P.nparent]       # caller-owned cross map / count arrays: the same array objects at every call
            if _arr and not big:      # per-cross count arrays, unequal entries
                return P.mate(w.pg, xc, w.arr["nmating"], w.arr["nprogeny"], nself=1)
            if _arr:
                return P.mate(w.pg, xc, numpy.array([1, 3]), numpy.array([7, 1]), nself=1)
            return P.mate(w.pg, xc, 2, 9 if big else 2, nself=1)
        return f
    if name in HELPERS:
        def f(w, rng, _n=name):
            import pybrops.core.random.prng as prng
            F = getattr(importlib.import_module(HELPERS[_n][0]), HELPERS[_n][1])
            r_ = prng.global_prng if rng is None else rng
            geno = w.pg.mat; xo = w.pg.vrnt_xoprob
            sel = numpy.arange(37) % 8 if big else w.arr["helper sel"]
            if HELPERS[_n][1] in ("dense_cross", "mat_mate"):
                return F(geno, geno, sel, (sel + 3) % 8, xo, r_)
            return F(geno, sel, xo, r_)
        return f
    if name == "G_E_Phenotyping":
        def f(w, rng):
            from pybrops.breed.prot.pt.G_E_Phenotyping import G_E_Phenotyping
            return G_E_Phenotyping(w.mod, 2, 2, 1.0, 0.5, 1.0, rng=rng).phenotype(w.pg)
        return f
    if name in CFGS:
        def f(w, rng, _n=name):
            cls = getattr(importlib.import_module("pybrops.breed.prot.sel.cfg." + _n), _n)
            if _n == "SubsetSelectionConfiguration":
                return cls(4, 2, 1, 1, w.pg, numpy.array([0, 1, 2, 3, 4]), rng).sample_xconfig(True)
            if _n == "RealSelectionConfiguration":
                return cls(4, 2, 1, 1, w.pg, numpy.array([.1, .2, .3, .2, .1, .05, .05, 0.0]), rng).sample_xconfig(True)
            if _n == "IntegerSelectionConfiguration":
                return cls(4, 2, 1, 1, w.pg, numpy.array([1, 2, 0, 1, 0, 0, 3, 0]), rng).sample_xconfig(True)
            if _n == "BinarySelectionConfiguration":
                return cls(4, 2, 1, 1, w.pg, numpy.array([1, 1, 0, 1, 0, 0, 1, 0]), rng).sample_xconfig(True)
            xmap = numpy.array([[0, 1], [2, 3], [4, 5], [6, 7], [1, 2], [3, 4]])
            return cls(4, 2, 1, 1, w.pg, numpy.array([0, 2, 3]), xmap, rng).sample_xconfig(True)
        return f
    if name == "sus":
        return lambda w, rng: _samp().stochastic_universal_sampling(numpy.arange(6), w.w, 40 if big else 9, rng)
    if name == "tiled_choice":
        return lambda w, rng: _samp().tiled_choice(numpy.arange(5), (9, 4) if big else (3, 4), False, None, rng)
    if name == "axis_shuffle":
        def f(w, rng):
            a = numpy.arange(24).reshape(4, 6); _samp().axis_shuffle(a, 0, rng); return a
        return f
    if name == "outcross_shuffle":
        def f(w, rng):
            a = numpy.array([[0, 0], [1, 1], [2, 2], [0, 1], [2, 0]]); _samp().outcross_shuffle(a, rng); return a
        return f
    if name == "spawn":
        def f(w, rng):
            import pybrops.core.random.prng as prng
            return [g.random(3) for g in prng.spawn(3)] + [prng.spawn().random(2)]
        return f
    if name == "SteepestDescentSubsetHillClimber@shared-problem":
        def f(w, rng):
            from pybrops.opt.algo.SteepestDescentSubsetHillClimber import SteepestDescentSubsetHillClimber
            del w.shared_record[:]
            s = SteepestDescentSubsetHillClimber(rng=rng).minimize(w.shared_problem)
            return (s, list(w.shared_record))
        return f
    if name == "SteepestDescentSubsetHillClimber":
        def f(w, rng):
            from pybrops.opt.algo.SteepestDescentSubsetHillClimber import SteepestDescentSubsetHillClimber
            rec = []
            s = SteepestDescentSubsetHillClimber(rng=rng).minimize(w.problem("Subset", 1, rec))
            return (s, rec)
        return f
    if name in GAS:
        def f(w, rng, _n=name):
            base, _, size = _n.partition("/")
            mod, _, cn = base.partition(":")
            cls = getattr(importlib.import_module("pybrops.opt.algo." + mod), cn or mod)
            nobj = 2 if "NSGA" in _n else 1
            rec = []
            kw = {} if rng is None else {"rng": rng}
            nd = {"": 3, "every candidate selected": 8, "single member": 1, "all but one": 7}[size]
            s = cls(ngen=3, pop_size=10, **kw).minimize(w.problem(enc_of(_n), nobj, rec, ndecn=nd))
            return (s, rec)
        return f
    if name == "apply_jitter":
        def f(w, rng):
            from pybrops.popgen.cmat.DenseMolecularCoancestryMatrix import DenseMolecularCoancestryMatrix
            mat = numpy.ones((4, 4))  # singular: jitter has to be applied
            K = DenseMolecularCoancestryMatrix(mat, taxa=numpy.array(["a", "b", "c", "d"], dtype=object), taxa_grp=numpy.zeros(4, dtype="int64"))
            K.apply_jitter()
            return K
        return f
    if name == "EMBV":
        def f(w, rng):
            from pybrops.model.embvmat.DenseExpectedMaximumBreedingValueMatrix import DenseExpectedMaximumBreedingValueMatrix as E
            return E.from_gmod(w.mod, w.pg, 3, 2)
        return f
    if name == "EMBV/per-taxon counts":
        def f(w, rng):
            from pybrops.model.embvmat.DenseExpectedMaximumBreedingValueMatrix import DenseExpectedMaximumBreedingValueMatrix as E
            return E.from_gmod(w.mod, w.pg, w.arr["embv nprogeny"], w.arr["embv nrep"])
        return f
    if name == "G_E_Phenotyping/error-free trait, larger population":
        def f(w, rng):
            from pybrops.breed.prot.pt.G_E_Phenotyping import G_E_Phenotyping
            return G_E_Phenotyping(w.mod, 2, 2, numpy.array([1.0, 0.5]), numpy.array([0.0, 0.25]), numpy.array([0.0, 2.0]), rng=rng).phenotype(w.pgbig)
        return f
    if name == "G_E_Phenotyping/per-environment replicates":
        def f(w, rng):
            from pybrops.breed.prot.pt.G_E_Phenotyping import G_E_Phenotyping
            return G_E_Phenotyping(w.mod, 3, numpy.array([1, 3, 2]), numpy.array([1.0, 0.0]), numpy.array([0.5, 0.25]), numpy.array([1.0, 2.0]), rng=rng).phenotype(w.pg)
        return f
    raise KeyError(name)


def _samp():
    import pybrops.core.random.sampling as S
    return S


VARIANTS = [m + "/per-cross counts" for m in MATE] + ["G_E_Phenotyping/per-environment replicates", "G_E_Phenotyping/error-free trait, larger population"]
ACCEPT_RNG = MATE + ["G_E_Phenotyping"] + CFGS + ["sus", "tiled_choice", "axis_shuffle", "outcross_shuffle", "SteepestDescentSubsetHillClimber"] + GAS + \
    list(HELPERS) + VARIANTS + list(KEPT)
# copy.deepcopy is only driven for classes that declare their own __deepcopy__ (G_E_Phenotyping shares its generator with the copy);
# a default deep copy of a mating protocol clones the generator object, and whether such a clone must follow later re-seeding
# is not something the property states (counted in ASSUME, not asserted)
PREBUILT = [m + "@" + v for m in ("TwoWayCross", "FourWayDHCross", "SelfCross") for v in ("orig", "copy")] + \
           ["G_E_Phenotyping@" + v for v in ("orig", "copy", "deepcopy", "deepcopy")]
GLOBAL_ONLY = [RAW, "spawn", "apply_jitter", "EMBV", "EMBV/per-taxon counts", "EMBV/per-taxon counts"] + PREBUILT + ["SteepestDescentSubsetHillClimber@shared-problem"] * 3
ALL = ACCEPT_RNG + GLOBAL_ONLY


def site_of(name):
    if name in KEPT:
        return KEPT[name][1] + (".sample_xconfig" if KEPT[name][0] in ("object", "vector") else "")
    if name.startswith("SteepestDescent") and "@" in name:
        return "SteepestDescentSubsetHillClimber.minimize on a problem object shared between runs"
    if "@" in name:
        b, v = name.split("@")
        return "%s.%s via %s made before seeding" % (b, "phenotype" if b == "G_E_Phenotyping" else "mate", {"orig": "object", "copy": "copy.copy", "deepcopy": "copy.deepcopy"}[v])
    if name in HELPERS:
        return HELPERS[name][0].replace("pybrops.", "") + "." + HELPERS[name][1]
    if name.split("/")[0] in MATE:
        return name.split("/")[0] + ".mate"
    if name.startswith("G_E_Phenotyping/"):
        return "G_E_Phenotyping"
    if name.startswith("EMBV"):
        return "EMBV"
    if name in MATE:
        return name + ".mate"
    if name in CFGS:
        return name + ".sample_xconfig"
    if name in GAS or name == "SteepestDescentSubsetHillClimber":
        return name.split("/")[0].split(":")[-1] + ".minimize"
    return name


class Tap:
    """Counts requests for fresh OS entropy while a component runs (explanatory only)."""

    def __enter__(self):
        self.n = 0
        self._rng = numpy.random.default_rng
        self._ur = os.urandom

        def drng(seed=None, *a, **k):
            if seed is None:
                self.n += 1
            return self._rng(seed, *a, **k)

        def ur(n):
            self.n += 1
            return self._ur(n)
        numpy.random.default_rng = drng; os.urandom = ur
        return self

    def __exit__(self, *a):
        numpy.random.default_rng = self._rng; os.urandom = self._ur


def gen_program(g):
    n = int(g.integers(3, 16))
    weights = numpy.array([3.0 if c in MATE else (0.6 if c in GAS else (1.0 if c in HELPERS or c in VARIANTS or c in KEPT else 2.0)) for c in ALL]); weights /= weights.sum()
    return [str(x) for x in g.choice(ALL, n, p=weights)]


def run_program(prog, wseed, seed, prefix, world=None, keep=None):
    """Execute prefix junk, seed the library, run the program with the global generator; returns per-call digests.
    ``world``: re-use these long-lived objects (populations, protocol objects, problem objects) instead of building fresh ones -
    'whatever was executed before the re-seeding' then includes an earlier execution of the same program on the same objects;
    counters of the pre-built mating protocols (documented state that names the progeny) are reset to their initial values."""
    import pybrops.core.random.prng as prng
    pg = numpy.random.Generator(numpy.random.PCG64(prefix))
    import pybrops.core.random.prng as prng
    for _ in range(int(pg.integers(0, 5))):       # different interpreter history before re-seeding
        random.random(); numpy.random.random(int(pg.integers(1, 9)))
    for _ in range(int(pg.integers(0, 4))):       # ... including an odd number of normal deviates (cached second deviate)
        numpy.random.standard_normal(); prng.normal(); random.gauss(0, 1)
    if pg.random() < 0.5:
        numpy.random.standard_normal(); random.gauss(0, 1)
    if prefix % 2:
        w0 = World(wseed + 1)
        try:
            component("TwoWayCross")(w0, None); component("sus")(w0, None)
        except Exception:
            pass
    if world is None:
        w = World(wseed)      # built before seeding: holds protocol objects (and copies of them) made in the old history
    else:
        w = world
        for n_ in MATE:
            for o in w.prebuilt[n_].values():
                o.progeny_counter = 0; o.family_counter = 0
    if keep is not None:
        keep.append(w)
    for name in prog:        # kept option arrays / configuration objects exist before the seeding (private generator, global streams untouched)
        if name in KEPT:
            w.keep(name)
    prng.seed(seed)
    out = []
    taps = []
    mods = []       # per call: caller-owned input arrays the call left modified (explanatory)
    for name in prog:
        own0 = w.owned()
        try:
            with Tap() as t:
                r = component(name)(w, None)
            # the state both global streams are left in is part of what the call "outputs": a call that consumed a
            # different amount of the seeded stream is the culprit, not the call after it
            out.append(dig(r) + "/" + hashlib.sha1(pickle.dumps(gstate())).hexdigest()[:10]); taps.append(t.n)
        except Exception as e:
            out.append("EXC:" + type(e).__name__); taps.append(0)
        own1 = w.owned()
        mods.append(sorted(k for k in own0 if own1.get(k) != own0[k]))
    return out, taps, mods


def case_reseed(ctx, c):
    g = ctx.rng("reseed", c)
    prog = gen_program(g)
    seed = int(g.choice([0, 2 ** 32 - 1, int(g.integers(0, 2 ** 32)), int(g.integers(0, 1000))]))
    wseed = int(g.integers(2 ** 31))
    ctx.case("program", seed, tuple(prog))
    ctx.hook("program re-executed after re-seeding on the same kept option arrays / configuration objects", sum(p in KEPT for p in prog))
    ctx.hook("... of which sampled without replacement for exactly one complete set of the options", sum(p in KEPT and KEPT[p][2].startswith(ONE) for p in prog))
    if c % 23 == 0:
        ctx.sample({"seed": seed, "program": prog})
    a, ta, ma = run_program(prog, wseed, seed, 2 * int(g.integers(1000)))
    kept = []
    b, tb, mb = run_program(prog, wseed, seed, 2 * int(g.integers(1000)) + 1, keep=kept)
    coords = [c, "reseed"]
    _compare(ctx, prog, seed, a, ta, b, tb, coords, "global generator", ma)
    # third execution on the SAME long-lived objects (populations, protocol / configuration objects, option and count arrays) as the second
    c3, t3, m3 = run_program(prog, wseed, seed, 2 * int(g.integers(1000)), world=kept[0])
    _compare(ctx, prog, seed, b, tb, c3, t3, coords, "global generator, same objects re-used after re-seeding", mb)


def _compare(ctx, prog, seed, a, ta, b, tb, coords, icls0, mods):
    """``mods``: per call of the FIRST of the two executions, the caller-owned input arrays it left modified - a modified input does
    not decide anything (output equality does), it names the call that made a later call see other inputs."""
    diverged = False
    modified = sorted({"call %d (%s): %s" % (i, site_of(prog[i]), m) for i in range(len(prog)) for m in mods[i]})
    if modified:
        ctx.sumnote("executions in which a call left a caller-owned input array modified")
    for i, name in enumerate(prog):
        icls = icls0 + ("/kept inputs, " + KEPT[name][2] if name in KEPT else "")
        if a[i].startswith("EXC") and b[i].startswith("EXC"):
            ctx.raised(site_of(name)); continue
        same = a[i] == b[i]
        if diverged and not same:
            ctx.sumnote("downstream divergences (not judged)")   # a later call may differ only because an earlier one consumed the stream differently
            continue
        part = "output" if a[i].split("/")[0] != b[i].split("/")[0] else "state the global streams are left in"
        ctx.check("C08.reseed", same, site_of(name), "identical output after identical re-seeding", icls,
                  what="%s: %s differs between two runs after seed(%d) (fresh-entropy requests during the call: %d/%d%s)" % (
                      site_of(name), part, seed, ta[i], tb[i], "; caller-owned inputs left modified by the earlier execution: " + "; ".join(modified[:3]) if modified else ""),
                  witness={"seed": seed, "program": prog, "call": i, "digests": [a[i], b[i]], "entropy_requests": [ta[i], tb[i]], "inputs_modified": modified[:6]},
                  coords=coords)
        if not same:
            diverged = True


def case_process(ctx, c):
    g = ctx.rng("process", c)
    prog = [p for p in gen_program(g) if p not in GAS][:8] or ["TwoWayCross"]
    if g.random() < 0.3:
        prog.append(str(g.choice(GAS)))
    seed = int(g.integers(0, 2 ** 32)); wseed = int(g.integers(2 ** 31))
    ctx.case("process-program", seed, tuple(prog))
    outs = []
    for hs in ("1", "4242"):
        env = dict(os.environ, PYTHONHASHSEED=hs, PYTHONPATH=VERIF + os.pathsep + os.environ.get("PYTHONPATH", ""))
        p = subprocess.run([sys.executable, "-c",
                            "import json,sys; from pbmon.props import c08; print('RESULT'+json.dumps(c08.run_program(%r,%d,%d,%d)[0]))" % (prog, wseed, seed, int(hs))],
                           env=env, cwd=VERIF, capture_output=True, text=True, timeout=600)
        line = [l for l in p.stdout.splitlines() if l.startswith("RESULT")]
        if not line:
            ctx.raised("fresh interpreter run", RuntimeError(p.stderr[-200:])); return
        outs.append(json.loads(line[0][6:]))
    diverged = False
    for i, name in enumerate(prog):
        same = outs[0][i] == outs[1][i]
        if diverged and not same:
            continue
        if outs[0][i].startswith("EXC") and outs[1][i].startswith("EXC"):
            continue
        ctx.check("C08.process", same, site_of(name), "identical output in two fresh interpreters after identical seeding", "global generator",
                  witness={"seed": seed, "program": prog, "call": i, "digests": [outs[0][i], outs[1][i]]}, coords=[c, "process"])
        if not same:
            diverged = True


def gstate():
    s = numpy.random.get_state()
    return (random.getstate(), s[0], s[1].tobytes(), s[2], s[3], s[4])


def state_diff(s0, s1):
    """which parts of the global state (as returned by gstate) differ"""
    d = set()
    if s0[0][:2] != s1[0][:2]:
        d.add("python stream")
    if s0[0][2] != s1[0][2]:
        d.add("python cached normal deviate")
    if s0[1:4] != s1[1:4]:
        d.add("numpy stream")
    if s0[4:] != s1[4:]:
        d.add("numpy cached normal deviate")
    return d


def case_explicit(ctx, c):
    import pybrops.core.random.prng as prng
    g = ctx.rng("explicit", c)
    name = ACCEPT_RNG[c % len(ACCEPT_RNG)]
    wseed = int(g.integers(2 ** 31)); k = int(g.integers(2 ** 31))
    kind = "Generator" if g.random() < 0.6 else "RandomState"
    if name in GAS and g.random() < 0.3:
        kind = "Generator whose next output word is zero"     # a genuine PCG64 state: whatever is derived from the first draw (e.g. a seed) is 0

    def mk():
        if kind.endswith("zero"):
            from pbmon.gen.advrng import crafted_generator
            return crafted_generator("zero", k % 100000)
        return numpy.random.Generator(numpy.random.PCG64(k)) if kind == "Generator" else numpy.random.RandomState(k)
    ctx.case("explicit:" + name, name, k, kind)
    kcls = "/kept inputs, " + KEPT[name][2] if name in KEPT else ""
    res = []
    untouched = []
    changed = set()
    modified = set()
    v = c // len(ACCEPT_RNG)
    for run, gs in enumerate((int(g.integers(2 ** 31)), int(g.integers(2 ** 31)))):
        prng.seed(gs)
        # global normal draws between the seeding and the judged call: one of the two runs of a case leaves a cached second deviate
        # pending in the NumPy stream (odd number of draws), the other none (even number, possibly zero); likewise - independently -
        # for random.gauss; the whole state tuple including the cached deviates is compared before / after the call
        nn = 2 * int(g.integers(0, 3)) + ((v + run) & 1)
        mm = 2 * int(g.integers(0, 2)) + (((v >> 1) + run) & 1)
        for i in range(nn):
            numpy.random.standard_normal() if i % 2 == 0 else prng.normal()
        for i in range(mm):
            random.gauss(0.0, 1.0)
        ctx.hook("explicit-generator call with a cached normal deviate pending in the global NumPy stream", int(numpy.random.get_state()[3] == 1))
        ctx.hook("explicit-generator call with a cached normal deviate pending in the global Python stream", int(random.getstate()[2] is not None))
        if name in GAS or name.startswith("SteepestDescent"):
            ctx.hook("optimiser with explicit generator, cached normal deviate pending in the global NumPy stream", int(numpy.random.get_state()[3] == 1))
            ctx.hook("optimiser with explicit generator, no cached normal deviate in the global NumPy stream", int(numpy.random.get_state()[3] == 0))
        w = World(wseed)
        # interpreter history before the judged calls: the two runs differ in the global seed AND in what the same component was
        # asked to do earlier with other generators (nothing / a larger request on another population)
        if run == 1 and name not in GAS:
            try:
                component(name, big=True)(World(wseed + 7), numpy.random.Generator(numpy.random.PCG64(k + 1)) if kind == "Generator" else numpy.random.RandomState(k + 1))
                ctx.hook("explicit-generator call preceded by a larger call of the same component")
            except Exception:
                pass
        if name in KEPT:
            w.keep(name)
        own0 = w.owned()
        s0 = gstate()
        try:
            rng_ = mk()
            r = dig(component(name)(w, rng_))        # digested at once: a result that aliases caller-owned memory is judged as returned
            s1 = gstate()
            u1 = s1 == s0
            changed |= state_diff(s0, s1)
            # the same generator handed on to a second call (on the same caller-owned inputs): what the first call left in it is part of its result
            r2 = dig(component(name)(w, rng_)) if name not in GAS else None
            tail = rng_.random(3).tolist()
            # the SAME generator object put back into the state it had before the first call (as a caller who saved
            # bit_generator.state / get_state() would do): the call must give the first result again - anything the generator
            # carries besides its stream state (spawn counters ...) must not matter
            if run == 0 and not kind.endswith("zero"):
                g2 = mk()
                st0 = g2.bit_generator.state if hasattr(g2, "bit_generator") else g2.get_state()
                ra = dig(component(name)(w, g2))
                if hasattr(g2, "bit_generator"):
                    g2.bit_generator.state = st0
                else:
                    g2.set_state(st0)
                rb = dig(component(name)(w, g2))
                own1 = w.owned()
                modified |= {k_ for k_ in own0 if own1.get(k_) != own0[k_]}
                ctx.check("C08.explicit.depends", ra == rb, site_of(name), "result depends only on the supplied generator's stream state",
                          (kind if name not in GAS else "explicit generator") + "/generator object reset to a saved state" + kcls,
                          what="%s: same generator object reset to its saved state, same caller-owned inputs -> different output%s" % (
                              site_of(name), "; inputs left modified by the earlier calls: " + ", ".join(sorted(modified)[:3]) if modified else ""),
                          witness={"component": name, "rng": kind, "state": k, "inputs_modified": sorted(modified)[:6]}, coords=[c, "explicit"])
        except Exception as e:
            ctx.raised(site_of(name) + " (explicit rng)", e); return
        s2 = gstate()
        changed |= state_diff(s0, s2)
        untouched.append(u1 and s2 == s0)
        res.append(dig((r, r2, tail)))
    site = site_of(name)
    gacls = "explicit generator" + ("/subset size at a boundary of the candidate set" if "/" in name else "") + ("/next output word zero" if kind.endswith("zero") else "")
    ctx.check("C08.explicit.depends", res[0] == res[1], site, "result depends only on the supplied generator", (kind if name not in GAS else gacls) + kcls,
              what="%s: same explicit generator state, different global seeds -> different outputs" % site,
              witness={"component": name, "rng": kind, "state": k, "digests": res}, coords=[c, "explicit"])
    # only the pending second deviate of a global stream lost / replaced (the stream words and position are as before): its own input class
    ccls = "/only the cached normal deviate of the global stream changed" if changed and all("cached" in x for x in changed) else ""
    ctx.check("C08.explicit.global", all(untouched), site, "global Python and NumPy streams untouched", (kind if name not in GAS else gacls) + kcls + ccls,
              what="%s: global random/numpy.random state changed although an explicit generator was supplied (changed: %s)" % (site, ", ".join(sorted(changed))),
              witness={"component": name, "rng": kind, "changed": sorted(changed)}, coords=[c, "explicit"])


def run_shard(ctx):
    for c in ctx.case_ids(120, 16 * 800):
        case_reseed(ctx, c)
    for c in ctx.case_ids(12, 16 * 20):
        case_process(ctx, c)
    for c in ctx.case_ids(len(ACCEPT_RNG) * 8, len(ACCEPT_RNG) * 160):
        case_explicit(ctx, c)


def replay(ctx, coords):
    {"reseed": case_reseed, "process": case_process, "explicit": case_explicit}[coords[1]](ctx, int(coords[0]))
