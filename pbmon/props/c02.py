"""C02 - realised recombination and segregation frequencies match the crossover probabilities."""
import numpy

from pbmon import boot  # noqa: F401
from pbmon import stats as ST
from pbmon.gen import pop
from pbmon.oracle import meiosis as MO
from pbmon.props.c01 import PROTOS, proto_class

PROPERTY = "C02"
NSHARDS = {"quick": 6, "thorough": 16}
CLAUSES = {"C02.adjacent": 60, "C02.segregation": 60, "C02.nonadjacent": 60, "C02.independence": 200,
           "C02.exact": 2000, "C02.xoprob": 100, "C02.selfing": 10,
           "C02.role.segregation": 4000, "C02.role.recombination": 800}
HOOKS_REQUIRED = ["mat_meiosis calls", "dense_meiosis calls", "constant uniform() interceptions", "interp_xoprob on a matrix that already carries genetic positions",
                  "crosses whose parents differ in inbred/heterozygous status by role"]
RULE = ("layouts = (chromosome structure, crossover-probability vector or Haldane/Kosambi map, mating protocol) drawn from seeded "
        "classes; per layout >= 3e5 (quick) / 1e6 (thorough) logged meioses of fully heterozygous founders through the real protocols "
        "and dense_dh; exact two-sided binomial tests per interval / locus / marker pair / interval pair, Bonferroni family-wise "
        "alpha 1e-9 over the whole run, confirmation stage (independent seed, 4x sample, alpha 1e-6) before a rejection counts; "
        "deterministic companion: constant-uniform generators must switch exactly at {j: v < xoprob[j]}.  Non-trivial: >= 2 markers; "
        "distinct = digest of the layout.  End-to-end family (no hook, judged on the returned progeny): every protocol x selfing depth 0-2 x "
        "every subset of cross-table roles inbred (the other roles heterozygous), each parental line with its own allele codes; plus "
        "two-cross tables with independent subsets, lines inbred except a heterozygous segment (and the reverse), one line in two roles, "
        "bystander lines; 3e3 (quick) / 4e4 (thorough) independent matings per cross; frequency of every allele code at every marker and "
        "of 'adjacent markers carry different codes' in one harness-picked chromosome copy per progeny against the exact two-locus "
        "distribution derived from the protocol's pedigree and the stored probabilities, same Bonferroni family and confirmation stage.")
ASSUME = ["crossovers of one meiosis are judged conditional on the parent being heterozygous at the loci involved (informative)",
          "non-adjacent expectations use r = (1-exp(-2d))/2 on the genetic positions of the generated Haldane map",
          "a bias smaller than the reported minimum detectable deviation is invisible to the statistical clauses",
          "pedigrees of the end-to-end family, from the protocol definitions: self = parent selfed 1+nself times; two-way = female x male; "
          "three-way = recurrent x (female x male); four-way = (female 2 x male 2) x (female 1 x male 1); then nself selfings, then one doubled "
          "haploid per progeny for the DH protocols; which chromosome copy of a progeny comes from which side is NOT assumed (a copy is picked "
          "at random by the harness); crossover probability 0.5 at every chromosome start in that family"]

LOG = MO.MeiosisLog()


# ---------------------------------------------------------------- layouts
def gen_layout(g, c=None):
    nchr = int(g.integers(1, 5)); m = int(g.integers(max(2, nchr), 41))
    chrgrp = pop.chrom_layout(g, m, nchr)
    st = pop.chrom_starts(chrgrp)
    kind = ["constant", "random", "mixed", "haldane", "haldane", "kosambi", "leading-zeros", "above-half"][int(g.integers(8))]
    if c is not None and c % 4 == 0:
        kind = "haldane"; m = max(m, 8 + nchr); chrgrp = pop.chrom_layout(g, m, nchr); st = pop.chrom_starts(chrgrp)   # guarantees non-adjacent pair tests in every run
    if c is not None and c % 12 == 5:
        kind = "above-half"         # every run holds at least one layout with probabilities above one half
    if c is not None and c % len(PROTOS) < 2 and kind == "leading-zeros":
        kind = "mixed"     # the end-to-end selfing clause needs 0.5 at chromosome starts
    genpos = None
    if kind == "constant":
        xo = numpy.full(m, float(g.choice([0.01, 0.1, 0.25, 0.5]))); xo[st] = 0.5
    elif kind == "random":
        xo = g.uniform(0, 0.5, m); xo[st] = 0.5
    elif kind == "mixed":
        xo = g.uniform(0, 0.5, m); xo[g.random(m) < 0.25] = 0.0; xo[g.random(m) < 0.15] = 0.5; xo[st] = 0.5
    elif kind == "above-half":   # user-supplied probabilities over the whole of [0, 1], obligatory crossovers included
        xo = g.uniform(0, 1.0, m); xo[g.random(m) < 0.15] = 1.0; xo[g.random(m) < 0.1] = 0.75; xo[st] = 0.5
    elif kind == "leading-zeros":   # user-supplied vector: exact zeros in front (also at chromosome starts), positive later
        xo = g.uniform(0.02, 0.5, m); xo[g.random(m) < 0.2] = 0.0; xo[: int(g.integers(1, max(2, m // 3)))] = 0.0
        xo[st & (g.random(m) < 0.5)] = 0.0
    else:
        # a genetic map; crossover probabilities are assigned by the library (interp_xoprob) in collect()
        genpos = numpy.concatenate([numpy.cumsum(g.exponential(0.12, int((chrgrp == c).sum()))) for c in numpy.unique(chrgrp)])
        xo = None
    pname = PROTOS[int(g.integers(len(PROTOS)))][0]
    nself = int(g.choice([0, 0, 1, 2]))
    if c is not None:      # rotate protocols and selfing depths so that even the 12 quick layouts cover every protocol
        pname = PROTOS[c % len(PROTOS)][0]; nself = [1, 0, 2, 0][(c // len(PROTOS)) % 4]
    return dict(m=m, nchr=nchr, chrgrp=chrgrp, start=st, kind=kind, xo=xo, genpos=genpos, proto=pname, nself=nself)


def ntests_of(L):
    m = L["m"]
    n = (m - 1) + m + (m - 1) * (m - 2) // 2
    if L["kind"] == "haldane":
        n += m * (m - 1) // 2
    if L["proto"] in ("SelfCross", "TwoWayCross"):
        n += m          # end-to-end heterozygosity of the returned progeny, per locus
    return n


def build_pop(L):
    """Four fully heterozygous founders (copy 0 all-0, copy 1 all-1): every first-stage meiosis is informative."""
    from pybrops.popgen.gmat.DensePhasedGenotypeMatrix import DensePhasedGenotypeMatrix
    m = L["m"]
    mat = numpy.zeros((2, 4, m), dtype="int8"); mat[1] = 1
    phypos = numpy.arange(1, m + 1, dtype="int64") * 100
    pg = DensePhasedGenotypeMatrix(mat, taxa=numpy.array(["f%d" % i for i in range(4)], dtype=object), taxa_grp=numpy.zeros(4, dtype="int64"),
                                   vrnt_chrgrp=L["chrgrp"].copy(), vrnt_phypos=phypos,
                                   vrnt_genpos=None if L["genpos"] is None else L["genpos"].copy(),
                                   vrnt_xoprob=None if L["xo"] is None else L["xo"].copy())
    pg.group_vrnt()
    if L["xo"] is None:
        from pybrops.popgen.gmap.StandardGeneticMap import StandardGeneticMap
        from pybrops.popgen.gmap.HaldaneMapFunction import HaldaneMapFunction
        from pybrops.popgen.gmap.KosambiMapFunction import KosambiMapFunction
        gmap = StandardGeneticMap(L["chrgrp"].copy(), phypos.copy(), L["genpos"].copy())
        fn = HaldaneMapFunction() if L["kind"] == "haldane" else KosambiMapFunction()
        pg.interp_xoprob(gmap, fn)
    return pg


def expected_xoprob(L):
    """Independent formula for the probabilities a map assigns: map function of consecutive distances, 0.5 at chromosome starts."""
    d = numpy.abs(numpy.diff(L["genpos"], prepend=L["genpos"][0]))
    if L["kind"] == "haldane":
        r = 0.5 * (1.0 - numpy.exp(-2.0 * d))
    else:
        r = 0.5 * numpy.tanh(2.0 * d)
    r[L["start"]] = 0.5
    return r


class Acc:
    def __init__(self, m):
        self.m = m
        self.n_adj = numpy.zeros(m, dtype=numpy.int64); self.k_adj = numpy.zeros(m, dtype=numpy.int64)
        self.n_seg = numpy.zeros(m, dtype=numpy.int64); self.k_seg = numpy.zeros(m, dtype=numpy.int64)
        self.n_pair = numpy.zeros((m, m), dtype=numpy.int64); self.c_pair = numpy.zeros((m, m), dtype=numpy.int64)
        self.n_int = numpy.zeros((m, m), dtype=numpy.int64); self.k_int = numpy.zeros((m, m), dtype=numpy.int64)
        self.gametes = 0
        self.n_prog = 0; self.k_het = numpy.zeros(m, dtype=numpy.int64)

    def add(self, geno, sel, gam):
        P0 = geno[0][sel]; P1 = geno[1][sel]
        inf = P0 != P1
        src = gam == P1
        self.gametes += len(sel)
        both = inf[:, 1:] & inf[:, :-1]
        rec = both & (src[:, 1:] != src[:, :-1])
        self.n_adj[1:] += both.sum(0); self.k_adj[1:] += rec.sum(0)
        self.n_seg += inf.sum(0); self.k_seg += (inf & src).sum(0)
        A = (inf * (2 * src.astype(numpy.int64) - 1)).astype(numpy.float64)   # +1/-1 where informative, 0 elsewhere
        I = inf.astype(numpy.float64)
        self.n_pair += numpy.rint(I.T @ I).astype(numpy.int64)
        self.c_pair += numpy.rint(A.T @ A).astype(numpy.int64)               # concordant - discordant
        V = numpy.zeros(inf.shape, dtype=numpy.float64); X = numpy.zeros(inf.shape, dtype=numpy.float64)
        V[:, 1:] = both; X[:, 1:] = rec
        self.n_int += numpy.rint(V.T @ V).astype(numpy.int64)
        self.k_int += numpy.rint(X.T @ X).astype(numpy.int64)


def collect(L, seed, ngam):
    """Drive the layout's protocol (and dense_dh) until >= ngam first-stage gametes are logged."""
    from pybrops.core.util.mate import dense_dh
    pg = build_pop(L)
    acc = Acc(L["m"])
    rng = numpy.random.Generator(numpy.random.PCG64(seed))
    P = proto_class(L["proto"])(rng=rng)
    npar = P.nparent
    xc = numpy.array([[(i + c) % 4 for i in range(npar)] for c in range(2)], dtype="int64")
    nmeio = 0; ndense = 0
    chunk = 20000
    while acc.gametes < ngam:
        LOG.clear()
        if L["proto"] in ("SelfCross", "TwoWayCross"):
            out = P.mate(pg, xc, 1, chunk // 4, nself=L["nself"])
            # end-to-end (independent of the hook): every founder is heterozygous 0|1, so a progeny locus is heterozygous with
            # probability (1/2)^(1+nself) when both gametes of each selfed individual segregate independently at 1/2
            acc.n_prog += out.mat.shape[1]; acc.k_het += (out.mat[0] != out.mat[1]).sum(0)
        else:
            P.mate(pg, xc, 100, chunk // 400, nself=L["nself"])
        for (geno, sel, xo, gam) in LOG.events:
            acc.add(geno, sel, gam)
        nmeio += len(LOG.events)
        # the path used by the expected-maximum-breeding-value matrix
        LOG.clear()
        dense_dh(pg.mat, numpy.repeat(numpy.arange(4), chunk // 8), pg.vrnt_xoprob, rng)
        for (geno, sel, xo, gam) in LOG.events:
            acc.add(geno, sel, gam)
        ndense += len(LOG.events)
        LOG.clear()
    return pg, acc, nmeio, ndense


def tests(L, xo, acc):
    """Yield (clause, test id, k, n, p) for every planned test of the layout."""
    m = L["m"]
    for j in range(1, m):
        yield ("C02.adjacent", ("adj", j), int(acc.k_adj[j]), int(acc.n_adj[j]), float(min(max(xo[j], 0.0), 1.0)))
    if numpy.all(xo[L["start"]] == 0.5):
        for j in range(m):
            yield ("C02.segregation", ("seg", j), int(acc.k_seg[j]), int(acc.n_seg[j]), 0.5)
    if L["proto"] in ("SelfCross", "TwoWayCross"):
        if numpy.all(xo[L["start"]] == 0.5):
            for j in range(m):
                yield ("C02.selfing", ("het", j), int(acc.k_het[j]), int(acc.n_prog), 0.5 ** (1 + L["nself"]))
    if L["kind"] == "haldane":
        gp = L["genpos"]; ch = L["chrgrp"]
        for i in range(m):
            for j in range(i + 1, m):
                n = int(acc.n_pair[i, j]); k = (n - int(acc.c_pair[i, j])) // 2
                p = 0.5 if ch[i] != ch[j] else 0.5 * (1.0 - float(numpy.exp(-2.0 * abs(gp[j] - gp[i]))))
                yield ("C02.nonadjacent", ("pair", i, j), k, n, p)
    for a in range(1, m):
        for b in range(a + 1, m):
            yield ("C02.independence", ("int", a, b), int(acc.k_int[a, b]), int(acc.n_int[a, b]), float(xo[a] * xo[b]))


def case_stat(ctx, c, level, ngam):
    g = ctx.rng("layout", c)
    L = gen_layout(g, c)
    LOG.install()
    coords = [c, "stat"]
    icls = "%s xoprob" % L["kind"]
    ctx.case("stat:%s/%s/nself=%d" % (L["kind"], L["proto"], L["nself"]), L["chrgrp"], L["xo"], L["genpos"], L["proto"], L["nself"])
    pg, acc, nmeio, ndense = collect(L, int(g.integers(2 ** 62)), ngam)
    ctx.hook("mat_meiosis calls", nmeio); ctx.hook("dense_meiosis calls", ndense)
    xo = numpy.asarray(pg.vrnt_xoprob, dtype=float)
    site = "mat_meiosis/dense_meiosis via %s" % L["proto"]
    if L["genpos"] is not None:
        exp = expected_xoprob(L)
        err = float(numpy.max(numpy.abs(xo - exp)))
        ctx.check("C02.xoprob", err <= 1e-12 and bool(numpy.all(xo[L["start"]] == 0.5)), "interp_xoprob",
                  "vrnt_xoprob == map function of consecutive distances, exactly 0.5 at chromosome starts", icls,
                  witness={"genpos": L["genpos"], "chrgrp": L["chrgrp"], "got": xo, "expected": exp}, coords=coords)
    ctx.sample({"layout": {"markers": L["m"], "chromosomes": L["nchr"], "xoprob": L["kind"], "protocol": L["proto"], "nself": L["nself"]},
                "gametes": acc.gametes, "informative per interval (min,max)": [int(acc.n_adj[1:].min()), int(acc.n_adj[1:].max())]})
    suspects = []
    minp = 1.0
    for clause, tid, k, n, p in tests(L, xo, acc):
        pv = ST.binom_pvalue(k, n, p)
        minp = min(minp, pv)
        if pv < level:
            suspects.append((clause, tid, k, n, p, pv))
        else:
            ctx.ok(clause)
    ctx.maxnote("-log10(min first-stage p)", -numpy.log10(max(minp, 1e-300)))
    ctx.maxnote("min detectable deviation at r=0.5 (99% power)", ST.min_detectable_binom(int(acc.n_adj[1:].min()), 0.5, level))
    ctx.sumnote("gametes observed", acc.gametes)
    ctx.sumnote("statistical tests", ntests_of(L))
    if suspects:
        ctx.sumnote("first-stage rejections", len(suspects))
        _, acc2, nm2, nd2 = collect(L, int(g.integers(2 ** 62)), 4 * ngam)
        second = {tid: (k, n, p) for _, tid, k, n, p in tests(L, xo, acc2)}
        for clause, tid, k, n, p, pv in suspects:
            k2, n2, p2 = second[tid]
            pv2 = ST.binom_pvalue(k2, n2, p2)
            ctx.check(clause, not (pv2 < ST.ALPHA_CONFIRM), site, "frequency == probability (confirmed rejection)", icls,
                      what="%s test %s: first stage %d/%d vs p=%.6g (p-value %.3g), confirmation %d/%d (p-value %.3g)" % (clause, tid, k, n, p, pv, k2, n2, pv2),
                      witness={"layout": {k_: (v.tolist() if hasattr(v, "tolist") else v) for k_, v in L.items()}, "test": tid,
                               "first": [k, n, p, pv], "confirm": [k2, n2, pv2], "xoprob": xo}, coords=coords)


def case_exact(ctx, c):
    """Constant-uniform generator: every gamete switches source between j-1 and j exactly when v < xoprob[j]."""
    g = ctx.rng("exact", c)
    LOG.install()
    name, npar, prefix = PROTOS[int(g.integers(len(PROTOS)))]
    m = int(g.integers(2, 25)); nchr = int(g.integers(1, 4))
    if c % 40 == 7:
        m = int(g.choice([4097, 8193, 9000, 12289]))      # beyond internal block sizes of a vectorised meiosis
    chrgrp = pop.chrom_layout(g, m, nchr)
    xo = pop.make_xoprob(g, chrgrp, ["mixed", "random", "half", "zero", "mixed", "wide"][int(g.integers(6))])
    if g.random() < 0.25:   # leading exact zeros followed by positive entries
        xo[: int(g.integers(1, max(2, m // 2)))] = 0.0
    pos = xo[xo > 0]
    choices = [0.0, float(g.choice(xo)), float(numpy.nextafter(g.choice(xo), 1.0)), 0.25, float(numpy.nextafter(0.5, 0.0)), float(g.uniform(0, 0.5))]
    if len(pos):
        choices.append(float(numpy.nextafter(g.choice(pos), 0.0)))
    v = choices[int(g.integers(len(choices)))]
    from pybrops.popgen.gmat.DensePhasedGenotypeMatrix import DensePhasedGenotypeMatrix
    mat = numpy.zeros((2, 4, m), dtype="int8"); mat[1] = 1
    pg = DensePhasedGenotypeMatrix(mat, taxa=numpy.array(["f%d" % i for i in range(4)], dtype=object), taxa_grp=numpy.zeros(4, dtype="int64"),
                                   vrnt_chrgrp=chrgrp, vrnt_phypos=numpy.arange(1, m + 1, dtype="int64"), vrnt_xoprob=xo)
    pg.group_vrnt()
    rng = _AbsConst(int(g.integers(2 ** 31)), v)
    xc = g.integers(0, 4, (2, npar)).astype("int64")
    nself = int(g.choice([0, 1, 2]))
    coords = [c, "exact"]
    icls = "v==0" if v == 0.0 else ("v equals some xoprob" if v in set(xo.tolist()) else "v generic")
    ctx.case("exact:%s/%s" % (name, icls), name, xo, v, xc, nself)
    LOG.clear()
    try:
        proto_class(name)(rng=rng).mate(pg, xc, 2, 2, nself=nself)
    except Exception as e:
        ctx.raised(name + ".mate (constant generator)", e)
        return
    ctx.hook("constant uniform() interceptions", rng.ncalls)
    if rng.ncalls == 0:
        return  # implementation does not draw through uniform(): clause stays un-evaluated (inconclusive if always)
    want = (v < xo)[1:]
    for (geno, sel, exo, gam) in LOG.events:
        P0 = geno[0][sel]; P1 = geno[1][sel]
        inf = P0 != P1; src = gam == P1
        both = inf[:, 1:] & inf[:, :-1]
        sw = src[:, 1:] != src[:, :-1]
        bad = both & (sw != want[None, :])
        ctx.clauses["C02.exact"] += int(both.sum()) - 1 if both.any() else 0
        ctx.check("C02.exact", not bad.any(), "mat_meiosis", "switch between j-1 and j exactly when draw < xoprob[j]", icls,
                  witness={"protocol": name, "v": v, "xoprob": xo, "bad (row, interval)": numpy.argwhere(bad)[:5]}, coords=coords)


def case_xoprob(ctx, c):
    """Crossover probabilities assigned from a genetic map (both map classes, both map functions, query markers between
    the map's markers): map function of consecutive *interpolated* distances, exactly 0.5 at each chromosome start."""
    from pybrops.popgen.gmat.DensePhasedGenotypeMatrix import DensePhasedGenotypeMatrix
    from pybrops.popgen.gmap.StandardGeneticMap import StandardGeneticMap
    from pybrops.popgen.gmap.ExtendedGeneticMap import ExtendedGeneticMap
    from pybrops.popgen.gmap.HaldaneMapFunction import HaldaneMapFunction
    from pybrops.popgen.gmap.KosambiMapFunction import KosambiMapFunction
    g = ctx.rng("xoprob", c)
    nchr = int(g.integers(1, 5))
    mch, mph, mge, qch, qph, qge = [], [], [], [], [], []
    extr = g.random() < 0.4     # markers beyond the ends of the map: the maps' documented default is linear extrapolation

    def lin(q_, ph_, ge_):
        q_ = numpy.asarray(q_, dtype=float)
        out = numpy.interp(q_, ph_, ge_)
        lo = q_ < ph_[0]; hi = q_ > ph_[-1]
        out[lo] = ge_[0] + (q_[lo] - ph_[0]) * (ge_[1] - ge_[0]) / (ph_[1] - ph_[0])
        out[hi] = ge_[-1] + (q_[hi] - ph_[-1]) * (ge_[-1] - ge_[-2]) / (ph_[-1] - ph_[-2])
        return out
    for ch in range(1, nchr + 1):
        k = int(g.integers(2, 8))
        ph = numpy.sort(g.choice(numpy.arange(30, 2000), k, replace=False)).astype("int64") * 10
        ge = numpy.cumsum(g.exponential(0.15, k))
        nq = int(g.integers(1, 9))
        if extr:
            span = int(ph[-1] - ph[0])
            q = numpy.sort(g.integers(max(1, ph[0] - span // 3 - 50), ph[-1] + span // 3 + 50, nq)).astype("int64")
            if g.random() < 0.6:    # several consecutive markers beyond one end
                q = numpy.unique(numpy.r_[q, ph[-1] + g.integers(1, 200, 3), max(1, ph[0] - int(g.integers(1, 200)))]).astype("int64")
        else:
            q = numpy.sort(g.integers(ph[0], ph[-1] + 1, nq)).astype("int64")   # inside the map's range: interpolation only
        if g.random() < 0.4:
            q = numpy.unique(numpy.r_[q, g.choice(ph, 2)])                   # include some of the map's own markers
        mch += [ch] * k; mph += ph.tolist(); mge += ge.tolist()
        qch += [ch] * len(q); qph += q.tolist(); qge += lin(q, ph, ge).tolist()
    mch = numpy.array(mch, dtype="int64"); mph = numpy.array(mph, dtype="int64"); mge = numpy.array(mge)
    qch = numpy.array(qch, dtype="int64"); qph = numpy.array(qph, dtype="int64"); qge = numpy.array(qge)
    ix = g.permutation(len(mch))
    std = g.random() < 0.5
    cm = std and g.random() < 0.3      # positions declared in centimorgans (documented unit option); the oracle keeps Morgans
    nogroup = g.random() < 0.3      # map left in the user's (arbitrary) row order: auto_group=False is a documented option
    gkw = dict(auto_group=False) if nogroup else {}
    if cm:
        gmap = StandardGeneticMap(mch[ix], mph[ix], mge[ix] * 100.0, vrnt_genpos_units="cM", **gkw)
    else:
        gmap = StandardGeneticMap(mch[ix], mph[ix], mge[ix], **gkw) if std else ExtendedGeneticMap(mch[ix], mph[ix], mph[ix], mge[ix], **gkw)
    hal = g.random() < 0.5
    fn = HaldaneMapFunction() if hal else KosambiMapFunction()
    nq = len(qch)
    icls = "%s/%s" % ("StandardGeneticMap" if std else "ExtendedGeneticMap", "Haldane" if hal else "Kosambi")
    if nogroup:
        icls += "/map rows left ungrouped"
    if cm:
        icls += "/map given in cM"
    if extr:
        icls += "/markers beyond the ends of the map"
    # state of the matrix before the map is applied: fresh; positions/probabilities supplied to the constructor; or already
    # placed on ANOTHER map (a stretched one) by interp_genpos / interp_xoprob - the map handed over now must decide
    hist = int(g.integers(0, 4))
    kw = {}
    if hist == 1:
        kw = dict(vrnt_genpos=numpy.sort(g.uniform(0, 3, nq)), vrnt_xoprob=g.uniform(0, 0.5, nq))
    # the panel as the user holds it: sorted; listed chromosome by chromosome but not by position within them; or in any order -
    # group_vrnt() has to bring it into (chromosome, position) order before probabilities are assigned
    lay = int(g.integers(0, 5))
    if lay in (1, 2):
        o_ = numpy.concatenate([g.permutation(numpy.flatnonzero(qch == ch_)) for ch_ in numpy.unique(qch)])
    elif lay == 3:
        o_ = g.permutation(nq)
    else:
        o_ = numpy.arange(nq)
    if lay in (1, 2, 3):
        icls += "/panel not stored in position order"
        kw = {k_: v_[o_] for k_, v_ in kw.items()}
    pg = DensePhasedGenotypeMatrix(numpy.zeros((2, 2, nq), dtype="int8"), vrnt_chrgrp=qch[o_], vrnt_phypos=qph[o_], **kw)
    pg.group_vrnt()
    if hist >= 2:
        other = StandardGeneticMap(mch[ix], mph[ix], mge[ix] * 2.5 + 0.1) if std else ExtendedGeneticMap(mch[ix], mph[ix], mph[ix], mge[ix] * 2.5 + 0.1)
        try:
            pg.interp_genpos(other) if hist == 2 else pg.interp_xoprob(other, fn)
        except Exception as e:
            ctx.raised("interp_xoprob (earlier map)", e)
            return
    if hist:
        icls += "/matrix already carries positions (%s)" % ["", "constructor", "interp_genpos with another map", "interp_xoprob with another map"][hist]
        ctx.hook("interp_xoprob on a matrix that already carries genetic positions")
    ctx.case("xoprob:" + icls, mch[ix], mph[ix], mge[ix], qch, qph, trivial=nq < 2)
    try:
        pg.interp_xoprob(gmap, fn)
    except Exception as e:
        ctx.raised("interp_xoprob", e)
        return
    d = numpy.abs(numpy.diff(qge, prepend=qge[0]))
    exp = 0.5 * (1.0 - numpy.exp(-2.0 * d)) if hal else 0.5 * numpy.tanh(2.0 * d)
    st = pop.chrom_starts(qch); exp[st] = 0.5
    got = numpy.asarray(pg.vrnt_xoprob, dtype=float)
    ok = got.shape == exp.shape and bool(numpy.all(got[st] == 0.5)) and float(numpy.max(numpy.abs(got - exp))) <= 1e-9 and \
        numpy.array_equal(pg.vrnt_chrgrp, qch) and numpy.array_equal(pg.vrnt_phypos, qph)
    ctx.check("C02.xoprob", ok, "interp_xoprob", "vrnt_xoprob == map function of consecutive distances, exactly 0.5 at chromosome starts", icls,
              witness={"map": [mch[ix], mph[ix], mge[ix]], "query": [qch, qph], "got": got, "expected": exp}, coords=[c, "xoprob"])


class _AbsConst(numpy.random.Generator):
    """uniform() returns the absolute constant v (within [low, high)) for every draw."""

    def __init__(self, seed, v):
        super().__init__(numpy.random.PCG64(seed))
        self.v = numpy.float64(v); self.ncalls = 0

    def uniform(self, low=0.0, high=1.0, size=None):
        self.ncalls += 1
        return self.v if size is None else numpy.full(size, self.v)


def case_dense(ctx, c):
    """Dense marker panels: thousands of markers whose adjacent crossover probabilities are tiny (1e-6 .. 1e-4).  No single interval
    can be tested, but the number of switches pooled over all intervals and gametes is Binomial(n, p) and large."""
    from pybrops.popgen.gmat.DensePhasedGenotypeMatrix import DensePhasedGenotypeMatrix
    from pybrops.core.util.mate import dense_dh
    g = ctx.rng("dense", c)
    LOG.install()
    m = int(g.choice([1200, 2000, 3000])); nchr = int(g.integers(1, 3))
    chrgrp = numpy.sort(g.integers(1, nchr + 1, m)).astype("int64"); chrgrp[0] = 1
    st = pop.chrom_starts(chrgrp)
    p = float(g.choice([2e-6, 5e-6, 1e-5, 1.4e-5, 3e-5, 1e-4]))
    xo = numpy.full(m, p); xo[st] = 0.5
    mat = numpy.zeros((2, 4, m), dtype="int8"); mat[1] = 1
    pg = DensePhasedGenotypeMatrix(mat, taxa=numpy.array(["f%d" % i for i in range(4)], dtype=object), taxa_grp=numpy.zeros(4, dtype="int64"),
                                   vrnt_chrgrp=chrgrp, vrnt_phypos=numpy.arange(1, m + 1, dtype="int64") * 1000, vrnt_xoprob=xo.copy())
    pg.group_vrnt()
    pname = ["TwoWayDHCross", "TwoWayCross", "SelfCross"][c % 3]
    icls = "dense panel, per-interval probability %g (pooled over intervals)" % p
    ctx.case("dense:%s" % icls, m, nchr, p, pname)
    nonstart = ~st

    def run(seed, rounds):
        rng = numpy.random.Generator(numpy.random.PCG64(seed))
        P = proto_class(pname)(rng=rng)
        xc = numpy.array([[(i + c_) % 4 for i in range(P.nparent)] for c_ in range(2)], dtype="int64")
        k = 0; n = 0; ks = 0; ns = 0
        for _ in range(rounds):
            LOG.clear()
            P.mate(pg, xc, 10, 250, nself=0)
            dense_dh(pg.mat, numpy.repeat(numpy.arange(4), 1250), pg.vrnt_xoprob, rng)
            for (geno, sel, exo, gam) in LOG.events:
                P0 = geno[0][sel]; P1 = geno[1][sel]
                inf = P0 != P1
                if not inf.all():
                    continue          # later stages of a protocol work on partly homozygous hybrids: first-stage meioses only
                src = gam == P1
                sw = src[:, 1:] != src[:, :-1]
                k += int(sw[:, nonstart[1:]].sum()); n += int(sw.shape[0]) * int(nonstart[1:].sum())
                ks += int(src[:, 0].sum()); ns += int(src.shape[0])
            LOG.clear()
        return k, n, ks, ns
    level = ST.ALPHA_FAMILY / 64.0
    k, n, ks, ns = run(int(g.integers(2 ** 62)), 2)
    ctx.sumnote("dense-panel interval observations", n)
    site = "mat_meiosis/dense_meiosis via %s" % pname
    for clause, kk, nn, pp, what in (("C02.adjacent", k, n, p, "switches pooled over all intervals"), ("C02.segregation", ks, ns, 0.5, "first marker")):
        pv = ST.binom_pvalue(kk, nn, pp)
        if pv >= level:
            ctx.ok(clause); continue
        k2, n2, ks2, ns2 = run(int(g.integers(2 ** 62)), 8)
        kk2, nn2 = (k2, n2) if clause == "C02.adjacent" else (ks2, ns2)
        pv2 = ST.binom_pvalue(kk2, nn2, pp)
        ctx.check(clause, not (pv2 < ST.ALPHA_CONFIRM), site, "frequency == probability (confirmed rejection)", icls,
                  what="%s (%s): first stage %d/%d vs p=%.6g (p-value %.3g), confirmation %d/%d (p-value %.3g)" % (clause, what, kk, nn, pp, pv, kk2, nn2, pv2),
                  witness={"markers": m, "chromosomes": nchr, "p": p, "protocol": pname, "first": [kk, nn, pv], "confirm": [kk2, nn2, pv2]}, coords=[c, "dense"])


# ---------------------------------------------------------------- parents whose inbred / heterozygous status differs by role
# End-to-end (no hook): whatever the protocol does internally, a progeny chromosome copy is a chain of gametes through the
# pedigree the protocol defines.  Every parental line carries its own allele codes (code 2t on copy 0; 2t+1 on copy 1 where the
# line is heterozygous, 2t again where it is inbred), so the founder copy behind every progeny allele is visible exactly as far
# as the parents' genotypes make it visible, and the frequency of every code at every marker and of "codes of adjacent markers
# differ" follows from the pedigree and the stored crossover probabilities alone.
ROLES = {"SelfCross": ["parent"], "TwoWayCross": ["female", "male"], "TwoWayDHCross": ["female", "male"],
         "ThreeWayCross": ["recurrent", "female", "male"], "ThreeWayDHCross": ["recurrent", "female", "male"],
         "FourWayCross": ["female 2", "male 2", "female 1", "male 1"], "FourWayDHCross": ["female 2", "male 2", "female 1", "male 1"]}
ROLE_CONFIGS = [(name, nself, mask) for name, npar, _ in PROTOS for nself in (0, 1, 2) for mask in range(2 ** npar)]
ROLE_N = {"quick": 3000, "thorough": 40000}
ROLE_VARIANTS = {"quick": 42, "thorough": 2 * len(ROLE_CONFIGS)}


def role_pedigree(name, x, nself):
    """(individual, doubled haploid?) from the protocol definitions; x = line (local index) per cross-table column.
    ("F", t) founder line, ("I", a, b) offspring of two independent individuals, ("S", a) offspring of ONE individual selfed."""
    F = [("F", int(t)) for t in x]
    if name == "SelfCross":
        ind = ("S", F[0])
    elif name.startswith("TwoWay"):
        ind = ("I", F[0], F[1])
    elif name.startswith("ThreeWay"):
        ind = ("I", F[0], ("I", F[1], F[2]))          # recurrent x (female x male)
    else:
        ind = ("I", ("I", F[0], F[1]), ("I", F[2], F[3]))
    for _ in range(nself):
        ind = ("S", ind)
    return ind, name.endswith("DHCross")


_KERNELS = {}


def _kernels(K):
    """0/1 matrices over (two-locus diplotype, haplotype): the gamete keeps one copy at both loci / takes the loci from different copies."""
    if K not in _KERNELS:
        a1, a2, b1, b2 = [v.ravel() for v in numpy.indices((K, K, K, K))]
        rows = numpy.arange(K ** 4)
        same = numpy.zeros((K ** 4, K * K)); cross = numpy.zeros((K ** 4, K * K))
        numpy.add.at(same, (rows, a1 * K + a2), 1.0); numpy.add.at(same, (rows, b1 * K + b2), 1.0)
        numpy.add.at(cross, (rows, a1 * K + b2), 1.0); numpy.add.at(cross, (rows, b1 * K + a2), 1.0)
        _KERNELS[K] = (same, cross)
    return _KERNELS[K]


def role_twolocus(ind, dh, K, r):
    """Exact distribution over (founder copy behind locus j-1, founder copy behind locus j) of one chromosome copy of a progeny
    (a copy picked at random), crossover probability r between the two loci, free assortment of the first one.  Founder copy of
    line t, chromosome copy c is state 2t+c.  Works on distributions over two-locus diplotypes, so that the two gametes united by
    a selfing come from the SAME (random) individual."""
    same, cross = _kernels(K)
    H = K * K

    def dip(x):
        if x[0] == "F":
            D = numpy.zeros((H, H)); D[(2 * x[1]) * K + 2 * x[1], (2 * x[1] + 1) * K + 2 * x[1] + 1] = 1.0
            return D
        if x[0] == "I":
            return numpy.outer(gam(dip(x[1])), gam(dip(x[2])))
        w = dip(x[1]).ravel(); nz = numpy.flatnonzero(w)
        g = 0.5 * (1.0 - r) * same[nz] + 0.5 * r * cross[nz]
        return g.T @ (w[nz, None] * g)

    def gam(D):
        w = D.ravel(); nz = numpy.flatnonzero(w)
        return w[nz] @ (0.5 * (1.0 - r) * same[nz] + 0.5 * r * cross[nz])
    D = dip(ind)
    P = gam(D) if dh else 0.5 * (D.sum(0) + D.sum(1))
    return P.reshape(K, K)


def gen_roles(g, c):
    """Case c < len(ROLE_CONFIGS): one cross, (protocol, selfing depth, subset of roles inbred) enumerated exhaustively.  Later cases
    ('variants'): two crosses in one table with independent random subsets, lines that are inbred except for a heterozygous segment
    (or the reverse), and one line standing in two roles (back-cross like tables)."""
    variant = c >= len(ROLE_CONFIGS)
    nchr = int(g.integers(1, 4)); m = int(g.integers(max(3, nchr), 15))
    chrgrp = pop.chrom_layout(g, m, nchr); st = pop.chrom_starts(chrgrp)
    kind = ["constant", "random", "mixed", "above-half", "small"][int(g.integers(5))]
    if kind == "constant":
        xo = numpy.full(m, float(g.choice([0.01, 0.1, 0.25, 0.5])))
    elif kind == "random":
        xo = g.uniform(0, 0.5, m)
    elif kind == "mixed":
        xo = g.uniform(0, 0.5, m); xo[g.random(m) < 0.2] = 0.0; xo[g.random(m) < 0.15] = 0.5
    elif kind == "above-half":
        xo = g.uniform(0, 1.0, m); xo[g.random(m) < 0.15] = 1.0
    else:
        xo = g.uniform(0.001, 0.05, m)
    xo[st] = 0.5
    if not variant:
        name, nself, mask = ROLE_CONFIGS[c]
        rows = [(numpy.arange(len(ROLES[name])), mask)]
    else:
        name = PROTOS[int(g.integers(len(PROTOS)))][0]; nself = int(g.integers(0, 3))
        npar = len(ROLES[name])
        rows = [(numpy.arange(npar) + 4 * i, int(g.integers(2 ** npar))) for i in range(2)]
    ntaxa = 4 * len(rows) + int(g.integers(0, 3))
    perm = g.permutation(ntaxa)                # which lines of the population stand in the table
    het = numpy.zeros((ntaxa, m), dtype=bool)
    het[perm[4 * len(rows):]] = g.random((ntaxa - 4 * len(rows), m)) < 0.5         # bystanders that are in no cross
    xrows = []; desc = []
    for x, mask in rows:
        x = perm[x].copy()
        shared = None
        if variant and len(x) > 1 and g.random() < 0.3:
            a, b = g.choice(len(x), 2, replace=False); x[b] = x[a]; shared = (int(min(a, b)), int(max(a, b)))
        words = {}
        for i, t in enumerate(x):
            if shared is not None and i == shared[1]:
                continue
            inbred = bool(mask >> i & 1)
            het[t] = not inbred
            w = "inbred" if inbred else "heterozygous"
            if variant and m >= 4 and g.random() < 0.3:     # residual heterozygosity / a fixed segment
                lo = int(g.integers(0, m - 1)); hi = int(g.integers(lo + 1, m))
                het[t, lo:hi] = inbred
                w = "inbred except a heterozygous segment" if inbred else "heterozygous except a fixed segment"
            words.setdefault(w, []).append(ROLES[name][i] + ("" if shared is None or i != shared[0] else " (= %s)" % ROLES[name][shared[1]]))
        xrows.append(x)
        desc.append("; ".join("%s: %s" % (w, ",".join(words[w])) for w in sorted(words)))
    return dict(m=m, nchr=nchr, chrgrp=chrgrp, start=st, kind=kind, xo=xo, proto=name, nself=nself, ntaxa=ntaxa, het=het,
                xc=numpy.array(xrows, dtype="int64"), desc=desc, variant=variant)


def role_ntests(R):
    return sum(int(sum(1 + R["het"][t].astype(int) for t in set(x.tolist())).sum()) + R["m"] - 1 for x in R["xc"])


def role_expect(R, i):
    """[(clause, test id, selector of the counted event, p)] for cross row i, from the pedigree and the stored probabilities."""
    x = R["xc"][i]; m = R["m"]; xo = R["xo"]
    u = sorted(set(x.tolist()))
    K = 2 * len(u)
    ind, dh = role_pedigree(R["proto"], [u.index(t) for t in x.tolist()], R["nself"])
    code = numpy.array([[2 * t + (1 if (cp and R["het"][t, j]) else 0) for t in u for cp in (0, 1)] for j in range(m)])   # (m, K)
    cache = {}
    out = []
    marg = None
    for j in range(1, m):
        r = float(xo[j])
        if r not in cache:
            cache[r] = role_twolocus(ind, dh, K, r)
        P = cache[r]
        if marg is None:
            marg = P.sum(1)
        p = float(P[code[j - 1][:, None] != code[j][None, :]].sum())
        out.append(("C02.role.recombination", ("rowdiff", i, j), p))
    if marg is None:
        marg = role_twolocus(ind, dh, K, 0.5).sum(1)
    for j in range(m):
        for cd in sorted(set(code[j].tolist())):
            out.append(("C02.role.segregation", ("code", i, j, int(cd)), float(min(1.0, marg[code[j] == cd].sum()))))
    return out


def role_collect(R, seed, n):
    """One mate() call: n independent matings per cross row, one progeny each; per progeny one chromosome copy picked by the harness."""
    from pybrops.popgen.gmat.DensePhasedGenotypeMatrix import DensePhasedGenotypeMatrix
    m = R["m"]; nt = R["ntaxa"]
    mat = numpy.zeros((2, nt, m), dtype="int8")
    mat[0] = 2 * numpy.arange(nt)[:, None]; mat[1] = mat[0] + R["het"]
    pg = DensePhasedGenotypeMatrix(mat, taxa=numpy.array(["l%d" % i for i in range(nt)], dtype=object), taxa_grp=numpy.zeros(nt, dtype="int64"),
                                   vrnt_chrgrp=R["chrgrp"].copy(), vrnt_phypos=numpy.arange(1, m + 1, dtype="int64") * 100, vrnt_xoprob=R["xo"].copy())
    pg.group_vrnt()
    rng = numpy.random.Generator(numpy.random.PCG64(seed))
    out = proto_class(R["proto"])(rng=rng).mate(pg, R["xc"].copy(), n, 1, nself=R["nself"])
    pm = numpy.asarray(out.mat)
    pick = numpy.random.Generator(numpy.random.PCG64([seed, 1])).integers(0, 2, pm.shape[1]).astype(bool)
    obs = numpy.where(pick[:, None], pm[1], pm[0]).astype(numpy.int64)
    res = {}
    for i, x in enumerate(R["xc"]):
        # the cross a progeny belongs to is read from its alleles (lines of different crosses are disjoint)
        h = obs[numpy.isin(obs[:, 0] // 2, x)]
        res[i] = h
    return res, pm.shape[1]


def role_counts(R, obs, expect):
    for clause, tid, p in expect:
        h = obs[tid[1]]
        if tid[0] == "rowdiff":
            k = int((h[:, tid[2] - 1] != h[:, tid[2]]).sum())
        else:
            k = int((h[:, tid[2]] == tid[3]).sum())
        yield clause, tid, k, int(h.shape[0]), p


def case_roles(ctx, c, level):
    g = ctx.rng("roles", c)
    R = gen_roles(g, c)
    coords = [c, "roles"]
    n = ROLE_N[ctx.tier]
    ctx.case("roles:%s/nself=%d/%s" % (R["proto"], R["nself"], " | ".join(R["desc"])), R["chrgrp"], R["xo"], R["proto"], R["nself"], R["xc"], R["het"])
    site = "%s.mate (progeny alleles, end to end)" % R["proto"]
    expect = [e for i in range(len(R["xc"])) for e in role_expect(R, i)]
    try:
        obs, nprog = role_collect(R, int(g.integers(2 ** 62)), n)
    except Exception as e:
        ctx.raised(R["proto"] + ".mate (parents inbred by role)", e)
        return
    ctx.hook("crosses whose parents differ in inbred/heterozygous status by role", len(R["xc"]))
    if c % 29 == 0:
        ctx.sample({"roles": {"protocol": R["proto"], "nself": R["nself"], "xconfig": R["xc"].tolist(), "status": R["desc"], "markers": R["m"],
                              "xoprob": R["kind"]}, "progeny": nprog})
    ctx.sumnote("progeny of crosses with role-specific parent status", nprog)
    ctx.sumnote("statistical tests", len(expect))
    suspects = []
    for clause, tid, k, nn, p in role_counts(R, obs, expect):
        pv = ST.binom_pvalue(k, nn, p)
        if pv < level:
            suspects.append((clause, tid, k, nn, p, pv))
        else:
            ctx.ok(clause)
    if suspects:
        ctx.sumnote("first-stage rejections", len(suspects))
        obs2, _ = role_collect(R, int(g.integers(2 ** 62)), 4 * n)
        second = {tid: (k, nn, p) for _, tid, k, nn, p in role_counts(R, obs2, expect)}
        seen = set()
        for clause, tid, k, nn, p, pv in suspects:
            k2, n2, p2 = second[tid]
            pv2 = ST.binom_pvalue(k2, n2, p2)
            icls = "parents " + R["desc"][tid[1]]
            bad = pv2 < ST.ALPHA_CONFIRM
            if bad and (clause, icls) in seen:
                continue            # one report per clause and parent class; the others are the same finding
            if bad:
                seen.add((clause, icls))
            ctx.check(clause, not bad, site, "frequency == probability derived from the pedigree (confirmed rejection)", icls,
                      what="%s %s, nself=%d, cross %s, test %s: first stage %d/%d vs p=%.6g (p-value %.3g), confirmation %d/%d (p-value %.3g)" % (
                          clause, R["proto"], R["nself"], R["xc"][tid[1]].tolist(), tid, k, nn, p, pv, k2, n2, pv2),
                      witness={"protocol": R["proto"], "nself": R["nself"], "xconfig": R["xc"], "heterozygous (line, marker)": R["het"].astype(int),
                               "xoprob": R["xo"], "chrgrp": R["chrgrp"], "test": tid, "first": [k, nn, p, pv], "confirm": [k2, n2, pv2]}, coords=coords)


def role_total(ctx):
    return len(ROLE_CONFIGS) + ROLE_VARIANTS[ctx.tier]


def plan(ctx):
    qn, tn = 12, 192
    ids = list(ctx.case_ids(qn, tn))
    total = qn if ctx.tier == "quick" else tn
    # family size over the WHOLE run (all shards), known before sampling: layouts are a pure function of the case number
    ntot = sum(ntests_of(gen_layout(ctx.rng("layout", c), c)) for c in range(total))
    ntot += sum(role_ntests(gen_roles(ctx.rng("roles", c), c)) for c in range(role_total(ctx)))
    return ids, ST.ALPHA_FAMILY / max(1, ntot), ntot


def run_shard(ctx):
    ids, level, ntot = plan(ctx)
    ctx.note("per-test level (Bonferroni)", level); ctx.note("tests planned in this run", ntot)
    ngam = 300000 if ctx.tier == "quick" else 1000000
    for c in ids:
        case_stat(ctx, c, level, ngam)
    for c in ctx.case_ids(400, 16000):
        case_exact(ctx, c)
    for c in ctx.case_ids(300, 8000):
        case_xoprob(ctx, c)
    for c in ctx.case_ids(6, 64):
        case_dense(ctx, c)
    for c in ctx.case_ids(len(ROLE_CONFIGS) + ROLE_VARIANTS["quick"], len(ROLE_CONFIGS) + ROLE_VARIANTS["thorough"]):
        case_roles(ctx, c, level)


def replay(ctx, coords):
    if coords[1] == "exact":
        case_exact(ctx, int(coords[0]))
    elif coords[1] == "xoprob":
        case_xoprob(ctx, int(coords[0]))
    elif coords[1] == "dense":
        case_dense(ctx, int(coords[0]))
    elif coords[1] == "roles":
        ids, level, ntot = plan(ctx)
        case_roles(ctx, int(coords[0]), level)
    else:
        ids, level, ntot = plan(ctx)
        case_stat(ctx, int(coords[0]), level, 300000 if ctx.tier == "quick" else 1000000)
