"""C18 - haplotype-block values conserve genomic value and bound progeny.

Families: helpers (nhaploblk_chrom / haplobin / haplobin_bounds / haplomat, incl. dtype and memory-layout variants), problems
(OHV in four encodings, OPV, genotype builder; built by from_pgmat_gpmod or by the selection protocols' problem(); models with
u_misc and several fixed effects), lifecycle (long-lived problem objects changed through setters, in-place writes and copies;
every evaluation judged on the current public state), protocols (one selection protocol object - OPV, GB, OHV in four
encodings - or one problem factory asked for its problem 3-6 times with one input changed between the calls; every returned problem
judged on the inputs of its own call, earlier problems re-scored afterwards)."""
import inspect

import numpy

from pbmon import boot  # noqa: F401
from pbmon import hooks
from pbmon.oracle import haploblocks as O

PROPERTY = "C18"
NSHARDS = {"quick": 4, "thorough": 16}
CLAUSES = {   # minimum evaluations per run (about a fifth of what a quick run makes on the unchanged tree)
    "C18.partition.apportion": 50000, "C18.partition.labels": 30000, "C18.partition.chrom": 15000,
    "C18.partition.count": 15000, "C18.partition.bounds": 50000,
    "C18.blockvalue": 10000, "C18.conservation": 5000,
    "C18.ohv": 3000, "C18.ohv.latentfn": 2000, "C18.opv": 1000, "C18.gb": 1000,
    "C18.bound": 3000, "C18.finite": 10000,
    "C18.partition.order": 8000,
    "C18.state.latentfn": 12000, "C18.state.evalfn": 15000, "C18.state.props": 7000,
    "C18.repeat.state": 5000, "C18.repeat.latentfn": 5000, "C18.repeat.earlier": 1500,
}
HOOKS_REQUIRED = ["haplobin<-haplomat", "haplobin<-OptimalHaploidValueSelectionProblemMixin._calc_haplomat",
                  "haplobin<-OptimalPopulationValueSelectionProblemMixin._calc_haplomat",
                  "haplobin<-GenotypeBuilderSelectionProblemMixin._calc_haplomat",
                  "haplobin_bounds<-haplomat", "nhaploblk_chrom<-haplomat", "problem built by a selection protocol"]
RULE = ("seeded class-based marker layouts: 1-4 chromosomes (non-consecutive labels) of 1-16 markers; position classes even, "
        "clustered (equal-width bins left empty), lattice positions exactly on bin edges, coincident positions (incl. zero-length "
        "chromosomes), single-marker chromosomes, random, offset/rescaled (1e6 offsets, cM scale), unequal (long chromosome with "
        "few markers), mixed; block totals nchr, nchr+1, m-1, m and uniform in between; haplobin also driven with harness-made "
        "apportionments; genotypes 1-4 phases x 1-8 taxa (random, sparse, duplicated taxa, constant); effects 1-3 traits (gaussian, "
        "small integers = exact arithmetic, all-negative, 12 decades of magnitude, zeros); OHV crosses of 1-4 parents with and "
        "without repeated parents in the four encodings, chunk sizes 1..None; OPV/GB subsets of 1..n taxa; genomic models with 1-3 "
        "fixed effects, u_misc absent / empty / 1-3 misc random effects, u_a in C, Fortran, strided and negative-stride layouts; genotype "
        "matrices as a user may hold them before grouping: vrnt_phypos / vrnt_name / vrnt_xoprob / taxa_grp present or absent in every "
        "combination, chromosomes descending / in random order / interleaved in storage (with vrnt_phypos also markers shuffled or "
        "reversed), chromosome labels 1..11, 0-based, {3,7,19,40}, negative and 2**40; grouped by group_vrnt / group(axis) / sort_vrnt+"
        "group_vrnt / twice, then optionally deep/shallow copied or taxa-permuted by select_taxa; 12% also submitted ungrouped; "
        "factories given decision spaces that are the whole population, a strict subset of the taxa / crosses (candidate lists; for the "
        "real/integer/binary encodings zero upper bounds), a permutation or the reverse, candidates drawn from that space; "
        "30% of the problems built by the selection "
        "protocols' problem(); haplomat() also with float32/int64 effects and int64/uint8/bool/float64 genomes; family 'lifecycle': "
        "long-lived OPV/GB/OHV(4 encodings) objects built by constructor (arbitrary float64/float32/int64 state in hostile layouts) or "
        "from_pgmat_gpmod, then 2-5 operations out of {state setter same shape / other ploidy+block count, in-place write, obj_wt "
        "setter, nbestfndr setter, deep/shallow copy then change the copy, re-evaluate}, each followed by latentfn, evalfn and pymoo "
        "_evaluate (one solution and a population) judged on the object's current public state; family 'protocols': one "
        "OptimalPopulationValue / GenotypeBuilder / OptimalHaploidValue{Subset,Real,Integer,Binary}Selection object (75%) or the "
        "matching from_pgmat_gpmod factory with the same matrix object (25%) is asked for its problem 3-6 times (>= 2 taxa); between two "
        "calls one of: model replaced by a new object, gpmod.u_a written in place / reassigned through the setter, nhaploblk changed "
        "(lowest, highest, random admissible total), genotype matrix replaced (new object, deep copy then written, select_taxa of "
        "a subset/permutation), pgmat.mat written in place, nparent / unique_parents / nbestfndr changed through the protocol's "
        "setters, protocol deep/shallow copied, nothing changed; each returned problem's haplomat / ohvmat / decn_space_xmap / "
        "ndecn / nbestfndr and two latentfn scores (OPV also the doubled-haploid bound) are judged on the inputs of that call, and "
        "one earlier problem whose inputs were not written in place since is re-scored on the inputs of its own call.  Non-trivial: >= 2 "
        "markers and >= 1 block boundary possible (nblk >= 2); distinct = digest of positions, chromosome sizes, block total, "
        "genotypes and effects.")
ASSUME = [
    "valid input = markers grouped by chromosome and sorted by genetic position within it (ties allowed), nchr <= nhaploblk <= #markers",
    "block value = additive value of the block's markers (allele codes 0/1 times u_a); the intercept is not part of it",
    "ohvmat rows follow decn_space_xmap (row c = cross whose parents are xmap[c]); latentfn returns the NEGATED value "
    "(minimisation convention): subset OHV = -mean of the selected crosses' OHV, real/integer/binary OHV = -(x/sum x).ohvmat, "
    "OPV = -ploidy*sum_blocks max over (phase, selected taxa)",
    "genotype builder (docstring): -ploidy/nbestfndr * sum over blocks of the nbestfndr largest per-taxon best-phase block values "
    "among the selected taxa; with nbestfndr = 1 this is the OPV of the statement",
    "the order of the block axis of haplomat is not constrained by the statement: any one-to-one placement of the block values is accepted",
    "label values returned by haplobin are not constrained beyond being non-decreasing (gaps in the numbering are accepted)",
    "the oracle is defined on (chromosome, genetic position), not on storage order: without vrnt_phypos a valid stored layout is ascending "
    "in position inside every chromosome (the library can only sort by chromosome, stably); with vrnt_phypos (strictly increasing with "
    "position inside a chromosome) any storage order is valid; after grouping the markers must be in chromosome/position order with their "
    "genotypes and labels attached (identity carried in vrnt_hapgrp); the model's u_a follows the grouped marker order",
    "factories reject ungrouped matrices (documented; counted as raised); one that accepts must still conserve every copy's additive value",
    "a decision space lists eligible candidates only: prob.haplomat / ohvmat keep the whole population in taxon (cross) order and "
    "candidates are population taxon (cross) indices, whatever the decision space is",
    "block values use the additive marker effects u_a only: fixed effects (beta) and misc random effects (u_misc) belong to no marker",
    "a problem object's public state is what its getters return now (haplomat / ohvmat / nbestfndr / obj_wt), whether it was assigned "
    "through a setter or written in place through the returned array; evalfn/_evaluate with the default identity transformation give "
    "obj_wt * latent vector; results in float32 state are compared with 64*eps32 relative tolerance",
    "selection protocols' problem() is in-domain for >= 2 taxa and nbestfndr <= nparent*ncross",
    "a problem returned by protocol.problem(pgmat, ..., gpmod, ...) or from_pgmat_gpmod answers for the public state of pgmat, gpmod and "
    "the protocol attributes AT THE TIME OF THAT CALL, however often and with whatever inputs the same objects were used before; a problem "
    "already returned keeps answering for the inputs of its own call (re-scored only while those input objects were not written in place)",
    "when a call does not go through the hooked partition helpers, the reference partition is the one the helpers return for the same "
    "(positions, chromosome bounds, nhaploblk) in a direct call (they are deterministic functions), itself judged by the partition clauses",
]
TRUSTED = ["pbmon.oracle.haploblocks (marker-by-marker sums, mosaic-haplotype enumeration)"]

TRACE = []
_STATE = {}


# ---------------------------------------------------------------- hooks (recorders on the three helpers, wherever they are bound)
def setup():
    if _STATE:
        return _STATE
    import pybrops.core.util.haplo as H
    import pybrops.breed.prot.sel.prob.OptimalHaploidValueSelectionProblem as MOHV
    import pybrops.breed.prot.sel.prob.OptimalPopulationValueSelectionProblem as MOPV
    import pybrops.breed.prot.sel.prob.GenotypeBuilderSelectionProblem as MGB
    from pybrops.popgen.gmat.DensePhasedGenotypeMatrix import DensePhasedGenotypeMatrix
    from pybrops.model.gmod.DenseAdditiveLinearGenomicModel import DenseAdditiveLinearGenomicModel
    sigs = {}
    for name in ("nhaploblk_chrom", "haplobin", "haplobin_bounds"):
        orig = getattr(H, name)
        assert boot.under_repo(orig), name
        sigs[name] = inspect.signature(orig)

        def on_call(a, k, r, name=name):
            TRACE.append((name, sigs[name].bind(*a, **k).arguments, r))
        hooks.rebind(orig, hooks.recording(orig, name, on_call))
    import pybrops.breed.prot.sel.OptimalHaploidValueSelection as POHV
    import pybrops.breed.prot.sel.OptimalPopulationValueSelection as POPV
    import pybrops.breed.prot.sel.GenotypeBuilderSelection as PGB
    _STATE.update(H=H, MOHV=MOHV, MOPV=MOPV, MGB=MGB, PG=DensePhasedGenotypeMatrix, GM=DenseAdditiveLinearGenomicModel,
                  POHV=POHV, POPV=POPV, PGB=PGB)
    return _STATE


def defsite(cls, attr):
    """Name of the class in the MRO that defines ``attr`` (finding keys name the implementing class)."""
    for k in cls.__mro__:
        if attr in vars(k):
            return "%s.%s" % (k.__name__, attr)
    return "%s.%s" % (cls.__name__, attr)


# ---------------------------------------------------------------- generators
KINDS = ["even", "clustered", "boundary", "ties", "random", "offset"]


def chrom_positions(g, kind, L):
    if L == 1:
        return numpy.array([float(g.choice([0.0, 0.3, 1.7, 250.0]))])
    if kind == "even":
        return numpy.linspace(0.0, float(g.choice([1.0, 0.5, 2.0, 1.5, L - 1.0])), L)
    if kind == "clustered":
        mode = int(g.integers(0, 3))
        nfar = int(g.integers(1, max(2, L // 3 + 1)))
        near = g.uniform(0, 0.02, L - nfar)
        if mode == 2 and L >= 4:    # two clusters, empty middle
            far = 1.0 - g.uniform(0, 0.02, nfar)
        else:
            far = g.uniform(0.7, 1.0, nfar)
        x = numpy.sort(numpy.r_[near, far])
        return numpy.sort(1.0 - x) if mode == 1 else x
    if kind == "boundary":      # lattice points k/q of the span: markers sit exactly on equal-width bin edges
        q = int(g.choice([2, 3, 4, 5, 6, 8]))
        k = numpy.sort(g.integers(0, q + 1, L))
        if g.random() < 0.7:
            k[0] = 0; k[-1] = q
        return k / q * float(g.choice([1.0, 2.0, 0.5, 3.0]))
    if kind == "ties":
        if g.random() < 0.25:
            return numpy.repeat(float(g.choice([0.0, 0.4])), L)     # zero genetic length
        pool = numpy.sort(g.uniform(0, 1, int(g.integers(2, 4))))
        return numpy.sort(g.choice(pool, L))
    if kind == "random":
        return numpy.sort(g.uniform(0, 2, L))
    if kind == "offset":
        return numpy.sort(g.uniform(0, 1, L)) * float(g.choice([1.0, 100.0, 0.01])) + float(g.choice([1e3, 1e6, -50.0]))
    raise ValueError(kind)


def gen_layout(g):
    cls = str(g.choice(KINDS + ["single", "unequal", "mixed"]))
    nchr = int(g.integers(1, 5))
    big = g.random() < 0.15
    lens = [int(g.integers(1, 17 if big else 9)) for _ in range(nchr)]
    if cls == "single":
        lens = [1 if g.random() < 0.6 else L for L in lens]
    if cls == "unequal" and nchr >= 2:
        lens[0] = int(g.integers(1, 3)); lens[1] = max(lens[1], 5)
    pos = []
    for c, L in enumerate(lens):
        kind = cls if cls in KINDS else str(g.choice(KINDS))
        x = chrom_positions(g, kind, L)
        if cls == "unequal" and nchr >= 2:
            x = (numpy.array([0.0, 5.0])[:L] if c == 0 else numpy.sort(g.uniform(0, 0.3, L)))
        pos.append(numpy.asarray(x, dtype=float))
    genpos = numpy.concatenate(pos)
    spix = numpy.cumsum(lens).astype(int)
    stix = spix - numpy.array(lens, dtype=int)
    m = int(spix[-1])
    pool = [numpy.arange(1, 12), numpy.arange(0, 6), numpy.array([3, 7, 19, 40]), numpy.array([-2, 0, 5, 1000, 2 ** 40])][int(g.choice([0, 0, 1, 2, 3]))]
    labels = numpy.sort(g.choice(pool, nchr, replace=False))
    chrgrp = numpy.repeat(labels, lens).astype("int64")
    r = g.random()
    if r < 0.2:
        nblk = nchr
    elif r < 0.4:
        nblk = m
    elif r < 0.5:
        nblk = max(nchr, m - 1)
    elif r < 0.6:
        nblk = min(m, nchr + 1)
    else:
        nblk = int(g.integers(nchr, m + 1))
    return {"class": cls, "genpos": genpos, "stix": stix, "spix": spix, "lens": numpy.array(lens, dtype=int), "chrgrp": chrgrp,
            "nblk": int(nblk), "m": m, "nchr": nchr}


def gen_values(g, m):
    nph = int(g.choice([2, 2, 2, 2, 1, 3, 4]))
    n = int(g.integers(1, 9))
    gk = int(g.integers(0, 5))
    if gk == 0:
        G = (g.random((nph, n, m)) < 0.15)
    elif gk == 1:
        G = numpy.repeat(g.integers(0, 2, (nph, 1, m)), n, axis=1)      # duplicated taxa
    elif gk == 2:
        G = numpy.full((nph, n, m), int(g.integers(0, 2)))              # constant
    else:
        G = g.integers(0, 2, (nph, n, m))
    G = numpy.ascontiguousarray(G).astype("int8")
    t = int(g.integers(1, 4))
    uk = str(g.choice(["gauss", "gauss", "integers", "negative", "decades", "zeros"]))
    if uk == "gauss":
        u = g.normal(size=(m, t))
    elif uk == "integers":
        u = g.integers(-3, 4, (m, t)).astype(float)
    elif uk == "negative":
        u = -numpy.abs(g.normal(size=(m, t))) - 0.05
    elif uk == "decades":
        u = g.choice([-1.0, 1.0], (m, t)) * 10.0 ** g.uniform(-6, 6, (m, t))
    else:
        u = g.normal(size=(m, t)) * (g.random((m, t)) < 0.4)
    return nph, n, G, numpy.ascontiguousarray(u, dtype=float), uk


def relayout(g, a):
    """Same values, hostile memory layout: C copy, Fortran order, strided view of a larger array, reversed-stride view."""
    r = int(g.integers(0, 6))
    if r < 3 or a.ndim < 2:
        return numpy.ascontiguousarray(a), "C"
    if r == 3:
        return numpy.asfortranarray(a), "F"
    if r == 4:
        big = numpy.zeros((a.shape[0] * 2,) + a.shape[1:], dtype=a.dtype)
        big[::2] = a
        return big[::2], "strided"
    big = numpy.ascontiguousarray(a[..., ::-1])
    return big[..., ::-1], "negative stride"


def gen_model(g, S, u):
    """Additive linear model around the marker effects u: 1-3 fixed effects, u_misc absent (None), empty, or 1-3 misc
    random effects (which belong to no marker and must not enter any block value)."""
    t = u.shape[1]
    q = int(g.choice([1, 1, 2, 3]))
    r = g.random()
    if r < 0.4:
        um, mcls = None, ""
    elif r < 0.5:
        um, mcls = numpy.empty((0, t), dtype=float), ""
    else:
        k = int(g.integers(1, 4))
        um = g.normal(size=(k, t)) * float(g.choice([1.0, 1.0, 50.0]))
        mcls = "/model with u_misc"
    ua, lay = relayout(g, u.copy())
    mod = S["GM"](beta=g.normal(size=(q, t)) * 3.0, u_misc=um, u_a=ua,
                  trait=numpy.array(["y%d" % i for i in range(t)], dtype=object), model_name="m")
    return mod, mcls, {"beta_rows": q, "u_misc_rows": 0 if um is None else int(um.shape[0]), "u_a_layout": lay}


def dtype_rtol(*dts):
    """Relative tolerance for results computed in the given dtypes (float64: RTOL; float32: 64 eps32)."""
    r = O.RTOL
    for d in dts:
        d = numpy.dtype(d)
        if d.kind == "f" and d.itemsize < 8:
            r = max(r, 64.0 * float(numpy.finfo(d).eps))
    return r


def user_storage(g, L):
    """How a user may hold a valid marker layout before the library groups it.  Returns (perm, mode, has_phypos, phypos):
    perm[s] = canonical (chromosome, position) index of the marker stored at s.  Without vrnt_phypos the library can only
    sort by chromosome (stably), so the within-chromosome storage order is ascending in position; with vrnt_phypos
    (strictly increasing with position inside a chromosome) any storage order is valid."""
    m = L["m"]
    has_phypos = bool(g.random() < 0.55)
    modes = ["grouped", "chromosomes descending", "chromosomes in random order", "chromosomes interleaved", "chromosomes interleaved"]
    if has_phypos:
        modes += ["markers shuffled", "markers shuffled", "markers reversed"]
    mode = str(g.choice(modes))
    segs = [list(range(int(a), int(b))) for a, b in zip(L["stix"], L["spix"])]
    if L["nchr"] == 1 and mode.startswith("chromosomes"):
        mode = "grouped"
    if mode == "grouped":
        perm = list(range(m))
    elif mode == "chromosomes descending":
        perm = [i for sg in segs[::-1] for i in sg]
    elif mode == "chromosomes in random order":
        perm = [i for k in g.permutation(len(segs)) for i in segs[int(k)]]
    elif mode == "chromosomes interleaved":      # random riffle: within-chromosome order preserved
        heads = [0] * len(segs); perm = []
        while len(perm) < m:
            live = [k for k in range(len(segs)) if heads[k] < len(segs[k])]
            k = int(g.choice(live)); perm.append(segs[k][heads[k]]); heads[k] += 1
    elif mode == "markers reversed":
        perm = list(range(m))[::-1]
    else:
        perm = g.permutation(m).tolist()
    phypos = None
    if has_phypos:      # strictly increasing inside every chromosome (restarting, or not, at chromosome borders)
        phypos = numpy.concatenate([numpy.cumsum(g.integers(1, 1000, len(sg))) + int(g.choice([0, 0, 10 ** 6])) for sg in segs]).astype("int64")
    return numpy.array(perm, dtype=int), mode, has_phypos, phypos


def check_grouping(ctx, pg, st, icls, coords):
    """C18.partition.order: after group_vrnt() the markers are held chromosome by chromosome (ascending labels), in
    non-decreasing genetic position inside each chromosome - the order haplotype blocks are defined on -, every marker
    keeps its genotypes and labels (identity carried in vrnt_hapgrp), and the chromosome boundary indices delimit the
    chromosomes.  ``st`` holds the arrays as stored by the user.  Returns ids (storage index of each grouped marker) or None."""
    C = "C18.partition.order"
    site = defsite(type(pg), "group_vrnt")
    m = len(st["chrgrp"])
    ids = pg.vrnt_hapgrp
    w = {"stored": {k: v for k, v in st.items() if k != "mat"}, "grouped": {"vrnt_hapgrp(id)": ids, "vrnt_chrgrp": pg.vrnt_chrgrp,
         "vrnt_genpos": pg.vrnt_genpos, "vrnt_phypos": pg.vrnt_phypos, "stix": pg.vrnt_chrgrp_stix, "spix": pg.vrnt_chrgrp_spix}}
    ok = ctx.check(C, ids is not None and sorted(numpy.asarray(ids).tolist()) == list(range(m)), site,
                   "grouped markers are a permutation of the stored markers", icls, witness=w, coords=coords)
    if not ok:
        return None
    ids = numpy.asarray(ids, dtype=int)
    att = numpy.array_equal(pg.mat, st["mat"][:, :, ids]) and numpy.array_equal(pg.vrnt_chrgrp, st["chrgrp"][ids]) \
        and numpy.array_equal(pg.vrnt_genpos, st["genpos"][ids]) \
        and all((getattr(pg, "vrnt_" + k) is None) == (st[k] is None) and (st[k] is None or numpy.array_equal(getattr(pg, "vrnt_" + k), st[k][ids]))
                for k in ("phypos", "name", "xoprob"))
    ok1 = ctx.check(C, att, site, "every marker keeps its genotypes and labels", icls, witness=w, coords=coords)
    chrg = numpy.asarray(pg.vrnt_chrgrp).tolist(); gp = numpy.asarray(pg.vrnt_genpos, dtype=float).tolist()
    ok2 = ctx.check(C, all(chrg[i] <= chrg[i + 1] for i in range(m - 1)), site, "chromosomes contiguous and in ascending label order", icls,
                    witness=w, coords=coords)
    ok3 = ctx.check(C, all(gp[i] <= gp[i + 1] for i in range(m - 1) if chrg[i] == chrg[i + 1]), site,
                    "genetic positions non-decreasing inside every chromosome", icls,
                    what="group_vrnt leaves the markers of a chromosome out of genetic order (%s): haplotype blocks are then not contiguous "
                         "in position" % icls, witness=w, coords=coords)
    cuts = [0] + [i for i in range(1, m) if chrg[i] != chrg[i - 1]] + [m]
    try:
        bnd = (numpy.asarray(pg.vrnt_chrgrp_stix).tolist() == cuts[:-1] and numpy.asarray(pg.vrnt_chrgrp_spix).tolist() == cuts[1:]
               and numpy.asarray(pg.vrnt_chrgrp_len).tolist() == [b - a for a, b in zip(cuts[:-1], cuts[1:])]
               and numpy.asarray(pg.vrnt_chrgrp_name).tolist() == [chrg[a] for a in cuts[:-1]] and bool(pg.is_grouped_vrnt()))
    except Exception:
        bnd = False
    ok4 = ctx.check(C, bnd, site, "chromosome start/stop/length/name arrays delimit the chromosomes", icls, witness=w, coords=coords)
    return ids if (ok1 and ok2 and ok3 and ok4) else None


def own_apportionment(g, nblk, lens):
    """Harness-made admissible apportionment: 1 <= per[c] <= lens[c], sum == nblk."""
    per = numpy.ones(len(lens), dtype=int)
    for _ in range(nblk - len(lens)):
        room = numpy.flatnonzero(per < lens)
        per[int(g.choice(room))] += 1
    return per


# ---------------------------------------------------------------- monitors on one observed operation
def guarded(ctx, site, icls, coords, call, witness):
    """Affirmative-result policy (DESIGN 2.1: C18 promises a finite value for every valid input)."""
    del TRACE[:]
    try:
        return True, call()
    except Exception as e:
        ctx.raised(site, e)
        ctx.ok("C18.returns")
        ctx.violation("C18.returns", site, "raised %s" % type(e).__name__, icls,
                      what="%s raised %s on a valid input: %s" % (site, type(e).__name__, str(e)[:160]), witness=witness, coords=coords)
        return False, None


def traced_partition(ctx, consumer, L, icls_app, coords, w):
    """Run the partition monitors over the helper calls recorded during one consumer operation.
    Returns (status, blocks, icls_bin): status in {'ok', 'bad-apportion', 'bad-partition', 'unobserved'}."""
    per = labels = bounds = None
    for name, args, res in TRACE:
        ctx.hook("%s<-%s" % (name, consumer))
        if name == "nhaploblk_chrom":
            per = res
        elif name == "haplobin":
            labels = res
        elif name == "haplobin_bounds":
            bounds = res
    if per is None:
        return "unobserved", None, "partition unobserved"
    if not O.check_apportion(ctx, L["nblk"], per, L["stix"], L["spix"], icls_app, coords, w):
        return "bad-apportion", None, "apportionment unusable"
    icls_bin = O.bin_occupancy_class(per, L["genpos"], L["stix"], L["spix"])
    if labels is None or bounds is None:
        return "unobserved", None, icls_bin
    w2 = dict(w, per_chromosome=per)
    runs = O.check_labels(ctx, L["nblk"], labels, L["stix"], L["spix"], icls_bin, coords, w2)
    rb = O.check_bounds(ctx, labels, bounds, icls_bin, coords, w2)
    if runs is None or rb is None or runs != rb:
        return "bad-partition", None, icls_bin
    return "ok", runs, icls_bin


def run_consumer(ctx, site, hookname, L, icls_app, coords, w, call):
    """Run one operation that partitions internally (haplomat, _calc_haplomat, a problem constructor), then run the
    partition monitors over the helper calls it made - also when it raised.  An exception downstream of an apportionment
    or partition that the monitors have just reported invalid is a consequence of that root cause (counted as raised);
    any other exception on a valid input is a violation (affirmative-result policy, DESIGN 2.1).
    Returns (result or None, status, blocks, icls_bin)."""
    del TRACE[:]
    try:
        res, exc = call(), None
    except Exception as e:
        res, exc = None, e
    status, blocks, icls = traced_partition(ctx, hookname, L, icls_app, coords, w)
    if exc is not None:
        if status in ("bad-apportion", "bad-partition"):
            ctx.raised(site + " (downstream of an apportionment/partition already reported invalid)", exc)
        else:
            ctx.raised(site, exc)
            ctx.ok("C18.returns")
            ctx.violation("C18.returns", site, "raised %s" % type(exc).__name__, icls if status == "ok" else icls_app,
                          what="%s raised %s on a valid input: %s" % (site, type(exc).__name__, str(exc)[:160]), witness=w, coords=coords)
        return None, status, blocks, icls
    return res, status, blocks, icls


def check_block_matrix(ctx, site, Hm, G, u, nblk, blocks, icls, coords, w, status="ok", rtol=None):
    """finite -> conservation -> slots == block values (stops at the first failing link).  Returns oracle V or None.
    When the partition made during this very operation was already reported invalid (root cause keyed at haplobin /
    haplobin_bounds), the value clauses have no reference partition and are not evaluated: the consequences
    (unwritten slots) are only counted, so that one root cause does not fan out into a key per consumer and clause."""
    if status in ("bad-partition", "bad-apportion"):
        ctx.sumnote("value clauses not evaluated: partition of this operation already reported invalid")
        try:
            if not numpy.all(numpy.isfinite(numpy.asarray(Hm, dtype=float))):
                ctx.sumnote("non-finite block values downstream of an invalid partition (%s)" % site)
        except Exception:
            pass
        return None
    nph, n, m = G.shape
    t = u.shape[1]
    w = dict(w, haplomat=Hm)
    ok = ctx.check("C18.blockvalue", isinstance(Hm, numpy.ndarray) and Hm.shape == (nph, n, nblk, t), site,
                   "shape == (phases, taxa, requested blocks, traits)", icls, witness=w, coords=coords)
    if not ok:
        return None
    Hm = numpy.asarray(Hm, dtype=float)
    if not ctx.check("C18.finite", bool(numpy.all(numpy.isfinite(Hm))), site, "block values finite", icls, witness=w, coords=coords):
        return None
    sc = O.value_scale(u)
    eps = O.tol(sc) if rtol is None else float(rtol) * sc + O.ATOL
    T = O.copy_totals(G, u)
    err = float(numpy.abs(Hm.sum(2) - T).max())
    ctx.maxnote("conservation |sum_blocks - total| / scale", err / sc if sc > 0 and err <= 1e3 * eps else 0.0)
    ok = ctx.check("C18.conservation", err <= eps, site, "sum over blocks == total additive value of the chromosome copy", icls,
                   what="%s: block values do not add up to the copy's additive value (%s)" % (site, icls),
                   witness=dict(w, copy_totals=T, err=err, tol=eps), coords=coords)
    if not ok:
        return None
    if blocks is None:
        ctx.sumnote("blockvalue skipped: no valid partition observed")
        return None
    V = O.block_values(G, u, blocks)
    same, werr = O.match_slots(Hm, V, eps)
    ctx.maxnote("blockvalue |slot - block value| / scale", werr / sc if same and sc > 0 else 0.0)
    ok = ctx.check("C18.blockvalue", same, site, "slots hold the block values of the partition (any one-to-one order)", icls,
                   witness=dict(w, blocks=blocks, expected=V), coords=coords)
    return V if ok else None


def check_bound(ctx, site, got, G, u, blocks, taxa, ploidy, icls, coords, w):
    vals = O.dh_values(G, u, blocks, taxa, ploidy)
    if vals is None:
        ctx.sumnote("bound skipped: too many doubled haploids")
        return
    eps = O.tol(O.value_scale(u, ploidy))
    got = numpy.asarray(got, dtype=float)
    best = vals.max(0)
    w = dict(w, value=got, best_doubled_haploid=best, n_doubled_haploids=len(vals), taxa=list(taxa))
    ctx.sumnote("doubled haploids enumerated", len(vals))
    ctx.check("C18.bound", bool(numpy.all(got >= best - eps)), site, ">= value of every block-boundary doubled haploid", icls, witness=w, coords=coords)
    ctx.check("C18.bound", bool(numpy.all(got <= best + eps)), site, "attained by the best block-boundary doubled haploid", icls, witness=w, coords=coords)


def close(ctx, note, got, exp, eps):
    got = numpy.asarray(got, dtype=float); exp = numpy.asarray(exp, dtype=float)
    if got.shape != exp.shape or not numpy.all(numpy.isfinite(got)):
        return False
    err = float(numpy.abs(got - exp).max()) if got.size else 0.0
    if err <= eps:
        ctx.maxnote(note + " / tolerance", err / eps)
    return err <= eps


# ---------------------------------------------------------------- families
def summary(L, nph, n, u, uk):
    return {"layout": L["class"], "genpos": L["genpos"].tolist(), "chrom_sizes": L["lens"].tolist(), "nhaploblk": L["nblk"],
            "phases": nph, "taxa": n, "traits": int(u.shape[1]), "effects": uk}


def case_helpers(ctx, c):
    """Direct calls of nhaploblk_chrom / haplobin / haplobin_bounds / haplomat."""
    S = setup(); H = S["H"]
    g = ctx.rng("helpers", c)
    L = gen_layout(g)
    nph, n, G, u, uk = gen_values(g, L["m"])
    coords = [c, "helpers"]
    genpos, stix, spix, lens, nblk = L["genpos"], L["stix"], L["spix"], L["lens"], L["nblk"]
    ctx.case("helpers:" + L["class"], genpos, lens, nblk, G, u, trivial=L["m"] < 2 or nblk < 2)
    if c % 101 == 0:
        ctx.sample(dict(summary(L, nph, n, u, uk), fn="haplo helpers + haplomat"))
    w = {"genpos": genpos, "chrgrp_stix": stix, "chrgrp_spix": spix, "nhaploblk": nblk}
    icls_app = O.apportion_class(genpos, stix, spix)
    # -- apportionment
    ok, per = guarded(ctx, "nhaploblk_chrom", icls_app, coords, lambda: H.nhaploblk_chrom(nblk, genpos.copy(), stix.copy(), spix.copy()), w)
    usable = ok and O.check_apportion(ctx, nblk, per, stix, spix, icls_app, coords, w)
    # -- binning, with the library's apportionment and with a harness-made one
    pers = [("library", numpy.asarray(per))] if usable else []
    pers.append(("harness", own_apportionment(g, nblk, lens)))
    for src, p in pers:
        icls_bin = O.bin_occupancy_class(p, genpos, stix, spix)
        w2 = dict(w, per_chromosome=p, apportionment=src)
        ok, lab = guarded(ctx, "haplobin", icls_bin, coords, lambda: H.haplobin(p.copy(), genpos.copy(), stix.copy(), spix.copy()), w2)
        if not ok:
            continue
        O.check_labels(ctx, nblk, lab, stix, spix, icls_bin, coords, w2)
        ok, bnd = guarded(ctx, "haplobin_bounds", icls_bin, coords, lambda: H.haplobin_bounds(numpy.array(lab)), w2)
        if ok:
            O.check_bounds(ctx, lab, bnd, icls_bin, coords, w2)
    # -- run-length bounds on synthetic admissible label vectors (gaps, offsets, negative labels)
    if c % 3 == 0:
        steps = numpy.r_[0, (g.random(L["m"] - 1) < 0.4) * g.integers(1, 4, L["m"] - 1)].astype(int)
        lab = numpy.cumsum(steps) + int(g.choice([0, 0, 5, -3]))
        ok, bnd = guarded(ctx, "haplobin_bounds", "synthetic labels", coords, lambda: H.haplobin_bounds(lab.copy()), {"labels": lab})
        if ok:
            O.check_bounds(ctx, lab, bnd, "synthetic labels", coords, {})
    # -- haplomat, with hostile dtypes / memory layouts of the genome matrix and the effects (values unchanged)
    ud = "float64"
    if uk == "integers" and g.random() < 0.4:
        ud = "int64"
    elif g.random() < 0.12:
        ud = "float32"
    gd = str(g.choice(["int8", "int8", "int8", "int64", "uint8", "bool", "float64"]))
    u_in, ulay = relayout(g, u.astype(ud))
    G_in, glay = relayout(g, G.astype(gd))
    u = u_in.astype(float)           # the values the library is given (float32 rounding included)
    vcls = ("" if ud == "float64" else "/effects dtype %s" % ud) + ("" if gd == "int8" else "/genome dtype %s" % gd)
    w3 = dict(w, genomemat=G, u_a=u, u_a_dtype=ud, genomemat_dtype=gd, layouts=[glay, ulay])
    Hm, status, blocks, icls_bin = run_consumer(ctx, "haplomat", "haplomat", L, icls_app, coords, w3,
                                                lambda: H.haplomat(nblk, G_in, genpos.copy(), stix.copy(), spix.copy(), lens.copy(), u_in))
    if Hm is not None:
        check_block_matrix(ctx, "haplomat", Hm, G, u, nblk, blocks, icls_bin + vcls, coords, w3, status, rtol=dtype_rtol(ud))


def subset_args(ndecn, nspace, nobj):
    return dict(ndecn=ndecn, decn_space=numpy.arange(nspace), decn_space_lower=numpy.repeat(0, ndecn),
                decn_space_upper=numpy.repeat(nspace - 1, ndecn), nobj=nobj)


def subset_space_args(g, ndecn, nspace, nobj):
    """Subset encoding with a candidate list that may be the whole population (ascending), a strict subset of it (only
    some taxa / crosses eligible), a permutation or the reverse.  Returns (constructor args, candidate list, class suffix)."""
    r = g.random()
    if r < 0.45 or nspace <= ndecn:
        space, lab = numpy.arange(nspace), ""
        if r >= 0.45 and nspace > 1:
            space, lab = numpy.arange(nspace)[::-1].copy(), "/decision space reversed"
    elif r < 0.75:
        d = int(g.integers(ndecn, nspace))          # ndecn <= d < nspace
        space = g.choice(nspace, d, replace=False)
        space = numpy.sort(space) if g.random() < 0.6 else space
        lab = "/decision space a strict subset"
    elif r < 0.9:
        space, lab = g.permutation(nspace), "/decision space permuted"
    else:
        space, lab = numpy.arange(nspace)[::-1].copy(), "/decision space reversed"
    space = space.astype(int)
    return dict(ndecn=ndecn, decn_space=space, decn_space_lower=numpy.repeat(int(space.min()), ndecn),
                decn_space_upper=numpy.repeat(int(space.max()), ndecn), nobj=nobj), space, lab


def vector_space_args(g, kind, nspace, nobj, keep):
    """Real / integer / binary encoding where a restricted space is expressible through the bounds: entries outside
    ``keep`` (>= 1 entries) get lower == upper == 0.  Returns (args, allowed entries, class suffix)."""
    lo, up = {"Real": (0.0, 1.0), "Integer": (0, 5), "Binary": (0, 1)}[kind]
    upv = numpy.repeat(up, nspace)
    lab = ""
    allowed = numpy.arange(nspace)
    if g.random() < 0.4 and nspace > keep:
        d = int(g.integers(keep, nspace))
        allowed = numpy.sort(g.choice(nspace, d, replace=False))
        mask = numpy.zeros(nspace, dtype=bool); mask[allowed] = True
        upv = numpy.where(mask, upv, 0).astype(upv.dtype)
        lab = "/decision space a strict subset"
    lov = numpy.repeat(lo, nspace)
    return dict(ndecn=nspace, decn_space=numpy.stack([lov, upv]), decn_space_lower=lov, decn_space_upper=upv, nobj=nobj), allowed, lab


def vector_args(kind, nspace, nobj):
    lo, up = {"Real": (0.0, 1.0), "Integer": (0, 5), "Binary": (0, 1)}[kind]
    return dict(ndecn=nspace, decn_space=numpy.stack([numpy.repeat(lo, nspace), numpy.repeat(up, nspace)]),
                decn_space_lower=numpy.repeat(lo, nspace), decn_space_upper=numpy.repeat(up, nspace), nobj=nobj)


def ungrouped_submission(ctx, S, g, pg, st, u_st, nblk, n, t, gcls, coords):
    """The problem factories are handed the matrix as stored (never grouped).  Rejecting it is the documented reaction
    (counted as raised); a factory that accepts it must still return finite block values that conserve every copy's
    additive value (an order-free consequence of the statement)."""
    mod = S["GM"](beta=numpy.zeros((1, t)), u_misc=None, u_a=numpy.ascontiguousarray(u_st), trait=numpy.array(["y%d" % i for i in range(t)], dtype=object))
    k = int(g.integers(1, n + 1))
    which = int(g.integers(0, 3))
    if which == 0:
        Mix = S["MOHV"].OptimalHaploidValueSelectionProblemMixin
        site, call = defsite(Mix, "_calc_haplomat"), (lambda: Mix._calc_haplomat(pg, mod, nblk))
    elif which == 1:
        cls = S["MOPV"].OptimalPopulationValueSubsetSelectionProblem
        site, call = defsite(cls, "from_pgmat_gpmod"), (lambda: cls.from_pgmat_gpmod(nhaploblk=nblk, pgmat=pg, gpmod=mod, **subset_args(k, n, t)).haplomat)
    else:
        cls = S["MGB"].GenotypeBuilderSubsetSelectionProblem
        site, call = defsite(cls, "from_pgmat_gpmod"), (lambda: cls.from_pgmat_gpmod(pgmat=pg, gpmod=mod, nhaploblk=nblk, nbestfndr=1, **subset_args(k, n, t)).haplomat)
    del TRACE[:]
    try:
        Hm = numpy.asarray(call(), dtype=float)
    except Exception as e:
        ctx.raised("ungrouped matrix rejected by " + site, e)
        return
    ctx.sumnote("ungrouped matrix accepted by " + site)
    icls = "ungrouped input/" + gcls
    w = {"stored": {kk: v for kk, v in st.items() if kk != "mat"}, "haplomat": Hm}
    if not ctx.check("C18.finite", bool(numpy.all(numpy.isfinite(Hm))), site, "block values finite", icls, witness=w, coords=coords):
        return
    T = O.copy_totals(st["mat"], u_st)
    eps = O.tol(O.value_scale(u_st))
    ctx.check("C18.conservation", Hm.ndim == 4 and Hm.shape[:2] == T.shape[:2] and float(numpy.abs(Hm.sum(2) - T).max()) <= eps, site,
              "sum over blocks == total additive value of the chromosome copy", icls, witness=dict(w, copy_totals=T), coords=coords)


def case_problems(ctx, c):
    """OHV (four encodings, chunked matrix), OPV and genotype-builder problems built from a genotype matrix and a model."""
    S = setup()
    g = ctx.rng("problems", c)
    L = gen_layout(g)
    nph, n, G, u, uk = gen_values(g, L["m"])
    coords = [c, "problems"]
    nblk, m = L["nblk"], L["m"]
    t = u.shape[1]
    ctx.case("problems:" + L["class"], L["genpos"], L["lens"], nblk, G, u, trivial=m < 2 or nblk < 2)
    if c % 101 == 0:
        ctx.sample(dict(summary(L, nph, n, u, uk), fn="OHV/OPV/GB problems"))
    # ---- the layout as the user holds it: optional labels absent in every combination, chromosomes not contiguous in storage
    perm, smode, has_phypos, phypos_c = user_storage(g, L)
    has_name = bool(g.random() < 0.5); has_xo = bool(g.random() < 0.3)
    names_c = numpy.array(["snp%03d" % int(i) for i in g.permutation(m)], dtype=object)    # names carry no positional information
    st = {"mat": numpy.ascontiguousarray(G[:, :, perm]), "chrgrp": L["chrgrp"][perm], "genpos": L["genpos"][perm],
          "phypos": phypos_c[perm] if has_phypos else None, "name": names_c[perm] if has_name else None,
          "xoprob": numpy.clip(g.uniform(0, 0.5, m), 0, 0.5) if has_xo else None}
    extra = dict(taxa_grp=numpy.sort(g.integers(0, 3, n)).astype("int64")) if g.random() < 0.3 else {}
    G_in, glay = relayout(g, st["mat"].copy())

    def make_pg():
        return S["PG"](G_in.copy(), taxa=numpy.array(["t%02d" % i for i in range(n)], dtype=object), vrnt_chrgrp=st["chrgrp"].copy(),
                       vrnt_phypos=None if st["phypos"] is None else st["phypos"].copy(), vrnt_genpos=st["genpos"].copy(),
                       vrnt_name=None if st["name"] is None else st["name"].copy(), vrnt_xoprob=None if st["xoprob"] is None else st["xoprob"].copy(),
                       vrnt_hapgrp=numpy.arange(m, dtype="int64"), ploidy=nph, **extra)
    gcls = ("vrnt_phypos present" if has_phypos else "no vrnt_phypos") + "/" + smode
    ctx.sumnote("storage: " + gcls)
    if g.random() < 0.12:
        ungrouped_submission(ctx, S, g, make_pg(), st, u[perm], nblk, n, t, gcls, coords)
    pg = make_pg()
    route = str(g.choice(["group_vrnt", "group_vrnt", "group(axis=-1)", "group(axis=2)", "sort_vrnt then group_vrnt", "group_vrnt twice"]))
    try:
        if route == "group(axis=-1)":
            pg.group(axis=-1)
        elif route == "group(axis=2)":
            pg.group(axis=2)
        else:
            if route.startswith("sort_vrnt"):
                pg.sort_vrnt()
            pg.group_vrnt()
            if route.endswith("twice"):
                pg.group_vrnt()
    except Exception as e:
        ctx.raised("group_vrnt", e); ctx.ok("C18.returns")
        ctx.violation("C18.returns", defsite(type(pg), "group_vrnt"), "raised %s" % type(e).__name__, gcls, witness={"stored": st}, coords=coords)
        return
    ids = check_grouping(ctx, pg, st, gcls, coords)
    if ids is None:
        return          # the consumers would be handed a layout that is not in position order: root cause reported above
    # ---- the grouped matrix may reach the factories through a copy or a taxa selection (grouping must survive)
    derive = str(g.choice(["none", "none", "none", "deepcopy", "copy", "select_taxa"]))
    if derive != "none":
        import copy as _copy
        tsel = g.permutation(n)
        try:
            pg2 = _copy.deepcopy(pg) if derive == "deepcopy" else (_copy.copy(pg) if derive == "copy" else pg.select_taxa(tsel))
        except Exception as e:
            ctx.raised("harness: %s of the grouped matrix" % derive, e)
            pg2 = None
        if pg2 is not None:
            expm = numpy.asarray(pg.mat)[:, tsel, :] if derive == "select_taxa" else numpy.asarray(pg.mat)
            try:
                same = bool(pg2.is_grouped_vrnt()) and numpy.array_equal(pg2.mat, expm) and numpy.array_equal(pg2.vrnt_genpos, pg.vrnt_genpos) \
                    and numpy.array_equal(pg2.vrnt_chrgrp, pg.vrnt_chrgrp) and numpy.array_equal(pg2.vrnt_chrgrp_stix, pg.vrnt_chrgrp_stix) \
                    and numpy.array_equal(pg2.vrnt_chrgrp_spix, pg.vrnt_chrgrp_spix) and numpy.array_equal(pg2.vrnt_chrgrp_len, pg.vrnt_chrgrp_len)
            except Exception:
                same = False
            if not ctx.check("C18.partition.order", same, "%s.%s" % (type(pg).__name__, derive), "derived matrix keeps genotypes, marker order and chromosome grouping",
                             gcls, witness={"derived_by": derive, "taxa": tsel}, coords=coords):
                return
            pg = pg2
    # what the problems see (raw inputs of the oracle), marker by marker; the effects follow the markers
    canon = perm[ids]
    G = numpy.array(pg.mat); genpos = numpy.array(pg.vrnt_genpos, dtype=float)
    u = numpy.ascontiguousarray(u[canon])
    mod, mcls, minfo = gen_model(g, S, u)
    # problems made by the selection protocols' problem() instead of from_pgmat_gpmod (their domain: >= 2 taxa)
    via_protocol = bool(g.random() < 0.3) and n >= 2
    if not (G.shape == (nph, n, m) and numpy.array_equal(genpos, L["genpos"]) and numpy.array_equal(pg.vrnt_chrgrp, L["chrgrp"])):
        ctx.sumnote("harness: grouped layout differs from the canonical one (case skipped)")
        return
    w = {"genpos": genpos, "chrgrp_stix": L["stix"], "chrgrp_spix": L["spix"], "nhaploblk": nblk, "genomemat": G, "u_a": u,
         "model": minfo, "genome_layout": glay, "via_protocol": via_protocol, "storage": gcls, "grouped_by": route, "derived_by": derive}
    icls_app = O.apportion_class(genpos, L["stix"], L["spix"])
    ploidy = nph
    proto_args = dict(ntrait=t, nhaploblk=nblk, ncross=1, nmating=1, nprogeny=1, nobj=t)
    sc = O.value_scale(u, ploidy); eps = O.tol(sc)

    # ------------------------------------------------ OHV
    MOHV = S["MOHV"]
    Mix = MOHV.OptimalHaploidValueSelectionProblemMixin
    nparent = int(g.integers(1, min(4, n) + 1))
    unique = bool(g.random() < 0.6)
    site = defsite(Mix, "_calc_haplomat")
    Hm, status, blocks, icls = run_consumer(ctx, site, site, L, icls_app, coords, w, lambda: Mix._calc_haplomat(pg, mod, nblk))
    icls += mcls
    V = None
    if Hm is not None:
        V = check_block_matrix(ctx, site, Hm, G, u, nblk, blocks, icls, coords, w, status)
    if V is not None:
        xmap = numpy.asarray(Mix._calc_xmap(n, nparent, unique))
        ncfg = xmap.shape[0]
        exp = numpy.array([O.best_sum(V, xmap[r], ploidy) for r in range(ncfg)])
        wx = dict(w, xmap=xmap, unique_parents=unique, expected_ohv=exp)
        # chunked matrix computation
        mem = [1, 2, 3, 5, 7, None, 1024][int(g.integers(0, 7))]
        site = defsite(Mix, "_calc_ohvmat")
        ok, om0 = guarded(ctx, site, icls, coords, lambda: Mix._calc_ohvmat(ploidy, Hm, xmap, mem), wx)
        ohv_ok = False
        if ok:
            fin = ctx.check("C18.finite", bool(numpy.all(numpy.isfinite(om0))), site, "OHV finite", icls, witness=dict(wx, ohvmat=om0), coords=coords)
            ohv_ok = fin and ctx.check("C18.ohv", close(ctx, "ohv error", om0, exp, eps), site,
                                       "== ploidy * sum_blocks max over (parents, phases)", icls + ("/chunked" if mem not in (None, 1024) else ""),
                                       witness=dict(wx, ohvmat=om0, mem=mem), coords=coords)
        # the four encodings
        kinds = ["Subset", str(g.choice(["Real", "Integer", "Binary"]))]
        for kind in kinds:
            cls = getattr(MOHV, "OptimalHaploidValue%sSelectionProblem" % kind)
            k = int(g.integers(1, min(ncfg, 4) + 1))
            if kind == "Subset":
                args, space, dlab = subset_space_args(g, k, ncfg, t)
            else:
                args, space, dlab = vector_space_args(g, kind, ncfg, t, k)
            if via_protocol:
                space, dlab = numpy.arange(ncfg), ""
                pcls = getattr(S["POHV"], "OptimalHaploidValue%sSelection" % kind)
                make, msite = (lambda: pcls(unique_parents=unique, nparent=nparent, **proto_args).problem(pg, None, None, None, mod, 0, 1)), \
                    "%s.problem" % pcls.__name__
            else:
                make, msite = (lambda: cls.from_pgmat_gpmod(nparent=nparent, nhaploblk=nblk, unique_parents=unique, pgmat=pg, gpmod=mod, **args)), \
                    defsite(cls, "from_pgmat_gpmod")
            p, status, blocks2, icls2 = run_consumer(ctx, msite, defsite(Mix, "_calc_haplomat"), L, icls_app, coords, w, make)
            icls2 += mcls + dlab
            if p is None:
                continue
            if via_protocol:
                ctx.hook("problem built by a selection protocol")
                if not ctx.check("C18.ohv", type(p) is cls, msite, "protocol builds the matching OHV problem class", icls2, witness=dict(w, got=type(p).__name__), coords=coords):
                    continue
            om = numpy.asarray(p.ohvmat); xm = numpy.asarray(p.decn_space_xmap)
            fin = ctx.check("C18.finite", bool(numpy.all(numpy.isfinite(om))), defsite(cls, "from_pgmat_gpmod"), "OHV finite", icls2,
                            witness=dict(wx, ohvmat=om), coords=coords)
            if status != "ok" or not fin:
                continue
            import itertools
            want = list((itertools.combinations if unique else itertools.combinations_with_replacement)(range(n), nparent))
            if not ctx.check("C18.ohv", xm.ndim == 2 and sorted(map(tuple, xm.tolist())) == sorted(want), msite,
                             "decn_space_xmap lists exactly the requested parent tuples (nparent, unique_parents honoured)", icls2,
                             witness=dict(w, decn_space_xmap=xm, nparent=nparent, unique_parents=unique), coords=coords):
                continue
            exp2 = numpy.array([O.best_sum(V, xm[r], ploidy) for r in range(xm.shape[0])]) if xm.ndim == 2 else None
            okm = ctx.check("C18.ohv", exp2 is not None and blocks2 == blocks and close(ctx, "ohv error", om, exp2, eps),
                            defsite(cls, "from_pgmat_gpmod"), "ohvmat == ploidy * sum_blocks max over (parents, phases)", icls2,
                            witness=dict(wx, ohvmat=om, decn_space_xmap=xm), coords=coords)
            if not okm:
                continue
            if kind == "Subset":
                x = g.choice(space, k, replace=False).astype(int)      # candidates drawn from the (possibly restricted) space
                expl = -exp2[x].mean(0)
            else:
                cnt = numpy.zeros(ncfg); sel = g.choice(space, k, replace=False); cnt[sel] = 1
                x = {"Real": cnt * g.uniform(0.1, 1.0, ncfg), "Integer": (cnt * g.integers(1, 6, ncfg)).astype(int), "Binary": cnt.astype(int)}[kind]
                expl = -(numpy.asarray(x, dtype=float) / float(numpy.sum(x))) @ exp2
            site = defsite(cls, "latentfn")
            ok, lv = guarded(ctx, site, icls2, coords, lambda: p.latentfn(x), dict(wx, x=x))
            if ok:
                ctx.check("C18.finite", bool(numpy.all(numpy.isfinite(lv))), site, "latent value finite", icls2, witness=dict(wx, x=x, got=lv), coords=coords)
                ctx.check("C18.ohv.latentfn", close(ctx, "ohv latentfn error", lv, expl, eps), site,
                          "== -(weighted mean over the selected crosses of their OHV)", icls2, witness=dict(wx, x=x, got=lv, expected=expl), coords=coords)
        # bound: one cross, against every block-boundary doubled haploid of its parents
        r = int(g.integers(0, ncfg))
        if len(blocks) <= 6 and ohv_ok:
            check_bound(ctx, defsite(Mix, "_calc_ohvmat"), numpy.asarray(om0, dtype=float)[r], G, u, blocks, xmap[r], ploidy, icls, coords, dict(wx, cross=r))

    # ------------------------------------------------ OPV
    MOPV = S["MOPV"]
    cls = MOPV.OptimalPopulationValueSubsetSelectionProblem
    k = int(g.integers(1, n + 1))
    oargs, ospace, dlab = subset_space_args(g, k, n, t)
    if via_protocol:
        ospace, dlab = numpy.arange(n), ""
    x = g.choice(ospace, k, replace=False).astype(int)      # taxon indices of candidates drawn from the decision space
    x = numpy.sort(x) if g.random() < 0.5 else x
    site = defsite(cls, "_calc_haplomat")
    if via_protocol:
        pcls = S["POPV"].OptimalPopulationValueSubsetSelection
        make, msite = (lambda: pcls(nparent=k, **proto_args).problem(pg, None, None, None, mod, 0, 1)), "%s.problem" % pcls.__name__
    else:
        make, msite = (lambda: cls.from_pgmat_gpmod(nhaploblk=nblk, pgmat=pg, gpmod=mod, **oargs)), defsite(cls, "from_pgmat_gpmod")
    p, status, blocks, icls = run_consumer(ctx, msite, site, L, icls_app, coords, w, make)
    icls += mcls + dlab
    w = dict(w, decn_space=ospace)
    if p is not None and type(p) is not cls:
        ctx.check("C18.opv", False, msite, "protocol builds the OPV problem class", icls, witness=dict(w, got=type(p).__name__), coords=coords)
        p = None
    if p is not None:
        V = check_block_matrix(ctx, site, p.haplomat, G, u, nblk, blocks, icls, coords, w, status)
        if V is not None:
            site = defsite(cls, "latentfn")
            wx = dict(w, x=x)
            ok, lv = guarded(ctx, site, icls, coords, lambda: p.latentfn(x), wx)
            if ok:
                exp = -O.best_sum(V, x, ploidy)
                ctx.check("C18.finite", bool(numpy.all(numpy.isfinite(lv))), site, "latent value finite", icls, witness=dict(wx, got=lv), coords=coords)
                okv = ctx.check("C18.opv", close(ctx, "opv error", lv, exp, eps), site, "== -ploidy * sum_blocks max over (selected taxa, phases)", icls,
                                witness=dict(wx, got=lv, expected=exp), coords=coords)
                if okv and len(blocks) <= 6:
                    check_bound(ctx, site, -numpy.asarray(lv, dtype=float), G, u, blocks, x, ploidy, icls, coords, wx)

    # ------------------------------------------------ genotype builder
    MGB = S["MGB"]
    cls = MGB.GenotypeBuilderSubsetSelectionProblem
    nbest = 1 if g.random() < 0.4 else int(g.integers(1, k + 1))
    site = defsite(cls, "_calc_haplomat")
    if via_protocol:
        pcls = S["PGB"].GenotypeBuilderSubsetSelection
        make, msite = (lambda: pcls(nparent=k, nbestfndr=nbest, **proto_args).problem(pg, None, None, None, mod, 0, 1)), "%s.problem" % pcls.__name__
    else:
        make, msite = (lambda: cls.from_pgmat_gpmod(pgmat=pg, gpmod=mod, nhaploblk=nblk, nbestfndr=nbest, **oargs)), \
            defsite(cls, "from_pgmat_gpmod")
    p, status, blocks, icls = run_consumer(ctx, msite, site, L, icls_app, coords, w, make)
    icls += mcls + dlab
    if p is not None and type(p) is not cls:
        ctx.check("C18.gb", False, msite, "protocol builds the GB problem class", icls, witness=dict(w, got=type(p).__name__), coords=coords)
        p = None
    if p is not None:
        V = check_block_matrix(ctx, site, p.haplomat, G, u, nblk, blocks, icls, coords, w, status)
        if V is not None:
            site = defsite(cls, "latentfn")
            wx = dict(w, x=x, nbestfndr=nbest)
            ok, lv = guarded(ctx, site, icls, coords, lambda: p.latentfn(x), wx)
            if ok:
                exp = -O.gb_value(V, x, nbest, ploidy)
                ctx.check("C18.finite", bool(numpy.all(numpy.isfinite(lv))), site, "latent value finite", icls, witness=dict(wx, got=lv), coords=coords)
                ctx.check("C18.gb", close(ctx, "gb error", lv, exp, eps), site,
                          "== -ploidy/nbestfndr * sum_blocks (nbestfndr largest best-phase block values of the selected taxa)",
                          icls + ("/nbestfndr=1 (OPV)" if nbest == 1 else "/nbestfndr>1"), witness=dict(wx, got=lv, expected=exp), coords=coords)


# ---------------------------------------------------------------- long-lived problem objects
def gen_state(g, shape, sk=None):
    """Arbitrary finite state array (block values / OHV matrix): value class x dtype x memory layout."""
    sk = sk or str(g.choice(["gauss", "gauss", "integers", "ties", "negative", "float32", "int64"]))
    if sk in ("integers", "int64"):
        a = g.integers(-4, 5, shape).astype("int64" if sk == "int64" else float)
    elif sk == "ties":
        a = g.choice([-1.5, 0.0, 0.25, 2.0], shape)
    elif sk == "negative":
        a = -numpy.abs(g.normal(size=shape)) - 0.1
    else:
        a = g.normal(size=shape) * float(g.choice([1.0, 1.0, 1e3, 1e-3]))
    if sk == "float32":
        a = a.astype("float32")
    a, lay = relayout(g, a)
    return a, sk, lay


def state_oracle(kind, state, x, nbest):
    """Latent vector demanded by the statement for the object's CURRENT public state (negated, minimisation convention)."""
    A = numpy.asarray(state, dtype=float)
    if kind == "OPV":
        return -O.best_sum(A, x, A.shape[0])
    if kind == "GB":
        return -O.gb_value(A, x, nbest, A.shape[0])
    if kind == "OHV-Subset":
        return -A[numpy.asarray(x, dtype=int)].sum(0) / float(len(x))
    xv = numpy.asarray(x, dtype=float)
    return -(xv / xv.sum()) @ A


def case_lifecycle(ctx, c):
    """A problem object is kept alive, its public properties are changed through setters (or its state array is written
    in place), it is copied, and it is re-evaluated: every evaluation must equal the oracle on the CURRENT public state."""
    import copy
    S = setup()
    g = ctx.rng("lifecycle", c)
    coords = [c, "lifecycle"]
    kind = str(g.choice(["OPV", "OPV", "GB", "GB", "OHV-Subset", "OHV-Real", "OHV-Integer", "OHV-Binary"]))
    hap = kind in ("OPV", "GB")
    t = int(g.integers(1, 4))
    n = int(g.integers(2, 8))
    attr = "haplomat" if hap else "ohvmat"
    if hap:
        cls = S["MOPV"].OptimalPopulationValueSubsetSelectionProblem if kind == "OPV" else S["MGB"].GenotypeBuilderSubsetSelectionProblem
        k = int(g.integers(1, n + 1))
        nspace = n
    else:
        cls = getattr(S["MOHV"], "OptimalHaploidValue%sSelectionProblem" % kind.split("-")[1])
        nparent = int(g.integers(1, 3))
        xmap = numpy.asarray(cls._calc_xmap(n, nparent, bool(g.random() < 0.5)))
        nspace = xmap.shape[0]
        k = int(g.integers(1, min(nspace, 4) + 1))
    nbest = int(g.integers(1, k + 1)) if kind == "GB" else None

    def new_state(same_shape_as=None):
        if hap:
            shp = same_shape_as or (int(g.choice([1, 2, 2, 3, 4])), n, int(g.integers(1, 7)), t)
        else:
            shp = (nspace, t)
        return gen_state(g, shp)

    # ---- construction: directly from a state array, or from a genotype matrix and a model
    built = "constructor"
    draw_from = None        # candidate list when the factory was given a restricted / permuted decision space
    prob = None
    try:
        if g.random() < 0.35:
            built = "from_pgmat_gpmod"
            L = gen_layout(g)
            m = L["m"]
            nph = int(g.choice([1, 2, 2, 3]))
            G = g.integers(0, 2, (nph, n, m)).astype("int8")
            u = g.normal(size=(m, t))
            pg = S["PG"](G, taxa=numpy.array(["t%02d" % i for i in range(n)], dtype=object), vrnt_chrgrp=L["chrgrp"].copy(),
                         vrnt_phypos=numpy.arange(1, m + 1, dtype="int64") * 10, vrnt_genpos=L["genpos"].copy(), ploidy=nph)
            pg.group_vrnt()
            mod, _, _ = gen_model(g, S, u)
            if kind == "OPV":
                sargs, draw_from, _ = subset_space_args(g, k, n, t)
                prob = cls.from_pgmat_gpmod(nhaploblk=L["nblk"], pgmat=pg, gpmod=mod, **sargs)
            elif kind == "GB":
                sargs, draw_from, _ = subset_space_args(g, k, n, t)
                prob = cls.from_pgmat_gpmod(pgmat=pg, gpmod=mod, nhaploblk=L["nblk"], nbestfndr=nbest, **sargs)
            else:
                uq = bool(g.random() < 0.5)
                xmap = numpy.asarray(cls._calc_xmap(n, nparent, uq)); nspace = xmap.shape[0]; k = min(k, nspace)
                args = subset_args(k, nspace, t) if kind == "OHV-Subset" else vector_args(kind.split("-")[1], nspace, t)
                prob = cls.from_pgmat_gpmod(nparent=nparent, nhaploblk=L["nblk"], unique_parents=uq, pgmat=pg, gpmod=mod, **args)
        else:
            st0, sk0, lay0 = new_state()
            if kind == "OPV":
                prob = cls(haplomat=st0, **subset_args(k, n, t))
            elif kind == "GB":
                prob = cls(haplomat=st0, nbestfndr=nbest, **subset_args(k, n, t))
            else:
                args = subset_args(k, nspace, t) if kind == "OHV-Subset" else vector_args(kind.split("-")[1], nspace, t)
                prob = cls(ohvmat=st0, decn_space_xmap=xmap, **args)
    except Exception as e:   # construction failures are judged by the problems family (partition monitors attached there)
        ctx.raised("lifecycle: construction (%s, %s)" % (kind, built), e)
        return
    ctx.case("lifecycle:%s/%s" % (kind, built), kind, numpy.asarray(getattr(prob, attr)), k, trivial=False)
    if c % 101 == 0:
        ctx.sample({"fn": "long-lived %s problem" % kind, "built_by": built, "state_shape": list(numpy.shape(getattr(prob, attr))), "ndecn": k})

    def draw_x(p):
        if hap or kind == "OHV-Subset":
            return g.choice(nspace if draw_from is None else draw_from, k, replace=False).astype(int)
        cnt = numpy.zeros(nspace); cnt[g.choice(nspace, k, replace=False)] = 1
        sub = kind.split("-")[1]
        return {"Real": cnt * g.uniform(0.1, 1.0, nspace), "Integer": (cnt * g.integers(1, 6, nspace)).astype(int), "Binary": cnt.astype(int)}[sub]

    def evaluate(p, after):
        """Judge one evaluation of ``p`` against its current public state.  False when a clause failed: the history then
        stops, because later failures of the same object would be consequences keyed under a later operation."""
        good_all = True
        pc = type(p)
        state = getattr(p, attr)
        nb = int(p.nbestfndr) if kind == "GB" else None
        A = numpy.asarray(state, dtype=float)
        w = {"kind": kind, "built_by": built, "history": list(history), attr: state, "nbestfndr": nb}
        if not numpy.all(numpy.isfinite(A)):    # only reachable through a defective from_pgmat_gpmod: judged by the problems family
            ctx.sumnote("lifecycle: non-finite state handed over by the constructor (not judged here)")
            return False
        if hap:
            good_all &= ctx.check("C18.state.props", int(p.ploidy) == A.shape[0] and int(p.nlatent) == A.shape[3], defsite(pc, "ploidy"),
                      "ploidy and nlatent are those of the current haplomat", after, witness=dict(w, ploidy=p.ploidy, nlatent=p.nlatent), coords=coords)
            ploidy = A.shape[0]
            sc = ploidy * A.shape[2] * float(numpy.abs(A).max()) if A.size else 0.0
        else:
            good_all &= ctx.check("C18.state.props", int(p.nlatent) == A.shape[1], defsite(pc, "nlatent"), "nlatent is that of the current ohvmat", after,
                      witness=dict(w, nlatent=p.nlatent), coords=coords)
            sc = float(numpy.abs(A).max()) if A.size else 0.0
        eps = dtype_rtol(numpy.asarray(state).dtype) * sc + O.ATOL
        for rep in range(2):
            x = draw_x(p)
            exp = state_oracle(kind, state, x, nb)
            wx = dict(w, x=x, expected=exp)
            site = defsite(pc, "latentfn")
            ok, lv = guarded(ctx, site, after, coords, lambda: p.latentfn(x), wx)
            if not ok or not ctx.check("C18.state.latentfn", close(ctx, "state latentfn error", lv, exp, eps), site,
                                       "== oracle on the object's current public state", after, witness=dict(wx, got=lv), coords=coords):
                good_all = False
                continue        # evalfn is derived from latentfn: one root cause, one key
            site = defsite(pc, "evalfn")
            ok, ev = guarded(ctx, site, after, coords, lambda: p.evalfn(x), wx)
            good_all &= ok
            if ok:
                wt = numpy.asarray(p.obj_wt, dtype=float)
                good = isinstance(ev, tuple) and len(ev) == 3 and close(ctx, "state evalfn error", ev[0], wt * exp, eps * max(1.0, float(numpy.abs(wt).max())))
                good_all &= ctx.check("C18.state.evalfn", good, site, "objectives == current obj_wt * oracle latent vector (identity transformation)",
                          after + ("/obj_wt changed" if wt_changed else ""),
                          witness=dict(wx, got=ev, obj_wt=wt), coords=coords)
                if rep == 1 and good:       # pymoo entry point: one solution and a population of two
                    site = defsite(pc, "_evaluate")
                    x2 = draw_x(p)
                    exp2 = state_oracle(kind, state, x2, nb)

                    def via_pymoo():
                        o1, o2 = {}, {}
                        p._evaluate(numpy.asarray(x), o1)
                        p._evaluate(numpy.stack([numpy.asarray(x), numpy.asarray(x2)]), o2)
                        return o1.get("F"), o2.get("F")
                    ok, fs = guarded(ctx, site, after, coords, via_pymoo, wx)
                    good_all &= ok
                    if ok:
                        e2 = eps * max(1.0, float(numpy.abs(wt).max()))
                        good2 = fs[0] is not None and fs[1] is not None and close(ctx, "state evalfn error", fs[0], wt * exp, e2) \
                            and close(ctx, "state evalfn error", fs[1], numpy.stack([wt * exp, wt * exp2]), e2)
                        good_all &= ctx.check("C18.state.evalfn", good2, site, "F of one solution and of a population == obj_wt * oracle latent vectors",
                                              after + ("/obj_wt changed" if wt_changed else ""), witness=dict(wx, x2=x2, got=fs), coords=coords)
        return good_all

    # finding keys name the last operation that changed latent-relevant state (not merely the last operation made)
    history = ["fresh"]
    last = "fresh object"
    wt_changed = False
    if not evaluate(prob, last):
        return
    nops = int(g.integers(2, 6))
    for _ in range(nops):
        ops = ["set state (same shape)", "write state in place", "set obj_wt", "copy", "evaluate again"]
        if hap:
            ops += ["set state (other ploidy and block count)", "set state (other ploidy and block count)"]
        if kind == "GB":
            ops += ["set nbestfndr"]
        op = str(g.choice(ops))
        history.append(op)
        try:
            if op in ("set state (same shape)", "set state (other ploidy and block count)"):
                same = op == "set state (same shape)"
                new, _, _ = new_state(tuple(numpy.shape(getattr(prob, attr))) if hap and same else None)
                setattr(prob, attr, new)
                last = "after %s setter%s" % (attr, "" if same or not hap else " (shape changed)")
                ctx.check("C18.state.props", getattr(prob, attr) is new or numpy.array_equal(getattr(prob, attr), new), defsite(type(prob), attr),
                          "getter returns the matrix that was set", last, coords=coords)
                if not evaluate(prob, last):
                    return
            elif op == "write state in place":
                cur = getattr(prob, attr)
                if not cur.flags.writeable:
                    continue
                repl, _, _ = gen_state(g, cur.shape, "gauss")
                cur[...] = repl.astype(cur.dtype)
                last = "after in-place write to %s" % attr
                if not evaluate(prob, last):
                    return
            elif op == "set obj_wt":
                prob.obj_wt = g.choice([-1.0, 1.0, 0.5, -2.0, 0.0], t).astype(float)
                wt_changed = True
                if not evaluate(prob, last):
                    return
            elif op == "set nbestfndr":
                prob.nbestfndr = int(g.integers(1, k + 1))
                last = "after nbestfndr setter"
                if not evaluate(prob, last):
                    return
            elif op == "evaluate again":
                if not evaluate(prob, last):
                    return
            elif op == "copy":
                deep = bool(g.random() < 0.7)
                try:
                    cp = copy.deepcopy(prob) if deep else copy.copy(prob)
                except Exception as e:
                    ctx.raised("lifecycle: copy of the problem object", e)
                    continue
                new, _, _ = new_state(tuple(numpy.shape(getattr(prob, attr))) if hap and g.random() < 0.5 else None)
                setattr(cp, attr, new)
                if not (evaluate(cp, "%s copy after its own %s setter" % ("deep" if deep else "shallow", attr))
                        and evaluate(prob, last + "/its copy was changed since")):
                    return
        except Exception as e:
            ctx.raised("lifecycle: %s" % op, e)
            ctx.ok("C18.returns")
            ctx.violation("C18.returns", "%s (%s)" % (type(prob).__name__, op), "raised %s" % type(e).__name__, "long-lived object",
                          what="%s on a long-lived %s raised %s: %s" % (op, type(prob).__name__, type(e).__name__, str(e)[:160]),
                          witness={"history": history}, coords=coords)
            return


# ---------------------------------------------------------------- long-lived selection protocols / repeated factory calls
def gen_effects(g, m, t):
    uk = str(g.choice(["gauss", "gauss", "integers", "negative", "decades", "zeros"]))
    if uk == "gauss":
        u = g.normal(size=(m, t))
    elif uk == "integers":
        u = g.integers(-3, 4, (m, t)).astype(float)
    elif uk == "negative":
        u = -numpy.abs(g.normal(size=(m, t))) - 0.05
    elif uk == "decades":
        u = g.choice([-1.0, 1.0], (m, t)) * 10.0 ** g.uniform(-4, 4, (m, t))
    else:
        u = g.normal(size=(m, t)) * (g.random((m, t)) < 0.4)
    return numpy.ascontiguousarray(u, dtype=float)


def ref_partition(ctx, S, L, nblk, coords):
    """The library's partition of layout L into nblk blocks, obtained from direct calls of the three helpers and judged
    by the partition monitors.  Returns the blocks [(st, sp)] or None (root cause then reported at the helper)."""
    H = S["H"]
    genpos, stix, spix = L["genpos"], L["stix"], L["spix"]
    w = {"genpos": genpos, "chrgrp_stix": stix, "chrgrp_spix": spix, "nhaploblk": nblk}
    icls_app = O.apportion_class(genpos, stix, spix)
    ok, per = guarded(ctx, "nhaploblk_chrom", icls_app, coords, lambda: H.nhaploblk_chrom(nblk, genpos.copy(), stix.copy(), spix.copy()), w)
    if not ok or not O.check_apportion(ctx, nblk, per, stix, spix, icls_app, coords, w):
        return None
    per = numpy.asarray(per)
    icls_bin = O.bin_occupancy_class(per, genpos, stix, spix)
    w2 = dict(w, per_chromosome=per)
    ok, lab = guarded(ctx, "haplobin", icls_bin, coords, lambda: H.haplobin(per.copy(), genpos.copy(), stix.copy(), spix.copy()), w2)
    if not ok:
        return None
    runs = O.check_labels(ctx, nblk, lab, stix, spix, icls_bin, coords, w2)
    ok, bnd = guarded(ctx, "haplobin_bounds", icls_bin, coords, lambda: H.haplobin_bounds(numpy.array(lab)), w2)
    if not ok:
        return None
    rb = O.check_bounds(ctx, lab, bnd, icls_bin, coords, w2)
    if runs is None or rb is None or runs != rb:
        return None
    return runs


def case_protocols(ctx, c):
    """One selection protocol object (or, 25%, one problem factory) is asked for its problem 3-6 times.  Between the calls
    exactly one input changes: the model is replaced / its u_a reassigned / written in place, nhaploblk changes, the
    genotype matrix is replaced (new object, a deep copy, a taxa selection) or written in place, nparent / unique_parents /
    nbestfndr change, the protocol is copied, or nothing changes.  Every returned problem is judged against the oracle on
    the inputs of THAT call; an earlier problem is re-scored afterwards on the inputs of ITS call."""
    import copy
    import itertools
    S = setup()
    g = ctx.rng("protocols", c)
    coords = [c, "protocols"]
    L = gen_layout(g)
    m, nchr = L["m"], L["nchr"]
    while True:
        nph, n, G, u, uk = gen_values(g, m)
        if n >= 2:
            break
    t = u.shape[1]
    ploidy = nph
    kind = str(g.choice(["OPV", "OPV", "OPV", "GB", "GB", "OHV-Subset", "OHV-Subset", "OHV-Real", "OHV-Integer", "OHV-Binary"]))
    hap = kind in ("OPV", "GB")
    sub = kind.split("-")[1] if not hap else "Subset"
    via_protocol = bool(g.random() < 0.75)
    ctx.case("protocols:%s/%s" % (kind, "protocol" if via_protocol else "factory"), L["genpos"], L["lens"], L["nblk"], G, u, trivial=m < 2)
    if c % 101 == 0:
        ctx.sample(dict(summary(L, nph, n, u, uk), fn="repeated problem() calls on one %s %s" % (kind, "protocol" if via_protocol else "factory")))
    taxa_names = numpy.array(["t%02d" % i for i in range(8)], dtype=object)
    phypos = numpy.arange(1, m + 1, dtype="int64") * 10

    def make_pg(Gv):
        pg = S["PG"](numpy.ascontiguousarray(Gv, dtype="int8").copy(), taxa=taxa_names[:Gv.shape[1]].copy(), vrnt_chrgrp=L["chrgrp"].copy(),
                     vrnt_phypos=phypos.copy(), vrnt_genpos=L["genpos"].copy(), ploidy=nph)
        pg.group_vrnt()
        return pg

    def new_G(nn):
        return g.integers(0, 2, (nph, nn, m)).astype("int8") if g.random() < 0.8 else (g.random((nph, nn, m)) < 0.2).astype("int8")

    def pick_nparent(nn):
        return int(g.integers(1, nn + 1)) if hap else int(g.integers(1, min(3 if nn <= 5 else 2, nn) + 1))

    if hap:
        pcls = S["POPV"].OptimalPopulationValueSubsetSelection if kind == "OPV" else S["PGB"].GenotypeBuilderSubsetSelection
        cls = S["MOPV"].OptimalPopulationValueSubsetSelectionProblem if kind == "OPV" else S["MGB"].GenotypeBuilderSubsetSelectionProblem
        hookname = defsite(cls, "_calc_haplomat")
    else:
        pcls = getattr(S["POHV"], "OptimalHaploidValue%sSelection" % sub)
        cls = getattr(S["MOHV"], "OptimalHaploidValue%sSelectionProblem" % sub)
        hookname = defsite(S["MOHV"].OptimalHaploidValueSelectionProblemMixin, "_calc_haplomat")
    msite = "%s.problem" % pcls.__name__ if via_protocol else defsite(cls, "from_pgmat_gpmod")
    # ---- current inputs (the harness's own record of what the next call is given)
    cur = {"G": G, "u": u, "nblk": L["nblk"], "nparent": pick_nparent(n), "unique": bool(g.random() < 0.6), "nbest": 1}
    if kind == "GB":
        cur["nbest"] = 1 if g.random() < 0.4 else int(g.integers(1, cur["nparent"] + 1))
    try:
        pg = make_pg(G)
        mod, _, _ = gen_model(g, S, u)
        prot = None
        if via_protocol:
            pa = dict(ntrait=t, nhaploblk=cur["nblk"], ncross=1, nparent=cur["nparent"], nmating=1, nprogeny=1, nobj=t)
            if kind == "GB":
                pa["nbestfndr"] = cur["nbest"]
            if not hap:
                pa["unique_parents"] = cur["unique"]
            prot = pcls(**pa)
    except Exception as e:
        ctx.raised("protocols: harness construction", e)
        return
    if not (numpy.array_equal(pg.mat, G) and numpy.array_equal(pg.vrnt_genpos, L["genpos"])):
        ctx.sumnote("harness: grouped layout differs from the canonical one (case skipped)")
        return
    partitions = {}
    earlier = []        # records of problems returned so far: {"p", "score", "live"}
    nsteps = int(g.integers(3, 7))
    op = "first call"
    copied = ""
    for step in range(nsteps):
        if step > 0:
            ops = ["model replaced", "model replaced", "model u_a written in place", "model u_a reassigned", "nhaploblk changed", "nhaploblk changed",
                   "genotype matrix replaced", "genotype matrix replaced by its deep copy then written", "genotype matrix replaced by a taxa selection",
                   "genotype matrix written in place", "nparent changed", "same inputs again"]
            if not hap:
                ops.append("unique_parents changed")
            if kind == "GB":
                ops.append("nbestfndr changed")
            if via_protocol:
                ops.append("protocol copied")
            op = str(g.choice(ops))
            if op == "protocol copied":
                deep = bool(g.random() < 0.6)
                try:
                    prot = copy.deepcopy(prot) if deep else copy.copy(prot)
                except Exception as e:
                    ctx.raised("protocols: copy of the protocol object", e)
                    return
                copied = "/on a copy of the protocol"
                op = str(g.choice(["model replaced", "model u_a written in place", "nhaploblk changed", "genotype matrix replaced", "same inputs again"]))
            nn = cur["G"].shape[1]
            # harness arithmetic first, library setters inside the try
            if op in ("model replaced", "model u_a written in place", "model u_a reassigned"):
                unew = gen_effects(g, m, t)
            elif op == "nhaploblk changed":
                cand = [b for b in range(nchr, m + 1) if b != cur["nblk"]]
                if not cand:
                    op = "same inputs again"
                else:
                    r = g.random()
                    nb_new = cand[0] if r < 0.25 else (cand[-1] if r < 0.5 else int(g.choice(cand)))
            elif op == "genotype matrix replaced by a taxa selection":
                if nn <= 2:
                    op = "genotype matrix replaced"
                else:
                    tsel = numpy.sort(g.choice(nn, int(g.integers(2, nn)), replace=False)) if g.random() < 0.5 else g.permutation(nn)[:int(g.integers(2, nn + 1))]
            elif op == "nparent changed":
                cand = [v for v in range(1, (nn if hap else min(3 if nn <= 5 else 2, nn)) + 1) if v != cur["nparent"]]
                if not cand:
                    op = "same inputs again"
                else:
                    np_new = int(g.choice(cand))
            elif op == "nbestfndr changed":
                cand = [v for v in range(1, cur["nparent"] + 1) if v != cur["nbest"]]
                if not cand:
                    op = "same inputs again"
                else:
                    nbest_new = int(g.choice(cand))
            if op in ("genotype matrix replaced", "genotype matrix replaced by its deep copy then written", "genotype matrix written in place"):
                Gnew = new_G(nn)
            try:
                if op == "model replaced":
                    mod, _, _ = gen_model(g, S, unew); cur["u"] = unew
                elif op == "model u_a written in place":
                    mod.u_a[...] = unew; cur["u"] = unew
                    for r_ in earlier:
                        r_["live"] &= r_["mod"] is not mod
                elif op == "model u_a reassigned":
                    mod.u_a = unew.copy(); cur["u"] = unew
                    for r_ in earlier:
                        r_["live"] &= r_["mod"] is not mod
                elif op == "nhaploblk changed":
                    cur["nblk"] = nb_new
                    if prot is not None:
                        prot.nhaploblk = nb_new
                elif op == "genotype matrix replaced":
                    pg = make_pg(Gnew); cur["G"] = Gnew
                elif op == "genotype matrix replaced by its deep copy then written":
                    pg = copy.deepcopy(pg); pg.mat[...] = Gnew; cur["G"] = Gnew
                elif op == "genotype matrix replaced by a taxa selection":
                    pg = pg.select_taxa(tsel); cur["G"] = numpy.ascontiguousarray(cur["G"][:, tsel, :])
                elif op == "genotype matrix written in place":
                    pg.mat[...] = Gnew; cur["G"] = Gnew
                    for r_ in earlier:
                        r_["live"] &= r_["pg"] is not pg
                elif op == "nparent changed":
                    if kind == "GB" and prot is not None:
                        prot.nbestfndr = 1
                    cur["nparent"] = np_new
                    if prot is not None:
                        prot.nparent = np_new
                    if kind == "GB":
                        cur["nbest"] = min(cur["nbest"], np_new)
                        if prot is not None:
                            prot.nbestfndr = cur["nbest"]
                elif op == "unique_parents changed":
                    cur["unique"] = not cur["unique"]
                    if prot is not None:
                        prot.unique_parents = cur["unique"]
                elif op == "nbestfndr changed":
                    cur["nbest"] = nbest_new
                    if prot is not None:
                        prot.nbestfndr = nbest_new
            except Exception as e:
                ctx.raised("protocols: harness operation '%s'" % op, e)
                return
            # a taxa selection may leave fewer taxa than parents asked for: shrink through the setters (part of the same step)
            nn = cur["G"].shape[1]
            lim = nn if hap else min(3 if nn <= 5 else 2, nn)
            if cur["nparent"] > lim:
                try:
                    cur["nparent"] = lim; cur["nbest"] = min(cur["nbest"], lim)
                    if prot is not None:
                        if kind == "GB":
                            prot.nbestfndr = 1
                        prot.nparent = lim
                        if kind == "GB":
                            prot.nbestfndr = cur["nbest"]
                except Exception as e:
                    ctx.raised("protocols: harness operation 'nparent shrunk'", e)
                    return
        # finding keys carry the coarse class of what changed since the previous call; the exact operation is in the witness
        grp = "model changed" if op.startswith("model") else "genotypes changed" if op.startswith("genotype") else \
            "nhaploblk changed" if op.startswith("nhaploblk") else "same inputs again" if op.startswith("same") else "nparent / unique_parents / nbestfndr changed"
        icls = "first call" if step == 0 else "later call on the same %s/%s" % ("protocol object" if via_protocol else "factory and matrix object", grp)
        ctx.sumnote("protocols step: " + op)
        Gc, uc, nblk, nparent, unique, nbest = cur["G"], cur["u"], cur["nblk"], cur["nparent"], cur["unique"], cur["nbest"]
        nn = Gc.shape[1]
        # the oracle reads the objects' public state, not the harness's record: both must agree (else the harness is wrong)
        if not (numpy.array_equal(pg.mat, Gc) and numpy.array_equal(numpy.asarray(mod.u_a), uc) and pg.ntaxa == nn):
            ctx.sumnote("harness: protocol inputs differ from the harness record (case stopped)")
            return
        if nblk not in partitions:
            partitions[nblk] = ref_partition(ctx, S, L, nblk, coords)
        refblocks = partitions[nblk]
        if refblocks is None:
            return
        w = {"kind": kind, "via": msite, "step": step, "changed_since_previous_call": op + copied, "genpos": L["genpos"], "chrgrp_stix": L["stix"],
             "chrgrp_spix": L["spix"], "nhaploblk": nblk, "genomemat": Gc, "u_a": uc, "nparent": nparent, "unique_parents": unique, "nbestfndr": nbest}
        if via_protocol:
            make = (lambda: prot.problem(pg, None, None, None, mod, 0, 1))
        elif kind == "OPV":
            make = (lambda: cls.from_pgmat_gpmod(nhaploblk=nblk, pgmat=pg, gpmod=mod, **subset_args(nparent, nn, t)))
        elif kind == "GB":
            make = (lambda: cls.from_pgmat_gpmod(pgmat=pg, gpmod=mod, nhaploblk=nblk, nbestfndr=nbest, **subset_args(nparent, nn, t)))
        else:
            ncfg0 = len(list((itertools.combinations if unique else itertools.combinations_with_replacement)(range(nn), nparent)))
            fargs = subset_args(min(ncfg0, 2), ncfg0, t) if sub == "Subset" else vector_args(sub, ncfg0, t)
            make = (lambda: cls.from_pgmat_gpmod(nparent=nparent, nhaploblk=nblk, unique_parents=unique, pgmat=pg, gpmod=mod, **fargs))
        p, status, blocks, _ = run_consumer(ctx, msite, hookname, dict(L, nblk=nblk), O.apportion_class(L["genpos"], L["stix"], L["spix"]), coords, w, make)
        if p is None or status in ("bad-apportion", "bad-partition"):
            return
        if via_protocol:
            ctx.hook("problem built by a selection protocol")
        if status != "ok":
            ctx.sumnote("protocols: partition helpers not called during this call (reference partition used)")
            blocks = refblocks
        if type(p) is not cls:
            ctx.check("C18.repeat.state", False, msite, "builds the matching problem class", icls, witness=dict(w, got=type(p).__name__), coords=coords)
            return
        V = O.block_values(Gc, uc, blocks)
        sc = O.value_scale(uc, ploidy); eps = O.tol(sc)
        # ---- the state of the returned problem
        if hap:
            Hm = numpy.asarray(p.haplomat, dtype=float)
            T = O.copy_totals(Gc, uc)
            good = Hm.shape == (nph, nn, nblk, t) and bool(numpy.all(numpy.isfinite(Hm)))
            cons = good and float(numpy.abs(Hm.sum(2) - T).max()) <= O.tol(O.value_scale(uc))
            ok = ctx.check("C18.repeat.state", cons, msite, "haplomat finite, (phases, taxa, blocks, traits) of THIS call, block sums == copy totals under the "
                           "genotypes and model passed to this call", icls,
                           what="%s: the problem returned by a %s does not hold the block values of the genotypes/model/nhaploblk it was given"
                                % (msite, icls), witness=dict(w, haplomat=p.haplomat, copy_totals=T), coords=coords)
            if ok:
                same, _ = O.match_slots(Hm, V, O.tol(O.value_scale(uc)))
                ok = ctx.check("C18.repeat.state", same, msite, "haplomat slots == block values of this call's inputs (any one-to-one order)", icls,
                               witness=dict(w, haplomat=p.haplomat, blocks=blocks, expected=V), coords=coords)
            if int(p.ndecn) != nparent or (kind == "GB" and int(p.nbestfndr) != nbest):
                ok = ctx.check("C18.repeat.state", False, msite, "ndecn / nbestfndr are those current on the protocol", icls,
                               witness=dict(w, ndecn=p.ndecn, nbestfndr=getattr(p, "nbestfndr", None)), coords=coords) and ok
            nspace, k = nn, nparent
            exp_of = (lambda x, V=V, nbest=nbest: -O.best_sum(V, x, ploidy)) if kind == "OPV" else (lambda x, V=V, nbest=nbest: -O.gb_value(V, x, nbest, ploidy))
        else:
            om = numpy.asarray(p.ohvmat, dtype=float); xm = numpy.asarray(p.decn_space_xmap)
            want = list((itertools.combinations if unique else itertools.combinations_with_replacement)(range(nn), nparent))
            ok = ctx.check("C18.repeat.state", xm.ndim == 2 and sorted(map(tuple, xm.tolist())) == sorted(want), msite,
                           "decn_space_xmap lists exactly the parent tuples of this call (taxa count, nparent, unique_parents)", icls,
                           witness=dict(w, decn_space_xmap=xm), coords=coords)
            if ok:
                expm = numpy.array([O.best_sum(V, xm[r], ploidy) for r in range(xm.shape[0])])
                ok = ctx.check("C18.repeat.state", close(ctx, "repeat ohv error", om, expm, eps), msite,
                               "ohvmat == ploidy * sum_blocks max over (parents, phases) under the genotypes and model passed to this call", icls,
                               what="%s: the problem returned by a %s does not hold the OHV of the genotypes/model/nhaploblk it was given" % (msite, icls),
                               witness=dict(w, ohvmat=om, decn_space_xmap=xm, expected=expm), coords=coords)
            if ok:
                nspace = xm.shape[0]; k = int(g.integers(1, min(nspace, 4) + 1))
                if sub == "Subset":
                    exp_of = (lambda x, expm=expm: -expm[numpy.asarray(x, dtype=int)].mean(0))
                else:
                    exp_of = (lambda x, expm=expm: -(numpy.asarray(x, dtype=float) / float(numpy.sum(x))) @ expm)
        if not ok:
            return          # later calls of this object would repeat the same root cause under other input classes

        def draw_x(nspace=nspace, k=k):
            if sub == "Subset":
                return g.choice(nspace, k, replace=False).astype(int)
            cnt = numpy.zeros(nspace); cnt[g.choice(nspace, k, replace=False)] = 1
            return {"Real": cnt * g.uniform(0.1, 1.0, nspace), "Integer": (cnt * g.integers(1, 6, nspace)).astype(int), "Binary": cnt.astype(int)}[sub]

        # ---- its scores
        lsite = defsite(cls, "latentfn")
        for rep in range(2):
            x = draw_x()
            expl = exp_of(x)
            wx = dict(w, x=x, expected=expl)
            okc, lv = guarded(ctx, lsite, icls, coords, lambda: p.latentfn(x), wx)
            if not okc:
                return
            okv = ctx.check("C18.repeat.latentfn", close(ctx, "repeat latentfn error", lv, expl, eps), msite,
                            "latentfn of the returned problem == oracle on the inputs of this call", icls, witness=dict(wx, got=lv), coords=coords)
            if not okv:
                return
            if kind == "OPV" and rep == 0 and len(blocks) <= 5:
                check_bound(ctx, msite, -numpy.asarray(lv, dtype=float), Gc, uc, blocks, x, ploidy, icls, coords, wx)
        # ---- an earlier problem of the same object still answers for the inputs of its own call
        live = [r_ for r_ in earlier if r_["live"]]
        if live:
            r_ = live[int(g.integers(0, len(live)))]
            x = r_["draw"]()
            expl = r_["exp_of"](x)
            wx = {"kind": kind, "via": msite, "built_at_step": r_["step"], "rescored_after_step": step, "x": x, "expected": expl}
            okc, lv = guarded(ctx, lsite, "earlier problem re-scored", coords, lambda: r_["p"].latentfn(x), wx)
            if not okc or not ctx.check("C18.repeat.earlier", close(ctx, "repeat latentfn error", lv, expl, r_["eps"]), msite,
                                        "an earlier problem still scores the inputs of its own call after later calls", "after a later call/" + grp,
                                        witness=dict(wx, got=lv), coords=coords):
                return
        earlier.append({"p": p, "pg": pg, "mod": mod, "step": step, "draw": draw_x, "exp_of": exp_of, "eps": eps, "live": True})


FAMILIES = {"helpers": (case_helpers, 20000, 400000), "problems": (case_problems, 10000, 160000),
            "lifecycle": (case_lifecycle, 6000, 100000), "protocols": (case_protocols, 3000, 50000)}


def run_shard(ctx):
    setup()
    for name, (fn, q, t) in FAMILIES.items():
        for c in ctx.case_ids(q, t):
            fn(ctx, c)


def replay(ctx, coords):
    setup()
    FAMILIES[coords[1]][0](ctx, int(coords[0]))
