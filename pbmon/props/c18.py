"""C18 - haplotype-block values conserve genomic value and bound progeny (haplo helpers, OHV, OPV, genotype builder)."""
import inspect

import numpy

from pbmon import boot  # noqa: F401
from pbmon import hooks
from pbmon.oracle import haploblocks as O

PROPERTY = "C18"
NSHARDS = {"quick": 4, "thorough": 16}
CLAUSES = {   # minimum evaluations per run (about a fifth of what a quick run makes on the unchanged tree)
    "C18.partition.apportion": 50000, "C18.partition.labels": 30000, "C18.partition.chrom": 15000,
    "C18.partition.count": 15000, "C18.partition.bounds": 50000,
    "C18.blockvalue": 10000, "C18.conservation": 5000,
    "C18.ohv": 3000, "C18.ohv.latentfn": 2000, "C18.opv": 1000, "C18.gb": 1000,
    "C18.bound": 3000, "C18.finite": 10000,
}
HOOKS_REQUIRED = ["haplobin<-haplomat", "haplobin<-OptimalHaploidValueSelectionProblemMixin._calc_haplomat",
                  "haplobin<-OptimalPopulationValueSelectionProblemMixin._calc_haplomat",
                  "haplobin<-GenotypeBuilderSelectionProblemMixin._calc_haplomat",
                  "haplobin_bounds<-haplomat", "nhaploblk_chrom<-haplomat"]
RULE = ("seeded class-based marker layouts: 1-4 chromosomes (non-consecutive labels) of 1-16 markers; position classes even, "
        "clustered (equal-width bins left empty), lattice positions exactly on bin edges, coincident positions (incl. zero-length "
        "chromosomes), single-marker chromosomes, random, offset/rescaled (1e6 offsets, cM scale), unequal (long chromosome with "
        "few markers), mixed; block totals nchr, nchr+1, m-1, m and uniform in between; haplobin also driven with harness-made "
        "apportionments; genotypes 1-4 phases x 1-8 taxa (random, sparse, duplicated taxa, constant); effects 1-3 traits (gaussian, "
        "small integers = exact arithmetic, all-negative, 12 decades of magnitude, zeros); OHV crosses of 1-4 parents with and "
        "without repeated parents in the four encodings, chunk sizes 1..None; OPV/GB subsets of 1..n taxa.  Non-trivial: >= 2 "
        "markers and >= 1 block boundary possible (nblk >= 2); distinct = digest of positions, chromosome sizes, block total, "
        "genotypes and effects.")
ASSUME = [
    "valid input = markers grouped by chromosome and sorted by genetic position within it (ties allowed), nchr <= nhaploblk <= #markers",
    "block value = additive value of the block's markers (allele codes 0/1 times u_a); the intercept is not part of it",
    "ohvmat rows follow decn_space_xmap (row c = cross whose parents are xmap[c]); latentfn returns the NEGATED value "
    "(minimisation convention): subset OHV = -mean of the selected crosses' OHV, real/integer/binary OHV = -(x/sum x).ohvmat, "
    "OPV = -ploidy*sum_blocks max over (phase, selected taxa)",
    "genotype builder (docstring): -ploidy/nbestfndr * sum over blocks of the nbestfndr largest per-taxon best-phase block values "
    "among the selected taxa; with nbestfndr = 1 this is the OPV of the statement",
    "the order of the block axis of haplomat is not constrained by the statement: any one-to-one placement of the block values is accepted",
    "label values returned by haplobin are not constrained beyond being non-decreasing (gaps in the numbering are accepted)",
]
TRUSTED = ["pbmon.oracle.haploblocks (marker-by-marker sums, mosaic-haplotype enumeration)"]

TRACE = []
_STATE = {}


# ---------------------------------------------------------------- hooks (recorders on the three helpers, wherever they are bound)
def setup():
    if _STATE:
        return _STATE
    import pybrops.core.util.haplo as H
    import pybrops.breed.prot.sel.prob.OptimalHaploidValueSelectionProblem as MOHV
    import pybrops.breed.prot.sel.prob.OptimalPopulationValueSelectionProblem as MOPV
    import pybrops.breed.prot.sel.prob.GenotypeBuilderSelectionProblem as MGB
    from pybrops.popgen.gmat.DensePhasedGenotypeMatrix import DensePhasedGenotypeMatrix
    from pybrops.model.gmod.DenseAdditiveLinearGenomicModel import DenseAdditiveLinearGenomicModel
    sigs = {}
    for name in ("nhaploblk_chrom", "haplobin", "haplobin_bounds"):
        orig = getattr(H, name)
        assert boot.under_repo(orig), name
        sigs[name] = inspect.signature(orig)

        def on_call(a, k, r, name=name):
            TRACE.append((name, sigs[name].bind(*a, **k).arguments, r))
        hooks.rebind(orig, hooks.recording(orig, name, on_call))
    _STATE.update(H=H, MOHV=MOHV, MOPV=MOPV, MGB=MGB, PG=DensePhasedGenotypeMatrix, GM=DenseAdditiveLinearGenomicModel)
    return _STATE


def defsite(cls, attr):
    """Name of the class in the MRO that defines ``attr`` (finding keys name the implementing class)."""
    for k in cls.__mro__:
        if attr in vars(k):
            return "%s.%s" % (k.__name__, attr)
    return "%s.%s" % (cls.__name__, attr)


# ---------------------------------------------------------------- generators
KINDS = ["even", "clustered", "boundary", "ties", "random", "offset"]


def chrom_positions(g, kind, L):
    if L == 1:
        return numpy.array([float(g.choice([0.0, 0.3, 1.7, 250.0]))])
    if kind == "even":
        return numpy.linspace(0.0, float(g.choice([1.0, 0.5, 2.0, 1.5, L - 1.0])), L)
    if kind == "clustered":
        mode = int(g.integers(0, 3))
        nfar = int(g.integers(1, max(2, L // 3 + 1)))
        near = g.uniform(0, 0.02, L - nfar)
        if mode == 2 and L >= 4:    # two clusters, empty middle
            far = 1.0 - g.uniform(0, 0.02, nfar)
        else:
            far = g.uniform(0.7, 1.0, nfar)
        x = numpy.sort(numpy.r_[near, far])
        return numpy.sort(1.0 - x) if mode == 1 else x
    if kind == "boundary":      # lattice points k/q of the span: markers sit exactly on equal-width bin edges
        q = int(g.choice([2, 3, 4, 5, 6, 8]))
        k = numpy.sort(g.integers(0, q + 1, L))
        if g.random() < 0.7:
            k[0] = 0; k[-1] = q
        return k / q * float(g.choice([1.0, 2.0, 0.5, 3.0]))
    if kind == "ties":
        if g.random() < 0.25:
            return numpy.repeat(float(g.choice([0.0, 0.4])), L)     # zero genetic length
        pool = numpy.sort(g.uniform(0, 1, int(g.integers(2, 4))))
        return numpy.sort(g.choice(pool, L))
    if kind == "random":
        return numpy.sort(g.uniform(0, 2, L))
    if kind == "offset":
        return numpy.sort(g.uniform(0, 1, L)) * float(g.choice([1.0, 100.0, 0.01])) + float(g.choice([1e3, 1e6, -50.0]))
    raise ValueError(kind)


def gen_layout(g):
    cls = str(g.choice(KINDS + ["single", "unequal", "mixed"]))
    nchr = int(g.integers(1, 5))
    big = g.random() < 0.15
    lens = [int(g.integers(1, 17 if big else 9)) for _ in range(nchr)]
    if cls == "single":
        lens = [1 if g.random() < 0.6 else L for L in lens]
    if cls == "unequal" and nchr >= 2:
        lens[0] = int(g.integers(1, 3)); lens[1] = max(lens[1], 5)
    pos = []
    for c, L in enumerate(lens):
        kind = cls if cls in KINDS else str(g.choice(KINDS))
        x = chrom_positions(g, kind, L)
        if cls == "unequal" and nchr >= 2:
            x = (numpy.array([0.0, 5.0])[:L] if c == 0 else numpy.sort(g.uniform(0, 0.3, L)))
        pos.append(numpy.asarray(x, dtype=float))
    genpos = numpy.concatenate(pos)
    spix = numpy.cumsum(lens).astype(int)
    stix = spix - numpy.array(lens, dtype=int)
    m = int(spix[-1])
    labels = numpy.sort(g.choice(numpy.arange(1, 12), nchr, replace=False))
    chrgrp = numpy.repeat(labels, lens).astype("int64")
    r = g.random()
    if r < 0.2:
        nblk = nchr
    elif r < 0.4:
        nblk = m
    elif r < 0.5:
        nblk = max(nchr, m - 1)
    elif r < 0.6:
        nblk = min(m, nchr + 1)
    else:
        nblk = int(g.integers(nchr, m + 1))
    return {"class": cls, "genpos": genpos, "stix": stix, "spix": spix, "lens": numpy.array(lens, dtype=int), "chrgrp": chrgrp,
            "nblk": int(nblk), "m": m, "nchr": nchr}


def gen_values(g, m):
    nph = int(g.choice([2, 2, 2, 2, 1, 3, 4]))
    n = int(g.integers(1, 9))
    gk = int(g.integers(0, 5))
    if gk == 0:
        G = (g.random((nph, n, m)) < 0.15)
    elif gk == 1:
        G = numpy.repeat(g.integers(0, 2, (nph, 1, m)), n, axis=1)      # duplicated taxa
    elif gk == 2:
        G = numpy.full((nph, n, m), int(g.integers(0, 2)))              # constant
    else:
        G = g.integers(0, 2, (nph, n, m))
    G = numpy.ascontiguousarray(G).astype("int8")
    t = int(g.integers(1, 4))
    uk = str(g.choice(["gauss", "gauss", "integers", "negative", "decades", "zeros"]))
    if uk == "gauss":
        u = g.normal(size=(m, t))
    elif uk == "integers":
        u = g.integers(-3, 4, (m, t)).astype(float)
    elif uk == "negative":
        u = -numpy.abs(g.normal(size=(m, t))) - 0.05
    elif uk == "decades":
        u = g.choice([-1.0, 1.0], (m, t)) * 10.0 ** g.uniform(-6, 6, (m, t))
    else:
        u = g.normal(size=(m, t)) * (g.random((m, t)) < 0.4)
    return nph, n, G, numpy.ascontiguousarray(u, dtype=float), uk


def own_apportionment(g, nblk, lens):
    """Harness-made admissible apportionment: 1 <= per[c] <= lens[c], sum == nblk."""
    per = numpy.ones(len(lens), dtype=int)
    for _ in range(nblk - len(lens)):
        room = numpy.flatnonzero(per < lens)
        per[int(g.choice(room))] += 1
    return per


# ---------------------------------------------------------------- monitors on one observed operation
def guarded(ctx, site, icls, coords, call, witness):
    """Affirmative-result policy (DESIGN 2.1: C18 promises a finite value for every valid input)."""
    del TRACE[:]
    try:
        return True, call()
    except Exception as e:
        ctx.raised(site, e)
        ctx.ok("C18.returns")
        ctx.violation("C18.returns", site, "raised %s" % type(e).__name__, icls,
                      what="%s raised %s on a valid input: %s" % (site, type(e).__name__, str(e)[:160]), witness=witness, coords=coords)
        return False, None


def traced_partition(ctx, consumer, L, icls_app, coords, w):
    """Run the partition monitors over the helper calls recorded during one consumer operation.
    Returns (status, blocks, icls_bin): status in {'ok', 'bad-apportion', 'bad-partition', 'unobserved'}."""
    per = labels = bounds = None
    for name, args, res in TRACE:
        ctx.hook("%s<-%s" % (name, consumer))
        if name == "nhaploblk_chrom":
            per = res
        elif name == "haplobin":
            labels = res
        elif name == "haplobin_bounds":
            bounds = res
    if per is None:
        return "unobserved", None, "partition unobserved"
    if not O.check_apportion(ctx, L["nblk"], per, L["stix"], L["spix"], icls_app, coords, w):
        return "bad-apportion", None, "apportionment unusable"
    icls_bin = O.bin_occupancy_class(per, L["genpos"], L["stix"], L["spix"])
    if labels is None or bounds is None:
        return "unobserved", None, icls_bin
    w2 = dict(w, per_chromosome=per)
    runs = O.check_labels(ctx, L["nblk"], labels, L["stix"], L["spix"], icls_bin, coords, w2)
    rb = O.check_bounds(ctx, labels, bounds, icls_bin, coords, w2)
    if runs is None or rb is None or runs != rb:
        return "bad-partition", None, icls_bin
    return "ok", runs, icls_bin


def run_consumer(ctx, site, hookname, L, icls_app, coords, w, call):
    """Run one operation that partitions internally (haplomat, _calc_haplomat, a problem constructor), then run the
    partition monitors over the helper calls it made - also when it raised.  An exception downstream of an apportionment
    or partition that the monitors have just reported invalid is a consequence of that root cause (counted as raised);
    any other exception on a valid input is a violation (affirmative-result policy, DESIGN 2.1).
    Returns (result or None, status, blocks, icls_bin)."""
    del TRACE[:]
    try:
        res, exc = call(), None
    except Exception as e:
        res, exc = None, e
    status, blocks, icls = traced_partition(ctx, hookname, L, icls_app, coords, w)
    if exc is not None:
        if status in ("bad-apportion", "bad-partition"):
            ctx.raised(site + " (downstream of an apportionment/partition already reported invalid)", exc)
        else:
            ctx.raised(site, exc)
            ctx.ok("C18.returns")
            ctx.violation("C18.returns", site, "raised %s" % type(exc).__name__, icls if status == "ok" else icls_app,
                          what="%s raised %s on a valid input: %s" % (site, type(exc).__name__, str(exc)[:160]), witness=w, coords=coords)
        return None, status, blocks, icls
    return res, status, blocks, icls


def check_block_matrix(ctx, site, Hm, G, u, nblk, blocks, icls, coords, w, status="ok"):
    """finite -> conservation -> slots == block values (stops at the first failing link).  Returns oracle V or None.
    When the partition made during this very operation was already reported invalid (root cause keyed at haplobin /
    haplobin_bounds), the value clauses have no reference partition and are not evaluated: the consequences
    (unwritten slots) are only counted, so that one root cause does not fan out into a key per consumer and clause."""
    if status in ("bad-partition", "bad-apportion"):
        ctx.sumnote("value clauses not evaluated: partition of this operation already reported invalid")
        try:
            if not numpy.all(numpy.isfinite(numpy.asarray(Hm, dtype=float))):
                ctx.sumnote("non-finite block values downstream of an invalid partition (%s)" % site)
        except Exception:
            pass
        return None
    nph, n, m = G.shape
    t = u.shape[1]
    w = dict(w, haplomat=Hm)
    ok = ctx.check("C18.blockvalue", isinstance(Hm, numpy.ndarray) and Hm.shape == (nph, n, nblk, t), site,
                   "shape == (phases, taxa, requested blocks, traits)", icls, witness=w, coords=coords)
    if not ok:
        return None
    Hm = numpy.asarray(Hm, dtype=float)
    if not ctx.check("C18.finite", bool(numpy.all(numpy.isfinite(Hm))), site, "block values finite", icls, witness=w, coords=coords):
        return None
    sc = O.value_scale(u)
    eps = O.tol(sc)
    T = O.copy_totals(G, u)
    err = float(numpy.abs(Hm.sum(2) - T).max())
    ctx.maxnote("conservation |sum_blocks - total| / scale", err / sc if sc > 0 and err <= 1e3 * eps else 0.0)
    ok = ctx.check("C18.conservation", err <= eps, site, "sum over blocks == total additive value of the chromosome copy", icls,
                   what="%s: block values do not add up to the copy's additive value (%s)" % (site, icls),
                   witness=dict(w, copy_totals=T, err=err, tol=eps), coords=coords)
    if not ok:
        return None
    if blocks is None:
        ctx.sumnote("blockvalue skipped: no valid partition observed")
        return None
    V = O.block_values(G, u, blocks)
    same, werr = O.match_slots(Hm, V, eps)
    ctx.maxnote("blockvalue |slot - block value| / scale", werr / sc if same and sc > 0 else 0.0)
    ok = ctx.check("C18.blockvalue", same, site, "slots hold the block values of the partition (any one-to-one order)", icls,
                   witness=dict(w, blocks=blocks, expected=V), coords=coords)
    return V if ok else None


def check_bound(ctx, site, got, G, u, blocks, taxa, ploidy, icls, coords, w):
    vals = O.dh_values(G, u, blocks, taxa, ploidy)
    if vals is None:
        ctx.sumnote("bound skipped: too many doubled haploids")
        return
    eps = O.tol(O.value_scale(u, ploidy))
    got = numpy.asarray(got, dtype=float)
    best = vals.max(0)
    w = dict(w, value=got, best_doubled_haploid=best, n_doubled_haploids=len(vals), taxa=list(taxa))
    ctx.sumnote("doubled haploids enumerated", len(vals))
    ctx.check("C18.bound", bool(numpy.all(got >= best - eps)), site, ">= value of every block-boundary doubled haploid", icls, witness=w, coords=coords)
    ctx.check("C18.bound", bool(numpy.all(got <= best + eps)), site, "attained by the best block-boundary doubled haploid", icls, witness=w, coords=coords)


def close(ctx, note, got, exp, eps):
    got = numpy.asarray(got, dtype=float); exp = numpy.asarray(exp, dtype=float)
    if got.shape != exp.shape or not numpy.all(numpy.isfinite(got)):
        return False
    err = float(numpy.abs(got - exp).max()) if got.size else 0.0
    if err <= eps:
        ctx.maxnote(note + " / tolerance", err / eps)
    return err <= eps


# ---------------------------------------------------------------- families
def summary(L, nph, n, u, uk):
    return {"layout": L["class"], "genpos": L["genpos"].tolist(), "chrom_sizes": L["lens"].tolist(), "nhaploblk": L["nblk"],
            "phases": nph, "taxa": n, "traits": int(u.shape[1]), "effects": uk}


def case_helpers(ctx, c):
    """Direct calls of nhaploblk_chrom / haplobin / haplobin_bounds / haplomat."""
    S = setup(); H = S["H"]
    g = ctx.rng("helpers", c)
    L = gen_layout(g)
    nph, n, G, u, uk = gen_values(g, L["m"])
    coords = [c, "helpers"]
    genpos, stix, spix, lens, nblk = L["genpos"], L["stix"], L["spix"], L["lens"], L["nblk"]
    ctx.case("helpers:" + L["class"], genpos, lens, nblk, G, u, trivial=L["m"] < 2 or nblk < 2)
    if c % 101 == 0:
        ctx.sample(dict(summary(L, nph, n, u, uk), fn="haplo helpers + haplomat"))
    w = {"genpos": genpos, "chrgrp_stix": stix, "chrgrp_spix": spix, "nhaploblk": nblk}
    icls_app = O.apportion_class(genpos, stix, spix)
    # -- apportionment
    ok, per = guarded(ctx, "nhaploblk_chrom", icls_app, coords, lambda: H.nhaploblk_chrom(nblk, genpos.copy(), stix.copy(), spix.copy()), w)
    usable = ok and O.check_apportion(ctx, nblk, per, stix, spix, icls_app, coords, w)
    # -- binning, with the library's apportionment and with a harness-made one
    pers = [("library", numpy.asarray(per))] if usable else []
    pers.append(("harness", own_apportionment(g, nblk, lens)))
    for src, p in pers:
        icls_bin = O.bin_occupancy_class(p, genpos, stix, spix)
        w2 = dict(w, per_chromosome=p, apportionment=src)
        ok, lab = guarded(ctx, "haplobin", icls_bin, coords, lambda: H.haplobin(p.copy(), genpos.copy(), stix.copy(), spix.copy()), w2)
        if not ok:
            continue
        O.check_labels(ctx, nblk, lab, stix, spix, icls_bin, coords, w2)
        ok, bnd = guarded(ctx, "haplobin_bounds", icls_bin, coords, lambda: H.haplobin_bounds(numpy.array(lab)), w2)
        if ok:
            O.check_bounds(ctx, lab, bnd, icls_bin, coords, w2)
    # -- run-length bounds on synthetic admissible label vectors (gaps, offsets, negative labels)
    if c % 3 == 0:
        steps = numpy.r_[0, (g.random(L["m"] - 1) < 0.4) * g.integers(1, 4, L["m"] - 1)].astype(int)
        lab = numpy.cumsum(steps) + int(g.choice([0, 0, 5, -3]))
        ok, bnd = guarded(ctx, "haplobin_bounds", "synthetic labels", coords, lambda: H.haplobin_bounds(lab.copy()), {"labels": lab})
        if ok:
            O.check_bounds(ctx, lab, bnd, "synthetic labels", coords, {})
    # -- haplomat
    w3 = dict(w, genomemat=G, u_a=u)
    Hm, status, blocks, icls_bin = run_consumer(ctx, "haplomat", "haplomat", L, icls_app, coords, w3,
                                                lambda: H.haplomat(nblk, G.copy(), genpos.copy(), stix.copy(), spix.copy(), lens.copy(), u.copy()))
    if Hm is not None:
        check_block_matrix(ctx, "haplomat", Hm, G, u, nblk, blocks, icls_bin, coords, w3, status)


def subset_args(ndecn, nspace, nobj):
    return dict(ndecn=ndecn, decn_space=numpy.arange(nspace), decn_space_lower=numpy.repeat(0, ndecn),
                decn_space_upper=numpy.repeat(nspace - 1, ndecn), nobj=nobj)


def vector_args(kind, nspace, nobj):
    lo, up = {"Real": (0.0, 1.0), "Integer": (0, 5), "Binary": (0, 1)}[kind]
    return dict(ndecn=nspace, decn_space=numpy.stack([numpy.repeat(lo, nspace), numpy.repeat(up, nspace)]),
                decn_space_lower=numpy.repeat(lo, nspace), decn_space_upper=numpy.repeat(up, nspace), nobj=nobj)


def case_problems(ctx, c):
    """OHV (four encodings, chunked matrix), OPV and genotype-builder problems built from a genotype matrix and a model."""
    S = setup()
    g = ctx.rng("problems", c)
    L = gen_layout(g)
    nph, n, G, u, uk = gen_values(g, L["m"])
    coords = [c, "problems"]
    nblk, m = L["nblk"], L["m"]
    t = u.shape[1]
    ctx.case("problems:" + L["class"], L["genpos"], L["lens"], nblk, G, u, trivial=m < 2 or nblk < 2)
    if c % 101 == 0:
        ctx.sample(dict(summary(L, nph, n, u, uk), fn="OHV/OPV/GB problems"))
    pg = S["PG"](G.copy(), taxa=numpy.array(["t%02d" % i for i in range(n)], dtype=object), vrnt_chrgrp=L["chrgrp"].copy(),
                 vrnt_phypos=numpy.arange(1, m + 1, dtype="int64") * 10, vrnt_genpos=L["genpos"].copy(), ploidy=nph)
    pg.group_vrnt()
    mod = S["GM"](beta=g.normal(size=(1, t)), u_misc=None, u_a=u.copy(), trait=numpy.array(["y%d" % i for i in range(t)], dtype=object))
    # what the problems see (raw inputs of the oracle)
    G = numpy.array(pg.mat); genpos = numpy.array(pg.vrnt_genpos, dtype=float)
    if not (numpy.array_equal(G.shape, (nph, n, m)) and numpy.array_equal(genpos, L["genpos"]) and numpy.array_equal(pg.vrnt_chrgrp, L["chrgrp"])):
        ctx.sumnote("harness: grouping changed the marker order (case skipped)")
        return
    w = {"genpos": genpos, "chrgrp_stix": L["stix"], "chrgrp_spix": L["spix"], "nhaploblk": nblk, "genomemat": G, "u_a": u}
    icls_app = O.apportion_class(genpos, L["stix"], L["spix"])
    ploidy = nph
    sc = O.value_scale(u, ploidy); eps = O.tol(sc)

    # ------------------------------------------------ OHV
    MOHV = S["MOHV"]
    Mix = MOHV.OptimalHaploidValueSelectionProblemMixin
    nparent = int(g.integers(1, min(4, n) + 1))
    unique = bool(g.random() < 0.6)
    site = defsite(Mix, "_calc_haplomat")
    Hm, status, blocks, icls = run_consumer(ctx, site, site, L, icls_app, coords, w, lambda: Mix._calc_haplomat(pg, mod, nblk))
    V = None
    if Hm is not None:
        V = check_block_matrix(ctx, site, Hm, G, u, nblk, blocks, icls, coords, w, status)
    if V is not None:
        xmap = numpy.asarray(Mix._calc_xmap(n, nparent, unique))
        ncfg = xmap.shape[0]
        exp = numpy.array([O.best_sum(V, xmap[r], ploidy) for r in range(ncfg)])
        wx = dict(w, xmap=xmap, unique_parents=unique, expected_ohv=exp)
        # chunked matrix computation
        mem = [1, 2, 3, 5, 7, None, 1024][int(g.integers(0, 7))]
        site = defsite(Mix, "_calc_ohvmat")
        ok, om0 = guarded(ctx, site, icls, coords, lambda: Mix._calc_ohvmat(ploidy, Hm, xmap, mem), wx)
        ohv_ok = False
        if ok:
            fin = ctx.check("C18.finite", bool(numpy.all(numpy.isfinite(om0))), site, "OHV finite", icls, witness=dict(wx, ohvmat=om0), coords=coords)
            ohv_ok = fin and ctx.check("C18.ohv", close(ctx, "ohv error", om0, exp, eps), site,
                                       "== ploidy * sum_blocks max over (parents, phases)", icls + ("/chunked" if mem not in (None, 1024) else ""),
                                       witness=dict(wx, ohvmat=om0, mem=mem), coords=coords)
        # the four encodings
        kinds = ["Subset", str(g.choice(["Real", "Integer", "Binary"]))]
        for kind in kinds:
            cls = getattr(MOHV, "OptimalHaploidValue%sSelectionProblem" % kind)
            k = int(g.integers(1, min(ncfg, 4) + 1))
            args = subset_args(k, ncfg, t) if kind == "Subset" else vector_args(kind, ncfg, t)
            p, status, blocks2, icls2 = run_consumer(
                ctx, defsite(cls, "from_pgmat_gpmod"), defsite(Mix, "_calc_haplomat"), L, icls_app, coords, w,
                lambda: cls.from_pgmat_gpmod(nparent=nparent, nhaploblk=nblk, unique_parents=unique, pgmat=pg, gpmod=mod, **args))
            if p is None:
                continue
            om = numpy.asarray(p.ohvmat); xm = numpy.asarray(p.decn_space_xmap)
            fin = ctx.check("C18.finite", bool(numpy.all(numpy.isfinite(om))), defsite(cls, "from_pgmat_gpmod"), "OHV finite", icls2,
                            witness=dict(wx, ohvmat=om), coords=coords)
            if status != "ok" or not fin:
                continue
            exp2 = numpy.array([O.best_sum(V, xm[r], ploidy) for r in range(xm.shape[0])]) if xm.ndim == 2 else None
            okm = ctx.check("C18.ohv", exp2 is not None and blocks2 == blocks and close(ctx, "ohv error", om, exp2, eps),
                            defsite(cls, "from_pgmat_gpmod"), "ohvmat == ploidy * sum_blocks max over (parents, phases)", icls2,
                            witness=dict(wx, ohvmat=om, decn_space_xmap=xm), coords=coords)
            if not okm:
                continue
            if kind == "Subset":
                x = g.choice(ncfg, k, replace=False).astype(int)
                expl = -exp2[x].mean(0)
            else:
                cnt = numpy.zeros(ncfg); sel = g.choice(ncfg, k, replace=False); cnt[sel] = 1
                x = {"Real": cnt * g.uniform(0.1, 1.0, ncfg), "Integer": (cnt * g.integers(1, 6, ncfg)).astype(int), "Binary": cnt.astype(int)}[kind]
                expl = -(numpy.asarray(x, dtype=float) / float(numpy.sum(x))) @ exp2
            site = defsite(cls, "latentfn")
            ok, lv = guarded(ctx, site, icls2, coords, lambda: p.latentfn(x), dict(wx, x=x))
            if ok:
                ctx.check("C18.finite", bool(numpy.all(numpy.isfinite(lv))), site, "latent value finite", icls2, witness=dict(wx, x=x, got=lv), coords=coords)
                ctx.check("C18.ohv.latentfn", close(ctx, "ohv latentfn error", lv, expl, eps), site,
                          "== -(weighted mean over the selected crosses of their OHV)", icls2, witness=dict(wx, x=x, got=lv, expected=expl), coords=coords)
        # bound: one cross, against every block-boundary doubled haploid of its parents
        r = int(g.integers(0, ncfg))
        if len(blocks) <= 6 and ohv_ok:
            check_bound(ctx, defsite(Mix, "_calc_ohvmat"), numpy.asarray(om0, dtype=float)[r], G, u, blocks, xmap[r], ploidy, icls, coords, dict(wx, cross=r))

    # ------------------------------------------------ OPV
    MOPV = S["MOPV"]
    cls = MOPV.OptimalPopulationValueSubsetSelectionProblem
    k = int(g.integers(1, n + 1))
    x = numpy.sort(g.choice(n, k, replace=False)).astype(int) if g.random() < 0.5 else g.choice(n, k, replace=False).astype(int)
    site = defsite(cls, "_calc_haplomat")
    p, status, blocks, icls = run_consumer(ctx, defsite(cls, "from_pgmat_gpmod"), site, L, icls_app, coords, w,
                                           lambda: cls.from_pgmat_gpmod(nhaploblk=nblk, pgmat=pg, gpmod=mod, **subset_args(k, n, t)))
    if p is not None:
        V = check_block_matrix(ctx, site, p.haplomat, G, u, nblk, blocks, icls, coords, w, status)
        if V is not None:
            site = defsite(cls, "latentfn")
            wx = dict(w, x=x)
            ok, lv = guarded(ctx, site, icls, coords, lambda: p.latentfn(x), wx)
            if ok:
                exp = -O.best_sum(V, x, ploidy)
                ctx.check("C18.finite", bool(numpy.all(numpy.isfinite(lv))), site, "latent value finite", icls, witness=dict(wx, got=lv), coords=coords)
                okv = ctx.check("C18.opv", close(ctx, "opv error", lv, exp, eps), site, "== -ploidy * sum_blocks max over (selected taxa, phases)", icls,
                                witness=dict(wx, got=lv, expected=exp), coords=coords)
                if okv and len(blocks) <= 6:
                    check_bound(ctx, site, -numpy.asarray(lv, dtype=float), G, u, blocks, x, ploidy, icls, coords, wx)

    # ------------------------------------------------ genotype builder
    MGB = S["MGB"]
    cls = MGB.GenotypeBuilderSubsetSelectionProblem
    nbest = 1 if g.random() < 0.4 else int(g.integers(1, k + 1))
    site = defsite(cls, "_calc_haplomat")
    p, status, blocks, icls = run_consumer(ctx, defsite(cls, "from_pgmat_gpmod"), site, L, icls_app, coords, w,
                                           lambda: cls.from_pgmat_gpmod(pgmat=pg, gpmod=mod, nhaploblk=nblk, nbestfndr=nbest, **subset_args(k, n, t)))
    if p is not None:
        V = check_block_matrix(ctx, site, p.haplomat, G, u, nblk, blocks, icls, coords, w, status)
        if V is not None:
            site = defsite(cls, "latentfn")
            wx = dict(w, x=x, nbestfndr=nbest)
            ok, lv = guarded(ctx, site, icls, coords, lambda: p.latentfn(x), wx)
            if ok:
                exp = -O.gb_value(V, x, nbest, ploidy)
                ctx.check("C18.finite", bool(numpy.all(numpy.isfinite(lv))), site, "latent value finite", icls, witness=dict(wx, got=lv), coords=coords)
                ctx.check("C18.gb", close(ctx, "gb error", lv, exp, eps), site,
                          "== -ploidy/nbestfndr * sum_blocks (nbestfndr largest best-phase block values of the selected taxa)",
                          icls + ("/nbestfndr=1 (OPV)" if nbest == 1 else "/nbestfndr>1"), witness=dict(wx, got=lv, expected=exp), coords=coords)


FAMILIES = {"helpers": (case_helpers, 20000, 400000), "problems": (case_problems, 10000, 160000)}


def run_shard(ctx):
    setup()
    for name, (fn, q, t) in FAMILIES.items():
        for c in ctx.case_ids(q, t):
            fn(ctx, c)


def replay(ctx, coords):
    setup()
    FAMILIES[coords[1]][0](ctx, int(coords[0]))
