"""C11 - genetic maps and map functions obey their defining laws.

Runtime monitoring: seeded, class-based hostile workloads drive the real HaldaneMapFunction / KosambiMapFunction,
StandardGeneticMap / ExtendedGeneticMap and DenseGeneticMappableMatrix.interp_xoprob (through both genotype-matrix
classes).  A postcondition hook wrapped around both ``mapfn`` methods judges *every* call (also the ones the library
makes internally from rprob*/interp_xoprob); the remaining laws are judged by the reference model in
pbmon/oracle/gmaplaws.py, which is written from the statement only.  Histories on one live map object also contain read-only
steps (exports in either unit, copies, the congruence report) and remove_discrepancies; copies and re-imported exports take
over as the live map, so every law is also demanded of objects obtained that way and on second-and-later calls.
"""
import copy as pycopy
import io

import numpy

from pbmon import boot  # noqa: F401  (must be first)
from pbmon import hooks
from pbmon.oracle import gmaplaws as O

PROPERTY = "C11"
NSHARDS = {"quick": 4, "thorough": 16}
CLAUSES = {   # minimum = ~30 % of what a quick run evaluates
    "C11.returns": 100000,
    "C11.mapfn.range": 50000, "C11.mapfn.definition": 50000, "C11.mapfn.monotone": 5000, "C11.mapfn.fixed": 12000,
    "C11.mapfn.inverse": 5000, "C11.mapfn.inverse.r": 18000,
    "C11.state.sorted": 3000,
    "C11.interp.own": 2500, "C11.interp.linear": 1300, "C11.interp.order": 1400, "C11.interp.absent": 2300,
    "C11.interp.gmap": 1800,
    "C11.dist.pairwise": 5400, "C11.dist.additive": 1600, "C11.dist.sequential": 5400, "C11.dist.phys": 3600,
    "C11.rprob": 14000, "C11.roworder": 10000,
    "C11.xoprob.genpos": 3600, "C11.xoprob.start": 1800, "C11.xoprob.value": 3000,
    "C11.history.state": 2300, "C11.history.own": 1600, "C11.history.absent": 1600, "C11.history.linear": 1500,
    "C11.history.order": 900, "C11.history.dist": 3200, "C11.history.spline_arg": 200, "C11.history.gmap": 1600,
    "C11.congruent": 7000, "C11.history.congruent": 180, "C11.history.derived": 250, "C11.history.discrepancies": 100,
}
HOOKS_REQUIRED = ["mapfn.post", "mapfn.post.internal"]
RULE = ("seeded class-based generators.  mapfn family: distance arrays (uniform [0,3] M, cM-scale, tiny incl. denormals, "
        "large, boundary table incl. 0 and inf, ties; 0-D/1-D/2-D) and recombination fractions in [0,0.5] for both map "
        "functions.  map family: 1-5 chromosomes (consecutive, sparse or huge labels), 2-60 markers each, distinct physical "
        "positions (dense / typical / huge / adjacent), genetic positions congruent, congruent with plateaus, or "
        "non-congruent (counted class), units M or cM, rows supplied in two independent random orders, built by constructor, "
        "from_pandas or with auto_group=False, both map classes, int32/int64 labels; query sets with markers of the map, "
        "positions strictly between flanking markers, beyond the terminal markers, duplicates and absent chromosomes; maps "
        "produced by interp_gmap are re-used as maps when their rows qualify; both genotype-matrix classes (half of them "
        "carrying stale positions/probabilities) for interp_genpos/interp_xoprob.  Extended maps carry interval rows: vrnt_stop = start + extent with "
        "point / unit / short / long (running over the following markers) / mixed extents, both in the map and in the variants "
        "(optionally named, with function codes) handed to interp_gmap.  history family: one live map "
        "object of either class goes through 3-8 in-place steps (remove/select of markers or of a whole chromosome, reorder, "
        "sort, group, ungroup, re-assignment of vrnt_genpos in M / Morgans / cM / centiMorgans (fresh, stretched, shuffled or with runs of "
        "exactly tied positions), build_spline with other kind / fill value, a sibling map "
        "constructed with spline=<the live map's dictionary>, read-only uses once or twice in a row - to_pandas / to_csv / to_egmap in "
        "either unit under either unit name with default or custom column names and separators, copy / deepcopy (methods and the copy "
        "module), congruence()/is_congruent() - after which a copy or the re-import of the export takes the live map's place in half "
        "of the cases, remove_discrepancies), and after every step its answers are judged against the reference "
        "model on its current table (queries include every chromosome that has left the map).  Non-trivial: a map case always is (>= 2 markers); a mapfn case is when "
        "it has >= 2 distances.  distinct = digest of the full generated inputs.")
ASSUME = [
    "map functions are the textbook ones: Haldane r=(1-exp(-2d))/2, Kosambi r=tanh(2d)/2 (d in Morgans)",
    "round trip invmapfn(mapfn(d)) is compared on [0,3] M with the conditioning-aware tolerance 1e-12*(1+e^{2d}) (Haldane) "
    "/ 1e-12*(1+e^{4d}) (Kosambi); mapfn(invmapfn(r)) on [0,0.5) with 1e-12",
    "the value interpolated beyond the terminal markers of a chromosome is not fixed by the property: only 'not missing' "
    "and (congruent maps) order preservation are demanded there",
    "'missing' = NaN; a position is missing if and only if its chromosome is absent from the map (default spline settings)",
    "linearity and order preservation are demanded for congruent maps only; own-marker, absent-chromosome, row-order and "
    "distance laws for every map",
    "sequential distances are driven with inputs sorted by (chromosome, genetic position) as gdist1g documents; a slice "
    "[ast:asp] starts a new run at its first element",
    "crossover probabilities: exact 0.5 at the first variant of each chromosome of the grouped matrix; other entries are "
    "compared where the consecutive distance is >= 0 and not missing",
    "histories: the interpolation spline is an explicitly (re)built artefact; after an edit of the table (remove, select, new "
    "vrnt_genpos) interpolation answers are judged only once build_spline has been called again; reorder/sort/group/ungroup do "
    "not invalidate it.  With a non-linear spline kind or an array fill value only own-marker and absent-chromosome answers "
    "are demanded (no queries beyond the terminal markers); edits always leave >= 2 markers per remaining chromosome",
    "the physical position of a row / variant is vrnt_phypos; vrnt_stop (extended maps) is a label of the row that never "
    "enters interpolation: a map derived by interp_gmap stores interp_genpos(chromosome, vrnt_phypos) and carries stop / name / "
    "function code unchanged with their rows",
    "a map is congruent when, on every chromosome, genetic positions never decrease along ascending physical position; equal "
    "consecutive positions (completely linked markers) are congruent, as the library documents ('>= the previous position').  "
    "congruence()/is_congruent() are the map's own statement of that predicate: some marker of a chromosome is flagged if and only "
    "if that chromosome has a descent (which markers are blamed is left open); remove_discrepancies keeps the remaining rows "
    "unchanged and removes nothing from a chromosome without a descent (what it removes elsewhere is left open; a history ends "
    "when it leaves < 2 markers on a chromosome)",
    "reading a map (export, copy, congruence report) does not edit it: its table is judged again afterwards like after any step.  "
    "A copy, and the re-import (from_pandas / from_csv / from_egmap with the units and column names used for writing) of a map's own "
    "export, is the same map supplied another way: it holds the same rows (names / function codes are not compared) and must "
    "obey every law of the history family from then on; a re-import starts with its own default spline, a copy carries the "
    "spline state of its source",
    "an exception on an in-domain call is a violation (the property promises values), key clause C11.returns",
    "a map returned by interp_gmap is itself a genetic map: when its rows qualify (>= 2 per chromosome, distinct physical "
    "positions, none missing) the own-marker law is demanded of it; the row order of that product is not fixed",
]
TRUSTED = ["pbmon/oracle/gmaplaws.py", "numpy.expm1 / math.expm1 / math.tanh as reference transcendental functions"]

_STATE = {"ctx": None, "icls": "internal call", "coords": None, "internal": True}
_INSTALLED = []


# =================================================================== plumbing
def site_of(obj, meth):
    """Qualified name with the *defining* class (MRO)."""
    for k in type(obj).__mro__:
        if meth in vars(k):
            return "%s.%s" % (k.__name__, meth)
    return "%s.%s" % (type(obj).__name__, meth)


def guarded(ctx, site, icls, coords, fn, witness=None):
    try:
        out = fn()
    except Exception as e:
        ctx.raised(site, e)
        ctx.violation("C11.returns", site, "raised %s" % type(e).__name__, icls,
                      what="%s raised %s: %s on an in-domain input" % (site, type(e).__name__, str(e)[:160]),
                      witness=witness, coords=coords)
        ctx.ok("C11.returns")
        return False, None
    ctx.ok("C11.returns")
    return True, out


def _post(kind, site, d, r):
    """Postcondition hook on every mapfn call: range and definition for the non-negative, non-missing distances."""
    ctx = _STATE["ctx"]
    if ctx is None:
        return
    ctx.hook("mapfn.post")
    if _STATE["internal"]:
        ctx.hook("mapfn.post.internal")
    icls, coords = _STATE["icls"], _STATE["coords"]
    try:
        da = numpy.asarray(d, dtype=float); ra = numpy.asarray(r, dtype=float)
    except Exception:
        ctx.check("C11.mapfn.range", False, site, "returns a float array", icls, witness={"d": repr(d)[:200]}, coords=coords)
        return
    if da.shape != ra.shape:
        ctx.check("C11.mapfn.range", False, site, "one value per distance (shape preserved)", icls,
                  witness={"d": da, "r": ra}, coords=coords)
        return
    m = da >= 0.0                      # NaN (missing position) and negative differences are outside the property
    if not m.any():
        return
    dm, rm = da[m], ra[m]
    okr = bool(numpy.all((rm >= 0.0) & (rm <= 0.5)))
    ctx.check("C11.mapfn.range", okr, site, "0 <= r <= 0.5 for d >= 0", icls, witness={"d": dm, "r": rm}, coords=coords)
    ref = O.ref_mapfn(kind, dm)
    with numpy.errstate(all="ignore"):
        err = numpy.abs(rm - ref)
    err = float(numpy.max(numpy.where(numpy.isnan(err), numpy.inf, err)))
    if err < 1e-6:
        ctx.maxnote("mapfn |r - definition|", err)
    ctx.check("C11.mapfn.definition", err <= O.tol(0.5), site, "== textbook definition", icls,
              witness={"d": dm, "r": rm, "expected": ref, "err": err}, coords=coords)


def install(ctx):
    """Wrap both mapfn methods once per process; the wrappers report to the current ctx."""
    _STATE["ctx"] = ctx
    if _INSTALLED:
        return
    from pybrops.popgen.gmap.HaldaneMapFunction import HaldaneMapFunction
    from pybrops.popgen.gmap.KosambiMapFunction import KosambiMapFunction
    for kind, cls in (("haldane", HaldaneMapFunction), ("kosambi", KosambiMapFunction)):
        assert boot.under_repo(cls.__dict__["mapfn"]), "mapfn not from the working tree"

        def make(orig, kind=kind, cls=cls):
            def mapfn(self, d):
                r = orig(self, d)
                _post(kind, cls.__name__ + ".mapfn", d, r)
                return r
            mapfn.__wrapped_orig__ = orig
            return mapfn
        _INSTALLED.extend(hooks.wrap_method(cls, "mapfn", make))


class direct:
    """Context: the next mapfn calls are made directly by the workload with this input class."""
    def __init__(self, icls, coords):
        self.new = {"icls": icls, "coords": coords, "internal": False}

    def __enter__(self):
        self.old = {k: _STATE[k] for k in self.new}
        _STATE.update(self.new)

    def __exit__(self, *a):
        _STATE.update(self.old)


class internal(direct):
    def __init__(self, icls, coords):
        self.new = {"icls": icls, "coords": coords, "internal": True}


def mapfns():
    from pybrops.popgen.gmap.HaldaneMapFunction import HaldaneMapFunction
    from pybrops.popgen.gmap.KosambiMapFunction import KosambiMapFunction
    return {"haldane": HaldaneMapFunction(), "kosambi": KosambiMapFunction()}


# =================================================================== family 1: map functions
BOUNDARY = [0.0, 5e-324, 1e-300, 1e-17, 2.0 ** -53, 1e-9, 0.01, 0.25, 0.34657359027997264, 0.5, 1.0, 2.0, 3.0, 9.0, 18.0,
            18.5, 19.0, 40.0, 100.0, 354.0, 355.0, 709.0, 710.0, 1e6, 1e308, float("inf")]


def gen_distances(g):
    m = int(g.integers(0, 7))
    n = int(g.integers(1, 60))
    if m == 0:
        d = g.uniform(0, 3, n); cls = "moderate distances"
    elif m == 1:
        d = g.uniform(0, 0.05, n); cls = "moderate distances"
    elif m == 2:
        d = 10.0 ** g.uniform(-320, -6, n); cls = "tiny distances"
    elif m == 3:
        d = g.uniform(3, 60, n); cls = "large distances"
    elif m == 4:
        d = g.choice(BOUNDARY, n); cls = "boundary table"
    elif m == 5:
        d = g.integers(0, 25, n) / 8.0; cls = "moderate distances"      # ties, exactly representable
    else:
        d = numpy.r_[g.uniform(0, 3, n), g.choice(BOUNDARY, 4)]; cls = "boundary table"
    if g.random() < 0.3:
        d = numpy.r_[0.0, d, numpy.inf]
    d = numpy.asarray(d, dtype=float)
    g.shuffle(d)
    sh = int(g.integers(0, 10))
    if sh == 0:
        d = d[:1].reshape(())
    elif sh <= 2 and d.size % 2 == 0 and d.size >= 4:
        d = d.reshape(2, d.size // 2)
    return cls, d


def case_mapfn(ctx, c):
    g = ctx.rng("mapfn", c)
    kind = ["haldane", "kosambi"][c % 2]
    fn = mapfns()[kind]
    cname = type(fn).__name__
    cls, d = gen_distances(g)
    coords = [c, "mapfn"]
    ctx.case("mapfn:%s/%s/%dD" % (kind, cls, d.ndim), kind, d, trivial=d.size < 2)
    if c % 331 == 0:
        ctx.sample({"fn": cname + ".mapfn", "class": cls, "d": d.tolist()})
    w = {"fn": cname, "d": d}
    with direct(cls, coords):
        ok, r = guarded(ctx, cname + ".mapfn", cls, coords, lambda: fn.mapfn(d.copy()), w)     # range+definition: hook
        if not ok:
            return
        r = numpy.asarray(r, dtype=float)
        # zero -> zero, infinity -> one half
        z, i = d == 0.0, numpy.isinf(d)
        if r.shape == d.shape:
            ctx.check("C11.mapfn.fixed", bool(numpy.all(r[z] == 0.0)) and bool(numpy.all(r[i] == 0.5)), cname + ".mapfn",
                      "f(0) == 0 and f(inf) == 0.5 (elements of an array)", cls, witness=dict(w, r=r), coords=coords)
        ok, e = guarded(ctx, cname + ".mapfn", "endpoints", coords, lambda: fn.mapfn(numpy.array([0.0, numpy.inf])), w)
        if ok:
            e = numpy.asarray(e, dtype=float)
            ctx.check("C11.mapfn.fixed", e.shape == (2,) and e[0] == 0.0 and e[1] == 0.5, cname + ".mapfn",
                      "f(0) == 0 and f(inf) == 0.5", "endpoints", witness={"fn": cname, "got": e}, coords=coords)
        # monotone on the sorted distances
        ds = numpy.sort(d.ravel())
        ok, rs = guarded(ctx, cname + ".mapfn", cls, coords, lambda: fn.mapfn(ds.copy()), w)
        if ok and ds.size >= 2:
            rs = numpy.asarray(rs, dtype=float)
            bad = numpy.flatnonzero(~(numpy.diff(rs) >= 0.0))
            ctx.check("C11.mapfn.monotone", bad.size == 0, cname + ".mapfn", "non-decreasing in d", cls,
                      witness={"fn": cname, "d": ds[bad[:1][0]:bad[:1][0] + 2] if bad.size else None,
                               "r": rs[bad[:1][0]:bad[:1][0] + 2] if bad.size else None}, coords=coords)
        # inverse undoes the map function on [0, 3] Morgans
        dm = d.ravel()[d.ravel() <= 3.0]
        if dm.size:
            ok, back = guarded(ctx, cname + ".invmapfn", cls, coords, lambda: fn.invmapfn(fn.mapfn(dm.copy())), w)
            if ok:
                back = numpy.asarray(back, dtype=float)
                with numpy.errstate(all="ignore"):
                    err = numpy.abs(back - dm) if back.shape == dm.shape else numpy.full(dm.shape, numpy.inf)
                err = numpy.where(numpy.isnan(err), numpy.inf, err)
                t = O.inverse_tolerance(kind, dm)
                k = int(numpy.argmax(err / t))
                ctx.maxnote("inverse: worst |inv(f(d))-d| / tolerance", float(err[k] / t[k]) if err[k] < numpy.inf else 0.0)
                ctx.check("C11.mapfn.inverse", bool(numpy.all(err <= t)), cname + ".invmapfn", "invmapfn(mapfn(d)) ~ d on [0,3] M",
                          cls, witness={"fn": cname, "d": dm[k], "back": back[k] if back.shape == dm.shape else back, "tol": t[k]},
                          coords=coords)
    # the other direction: r in [0, 0.5)
    n = int(g.integers(1, 40))
    rm = int(g.integers(0, 3))
    if rm == 0:
        rr = g.uniform(0, 0.5, n); rcls = "fractions in [0,0.5)"
    elif rm == 1:
        rr = 0.5 - 10.0 ** g.uniform(-16, -1, n); rcls = "fractions close to 0.5"
    else:
        rr = g.choice([0.0, 5e-324, 1e-300, 1e-17, 0.25, 0.4, 0.49999999, float(numpy.nextafter(0.5, 0))], n)
        rcls = "fraction boundary table"
    rr = numpy.clip(rr, 0.0, float(numpy.nextafter(0.5, 0)))
    with direct("inverse images of fractions", coords):
        ok, dd = guarded(ctx, cname + ".invmapfn", rcls, coords, lambda: fn.invmapfn(rr.copy()), {"fn": cname, "r": rr})
        if ok:
            dd = numpy.asarray(dd, dtype=float)
            dom = dd.shape == rr.shape and bool(numpy.all(dd >= 0.0))        # NaN fails
            ctx.check("C11.mapfn.inverse.r", dom, cname + ".invmapfn", "invmapfn(r) is a distance >= 0 for r in [0,0.5)", rcls,
                      witness={"fn": cname, "r": rr, "d": dd}, coords=coords)
            if dom:
                ok, r2 = guarded(ctx, cname + ".mapfn", rcls, coords, lambda: fn.mapfn(dd.copy()), {"fn": cname, "d": dd})
                if ok:
                    okk, err = O.agree(r2, rr, 0.5)
                    ctx.check("C11.mapfn.inverse.r", okk, cname + ".invmapfn", "mapfn(invmapfn(r)) ~ r on [0,0.5)", rcls,
                              witness={"fn": cname, "r": rr, "d": dd, "back": r2, "err": err}, coords=coords)
        ok, e = guarded(ctx, cname + ".invmapfn", "endpoints", coords, lambda: fn.invmapfn(numpy.array([0.0, 0.5])), None)
        if ok:
            e = numpy.asarray(e, dtype=float)
            ctx.check("C11.mapfn.inverse.r", e.shape == (2,) and e[0] == 0.0 and e[1] == numpy.inf, cname + ".invmapfn",
                      "invmapfn(0) == 0 and invmapfn(0.5) == inf", "endpoints", witness={"fn": cname, "got": e}, coords=coords)


# =================================================================== family 2: genetic maps
def gen_map(g):
    """A map in canonical order (Morgans) plus how it is to be supplied."""
    big = g.random() < 0.03
    nchr = int(g.choice([1, 1, 2, 2, 3, 3, 4, 5]))
    lm = int(g.integers(0, 10))
    if lm < 5:
        labels = numpy.arange(1, nchr + 1)
    elif lm < 8:
        labels = numpy.sort(g.choice(numpy.arange(0, 41), nchr, replace=False))
    else:
        labels = numpy.sort(g.choice(numpy.arange(0, 41), nchr, replace=False)); labels[-1] = 10 ** 9 + int(g.integers(0, 5))
    pm = ["dense", "typical", "typical", "huge", "adjacent"][int(g.integers(0, 5))]
    gm = int(g.integers(0, 10))
    gcls = "congruent" if gm < 5 else ("congruent with plateaus" if gm < 8 else "non-congruent")
    gapscale = float(g.choice([0.01, 0.05, 0.3, 0.3, 1.5]))
    ch, ph, ge = [], [], []
    for lab in labels:
        r = g.random()
        k = 2 if r < 0.25 else (int(g.integers(3, 9)) if r < 0.8 else int(g.integers(9, 31)))
        if big:
            k = int(g.integers(30, 61))
        if pm == "dense":
            p = numpy.sort(g.choice(numpy.arange(0, 3 * k + 2), k, replace=False))
        elif pm == "typical":
            p = numpy.sort(g.choice(2_000_000, k, replace=False)) + 1
        elif pm == "huge":
            p = (10 ** 9 + numpy.sort(g.choice(10 ** 7, k, replace=False))) * int(g.choice([1, 1000]))
        else:  # adjacent: runs of consecutive base pairs far apart
            p = numpy.unique(numpy.cumsum(g.choice([1, 1, 2, 50_000], k)) + int(g.integers(0, 1000)))
            while len(p) < 2:
                p = numpy.r_[p, p[-1] + 1]
            k = len(p)
        gaps = g.uniform(0, gapscale, k)
        if gcls == "congruent with plateaus":
            gaps[g.random(k) < 0.4] = 0.0
        pos = numpy.cumsum(gaps) - gaps[0] + (0.0 if g.random() < 0.5 else float(g.uniform(0, 2)))
        if gcls == "non-congruent":
            pos = g.permutation(pos) if k > 2 else pos[::-1].copy()
            if numpy.all(numpy.diff(pos) >= 0):
                pos = pos[::-1].copy()
        ch += [int(lab)] * k; ph += [int(x) for x in p]; ge += [float(x) for x in pos]
    ch, ph, ge = O.canonical(ch, ph, ge)
    tab = O.table(ch, ph, ge)
    if gcls != "non-congruent" and not O.is_congruent(tab):
        gcls = "non-congruent"
    if gcls == "non-congruent" and O.is_congruent(tab):
        gcls = "congruent with plateaus"          # all gaps were zero
    return {"ch": ch, "ph": ph, "ge": ge, "tab": tab, "gcls": gcls, "phys": pm,
            "units": "cM" if g.random() < 0.4 else "M", "idtype": str(g.choice(["int64", "int64", "int32"]))}


def gen_query(g, spec, nq=None):
    tab = spec["tab"]
    labs = sorted(tab)
    nq = (1 if g.random() < 0.03 else int(g.integers(2, 31))) if nq is None else nq
    with_absent = g.random() < 0.3
    with_dups = g.random() < 0.2
    absent_pool = [x for x in list(range(-1, 45)) + [10 ** 9 + 7, 2 * 10 ** 9] if x not in tab]
    qc, qp = [], []
    for _ in range(nq):
        if with_absent and g.random() < 0.25:
            qc.append(int(g.choice(absent_pool))); qp.append(int(g.integers(0, 10 ** 6))); continue
        if with_dups and qc and g.random() < 0.3:
            j = int(g.integers(len(qc))); qc.append(qc[j]); qp.append(qp[j]); continue
        c = labs[int(g.integers(len(labs)))]
        P = tab[c][0]
        r = g.random()
        if r < 0.2:
            p = P[int(g.integers(len(P)))]
        elif r < 0.75:
            j = int(g.integers(len(P) - 1))
            p = int(g.integers(P[j], P[j + 1] + 1))            # inside or on a flank
        elif r < 0.87 and P[0] > 0:
            p = max(0, P[0] - int(g.integers(1, max(2, (P[-1] - P[0])))))
        else:
            p = P[-1] + int(g.integers(1, max(2, 2 * (P[-1] - P[0]))))
        qc.append(int(c)); qp.append(int(p))
    dt = str(g.choice(["int64", "int64", "int32", "int64"]))
    if max(abs(x) for x in qp + qc) >= 2 ** 31:
        dt = "int64"
    return numpy.array(qc, dtype=dt), numpy.array(qp, dtype="int64"), with_absent


def gen_stop(g, ph):
    """Inclusive end positions of variants that start at ``ph``: points, unit / short intervals, long intervals that run
    over the following markers, or a mixture.  Returns (class, stop)."""
    ph = numpy.asarray(ph, dtype="int64")
    m = int(g.integers(0, 6))
    if m == 0:
        ext = numpy.zeros(len(ph), dtype="int64"); cls = "point variants (stop == start)"
    elif m == 1:
        ext = numpy.ones(len(ph), dtype="int64"); cls = "unit intervals"
    elif m == 2:
        ext = g.integers(0, 40, len(ph)); cls = "short intervals"
    elif m == 3:
        span = int(max(2, ph.max() - ph.min())) if len(ph) else 2
        ext = g.integers(1, 2 * span + 2, len(ph)); cls = "long intervals"
    else:
        ext = g.choice([0, 0, 1, 2, 7, 1000, 250000], len(ph)); cls = "mixed intervals"
    return cls, ph + numpy.asarray(ext, dtype="int64")


def build(spec, clsname, perm, how):
    """Construct the real map from the rows in order ``perm`` (extended maps: interval ends from spec["stop"])."""
    from pybrops.popgen.gmap.StandardGeneticMap import StandardGeneticMap
    from pybrops.popgen.gmap.ExtendedGeneticMap import ExtendedGeneticMap
    cls = {"StandardGeneticMap": StandardGeneticMap, "ExtendedGeneticMap": ExtendedGeneticMap}[clsname]
    ch = spec["ch"][perm].astype(spec["idtype"] if numpy.max(numpy.abs(spec["ch"])) < 2 ** 31 else "int64")
    ph = spec["ph"][perm].astype("int64")
    ge = spec["ge"][perm] * (100.0 if spec["units"] == "cM" else 1.0)
    ext = clsname == "ExtendedGeneticMap"
    stop = (spec["stop"][perm] if "stop" in spec else ph + 1).astype("int64")
    if how == "pandas":
        import pandas
        cols = {"chr": ch, "pos": ph, "gpos": ge}
        if ext:
            cols["stop"] = stop
        return cls.from_pandas(pandas.DataFrame(cols), vrnt_genpos_col="gpos", vrnt_genpos_units=spec["units"])
    kw = {"auto_group": False} if how == "nogroup" else {}
    if ext:
        names = numpy.array(["m%d" % i for i in perm], dtype=object) if len(perm) % 2 else None
        return cls(vrnt_chrgrp=ch, vrnt_phypos=ph, vrnt_stop=stop, vrnt_genpos=ge, vrnt_name=names,
                   vrnt_genpos_units=spec["units"], **kw)
    return cls(vrnt_chrgrp=ch, vrnt_phypos=ph, vrnt_genpos=ge, vrnt_genpos_units=spec["units"], **kw)


def rand_slice(g, n):
    if g.random() < 0.5 or n < 2:
        return None, None
    a = int(g.integers(0, n - 1)); b = int(g.integers(a + 1, n + 1))
    return a, b


def make_gmat(g, kind, qc, qp):
    """Genotype matrix over the query variants (unsorted); half of them carry stale positions/probabilities of some
    other map, which interp_xoprob must overwrite."""
    from pybrops.popgen.gmat.DensePhasedGenotypeMatrix import DensePhasedGenotypeMatrix
    from pybrops.popgen.gmat.DenseGenotypeMatrix import DenseGenotypeMatrix
    nt = 3
    kw = {}
    if g.random() < 0.5:
        kw = {"vrnt_genpos": g.uniform(0, 3, len(qc)), "vrnt_xoprob": g.uniform(0, 0.5, len(qc))}
    if kind == "DensePhasedGenotypeMatrix":
        m = DensePhasedGenotypeMatrix(g.integers(0, 2, (2, nt, len(qc))).astype("int8"), vrnt_chrgrp=qc.astype("int64"),
                                      vrnt_phypos=qp.copy(), **kw)
    else:
        m = DenseGenotypeMatrix(g.integers(0, 3, (nt, len(qc))).astype("int8"), vrnt_chrgrp=qc.astype("int64"),
                                vrnt_phypos=qp.copy(), **kw)
    m.group_vrnt()
    return m


def case_map(ctx, c):
    g = ctx.rng("map", c)
    spec = gen_map(g)
    n = len(spec["ch"])
    clsname = ["StandardGeneticMap", "ExtendedGeneticMap"][c % 2]
    how = ["ctor", "ctor", "ctor", "pandas", "nogroup"][int(g.integers(0, 5))]
    how2 = ["ctor", "ctor", "pandas", "nogroup"][int(g.integers(0, 4))]
    perm = g.permutation(n); perm2 = g.permutation(n)
    if g.random() < 0.1:
        perm = numpy.arange(n)                               # already canonical
    if g.random() < 0.1:
        perm2 = numpy.arange(n)[::-1].copy()                 # exactly reversed
    qc, qp, with_absent = gen_query(g, spec)
    gs = ctx.rng("map-stop", c)
    scls, spec["stop"] = gen_stop(gs, spec["ph"])
    qscls, qstop = gen_stop(gs, qp)
    qname = numpy.array(["q%d" % i for i in range(len(qc))], dtype=object) if gs.random() < 0.5 else None
    qfn = numpy.array([str(gs.choice(["H", "K", "U"])) for _ in range(len(qc))], dtype=object) if gs.random() < 0.3 else None
    gcls, units = spec["gcls"], spec["units"]
    ucls = "%s map/%s units" % (gcls, units)          # clauses that depend on the stored positions
    icls = "%s map" % gcls                             # everything else
    congruent = gcls != "non-congruent"
    coords = [c, "map"]
    tab = spec["tab"]
    ctx.case("map:%s/%s/%s/%s/%s" % (clsname, gcls, units, how, "absent-chr query" if with_absent else "present-chr query"),
             clsname, how, spec["ch"], spec["ph"], spec["ge"], units, perm, qc, qp, spec["stop"], qstop)
    ctx.sumnote("extended maps with interval rows: " + scls) if clsname == "ExtendedGeneticMap" else None
    if c % 97 == 0:
        ctx.sample({"class": clsname, "built": how, "map_class": gcls, "units": units, "rows_as_supplied": {
            "chr": spec["ch"][perm].tolist(), "phys": spec["ph"][perm].tolist(), "gen_M": spec["ge"][perm].tolist()},
            "query": {"chr": qc.tolist(), "phys": qp.tolist()}})
    W = {"class": clsname, "built": how, "units": units, "map_chr": spec["ch"][perm], "map_phys": spec["ph"][perm],
         "map_gen_M": spec["ge"][perm]}
    gscale = O.scale_of(spec["ge"])
    fns = mapfns()

    with internal("distances of a genetic map", coords):
        ok, gm = guarded(ctx, clsname + ".__init__" if how != "pandas" else clsname + ".from_pandas", icls, coords,
                         lambda: build(spec, clsname, perm, how), W)
        if not ok:
            return
        S = lambda meth: site_of(gm, meth)  # noqa: E731

        # ---- constructor state: canonical order whatever the row order (auto-grouped constructions)
        if how != "nogroup":
            st_ok = (numpy.array_equal(gm.vrnt_chrgrp, spec["ch"]) and numpy.array_equal(gm.vrnt_phypos, spec["ph"])
                     and O.agree(gm.vrnt_genpos, spec["ge"], gscale)[0]
                     and (clsname != "ExtendedGeneticMap" or numpy.array_equal(gm.vrnt_stop, spec["stop"])))
            ctx.check("C11.state.sorted", st_ok, S("group"), "stored rows == rows sorted by (chromosome, physical position), Morgans",
                      ucls, witness=dict(W, stored_chr=gm.vrnt_chrgrp, stored_phys=gm.vrnt_phypos, stored_gen=gm.vrnt_genpos),
                      coords=coords)
            labs = numpy.array(sorted(tab), dtype="int64")
            lens = numpy.array([len(tab[int(x)][0]) for x in labs], dtype="int64")
            stix = numpy.r_[0, numpy.cumsum(lens)[:-1]]
            try:
                gr_ok = (numpy.array_equal(gm.vrnt_chrgrp_name, labs) and numpy.array_equal(gm.vrnt_chrgrp_len, lens)
                         and numpy.array_equal(gm.vrnt_chrgrp_stix, stix) and numpy.array_equal(gm.vrnt_chrgrp_spix, stix + lens))
            except Exception:
                gr_ok = False
            ctx.check("C11.state.sorted", gr_ok, S("group"), "chromosome runs (name/start/stop/length) describe the sorted rows", ucls,
                      witness=dict(W, name=gm.vrnt_chrgrp_name, stix=gm.vrnt_chrgrp_stix, spix=gm.vrnt_chrgrp_spix,
                                   len=gm.vrnt_chrgrp_len), coords=coords)

        # ---- own markers (asked in the order supplied)
        oc, op, og = spec["ch"][perm], spec["ph"][perm], spec["ge"][perm]
        ok, out = guarded(ctx, S("interp_genpos"), icls, coords, lambda: gm.interp_genpos(oc, op), W)
        if ok:
            okk, err = O.agree(out, og, gscale)
            if okk:
                ctx.maxnote("interp own-marker |got-stored|", err)
            ctx.check("C11.interp.own", okk, S("interp_genpos"), "interpolation at own markers == stored positions", ucls,
                      witness=dict(W, got=out, expected=og), coords=coords)

        # ---- query set: absent / inside / own / outside
        exp, kind = O.ref_interp(tab, qc, qp)
        kind = numpy.array(kind)
        WQ = dict(W, query_chr=qc, query_phys=qp)
        ok, qg = guarded(ctx, S("interp_genpos"), icls, coords, lambda: gm.interp_genpos(qc, qp), WQ)
        if not ok:
            return
        qg = numpy.asarray(qg, dtype=float)
        shape_ok = qg.shape == qp.shape
        ab = kind == "absent"
        ctx.check("C11.interp.absent", shape_ok and bool(numpy.all(numpy.isnan(qg[ab]))), S("interp_genpos"),
                  "position on an absent chromosome is NaN", "absent chromosome" if ab.any() else icls,
                  witness=dict(WQ, got=qg, kind=kind.tolist()), coords=coords) if ab.any() else None
        ctx.check("C11.interp.absent", shape_ok and bool(numpy.all(numpy.isfinite(qg[~ab]))), S("interp_genpos"),
                  "position on a chromosome of the map is not missing", icls, witness=dict(WQ, got=qg, kind=kind.tolist()),
                  coords=coords)
        if not shape_ok:
            return
        known = (kind == "inside") | (kind == "own")
        if congruent and (kind == "inside").any():
            okk, err = O.agree(qg[known], exp[known], gscale)
            if okk:
                ctx.maxnote("interp linear |got-expected|", err)
            ctx.check("C11.interp.linear", okk, S("interp_genpos"), "linear between the flanking markers", ucls,
                      witness=dict(WQ, got=qg, expected=exp, kind=kind.tolist()), coords=coords)
        if congruent:
            # order preserving (inside and beyond the terminal markers): slack on the safe side only
            sc_scale = O.scale_of(spec["ge"], qg)
            bad = None; pairs = 0
            for lab in sorted(set(int(x) for x in qc[~ab])):
                ix = numpy.flatnonzero(qc == lab)
                ix = ix[numpy.argsort(qp[ix], kind="stable")]
                # include the map's own markers as anchors: query positions must interleave consistently with them
                P, G = tab[lab]
                allp = numpy.r_[qp[ix], numpy.array(P, dtype="int64")]; allg = numpy.r_[qg[ix], numpy.array(G)]
                o = numpy.argsort(allp, kind="stable")
                dp = numpy.diff(allp[o]); dg = numpy.diff(allg[o])
                pairs += len(dp)
                viol = numpy.flatnonzero((dg < -O.tol(sc_scale)) | ((dp == 0) & (numpy.abs(dg) > O.tol(sc_scale))))
                if viol.size and bad is None:
                    k = int(viol[0]); bad = {"chromosome": lab, "phys": allp[o][k:k + 2], "gen": allg[o][k:k + 2]}
            if pairs:
                ctx.check("C11.interp.order", bad is None, S("interp_genpos"), "order preserving along a chromosome", icls,
                          witness=dict(WQ, got=qg, pair=bad), coords=coords)

        # ---- interp_gmap
        if clsname == "ExtendedGeneticMap":
            WQ = dict(WQ, map_stop=spec["stop"][perm], query_stop=qstop, query_name=qname, query_fncode=qfn)
            ok, im = guarded(ctx, S("interp_gmap"), icls, coords, lambda: gm.interp_gmap(qc, qp, qstop, qname, qfn), WQ)
        else:
            ok, im = guarded(ctx, S("interp_gmap"), icls, coords, lambda: gm.interp_gmap(qc, qp), WQ)
        if ok:
            try:  # rows compared as a multiset: the property does not fix the row order of the product
                oa = numpy.lexsort((numpy.asarray(im.vrnt_genpos, dtype=float), im.vrnt_phypos, im.vrnt_chrgrp))
                ob = numpy.lexsort((qg, qp, qc))
                if clsname == "ExtendedGeneticMap":   # interval ends (and labels) are part of a row: they break ties too
                    oa = numpy.lexsort((numpy.asarray(im.vrnt_stop), numpy.asarray(im.vrnt_genpos, dtype=float), im.vrnt_phypos, im.vrnt_chrgrp))
                    ob = numpy.lexsort((qstop, qg, qp, qc))
                gm_ok = (type(im) is type(gm) and numpy.array_equal(numpy.asarray(im.vrnt_chrgrp)[oa], qc[ob])
                         and numpy.array_equal(numpy.asarray(im.vrnt_phypos)[oa], qp[ob])
                         and O.agree(numpy.asarray(im.vrnt_genpos, dtype=float)[oa], qg[ob], O.scale_of(qg))[0])
                if gm_ok and clsname == "ExtendedGeneticMap":
                    gm_ok = (numpy.array_equal(numpy.asarray(im.vrnt_stop)[oa], qstop[ob])
                             and ((im.vrnt_name is None) == (qname is None)) and ((im.vrnt_fncode is None) == (qfn is None)))
                    if gm_ok and len(set(zip(qc.tolist(), qp.tolist(), qstop.tolist()))) == len(qc):   # labels checkable without ties
                        gm_ok = ((qname is None or list(numpy.asarray(im.vrnt_name)[oa]) == list(qname[ob]))
                                 and (qfn is None or list(numpy.asarray(im.vrnt_fncode)[oa]) == list(qfn[ob])))
            except Exception:
                gm_ok = False
            gcls_ = icls if clsname != "ExtendedGeneticMap" else "%s/%s" % (
                icls, "interval variants (stop != start)" if numpy.any(qstop != qp) else "point variants (stop == start)")
            ctx.check("C11.interp.gmap", gm_ok, S("interp_gmap"), "interpolated map carries the query rows with interp_genpos positions",
                      gcls_, witness=dict(WQ, got_chr=getattr(im, "vrnt_chrgrp", None), got_phys=getattr(im, "vrnt_phypos", None),
                                         got_gen=getattr(im, "vrnt_genpos", None), got_stop=getattr(im, "vrnt_stop", None), expected_gen=qg), coords=coords)

            # the product is itself a genetic map: when its rows qualify as one (>= 2 rows per chromosome, distinct physical
            # positions, nothing missing) it must interpolate its own rows to its stored positions
            rows = list(zip(qc.tolist(), qp.tolist()))
            per = {x: qc.tolist().count(x) for x in set(qc.tolist())}
            if gm_ok and not ab.any() and len(set(rows)) == len(rows) and min(per.values()) >= 2:
                pcls = "map produced by interp_gmap"
                try:   # raising and returning something else are the same broken promise here: one key per class
                    back = im.interp_genpos(qc, qp); exc = None
                    good = O.agree(back, qg, O.scale_of(qg))[0]
                except Exception as e:
                    ctx.raised(S("interp_gmap") + " product.interp_genpos", e)
                    back = None; good = False; exc = "%s: %s" % (type(e).__name__, str(e)[:160])
                ctx.check("C11.interp.own", good, S("interp_gmap"), "product map interpolates its own rows to its stored positions", pcls,
                          what=None if exc is None else "map returned by %s cannot interpolate its own rows: %s" % (S("interp_gmap"), exc),
                          witness=dict(WQ, stored=qg, got=back, exception=exc, product_is_grouped=bool(im.is_grouped()),
                                       product_stix=im.vrnt_chrgrp_stix, product_spix=im.vrnt_chrgrp_spix), coords=coords)
                ctx.sumnote("interp_gmap products re-interpolated")

        # ---- distances.  Sequential functions need input sorted by (chromosome, genetic position)
        o = numpy.lexsort((qp, qg, qc)) if not congruent else numpy.lexsort((qg, qp, qc))
        sc, sp, sg = qc[o], qp[o], qg[o]
        dscale = O.scale_of(qg)
        nq = len(qc)
        WD = dict(WQ, sorted_chr=sc, sorted_phys=sp, sorted_gen=sg)
        # pairwise on the unsorted query
        rst, rsp = rand_slice(g, nq); cst, csp = rand_slice(g, nq)
        ok, D = guarded(ctx, S("gdist2g"), icls, coords, lambda: gm.gdist2g(qc, qg), WQ)
        if ok:
            D = numpy.asarray(D, dtype=float)
            ref = O.ref_pairdist(qc, qg, qc, qg)
            okk, err = O.agree(D, ref, dscale)
            ctx.check("C11.dist.pairwise", okk, S("gdist2g"), "== |gi-gj| within and inf between chromosomes", icls,
                      witness=dict(WQ, gen=qg, got=D, expected=ref), coords=coords)
            if D.shape == (nq, nq):
                fin = ~numpy.isnan(qg)
                sym = O.agree(D, D.T, dscale)[0]
                dia = bool(numpy.all(numpy.diag(D)[fin] == 0.0))
                acr = bool(numpy.all(numpy.isposinf(D[qc[:, None] != qc[None, :]])))
                ctx.check("C11.dist.pairwise", sym and dia and acr, S("gdist2g"), "symmetric, zero diagonal, inf between chromosomes", icls,
                          witness=dict(WQ, gen=qg, got=D, symmetric=sym, zero_diagonal=dia, inf_across=acr), coords=coords)
            ok2, Ds = guarded(ctx, S("gdist2g"), icls, coords, lambda: gm.gdist2g(qc, qg, rst, rsp, cst, csp), WQ)
            if ok2:
                refs = O.ref_pairdist(qc[rst:rsp], qg[rst:rsp], qc[cst:csp], qg[cst:csp])
                ctx.check("C11.dist.pairwise", O.agree(Ds, refs, dscale)[0], S("gdist2g"), "row/column window == block of the full matrix",
                          icls, witness=dict(WQ, gen=qg, window=[rst, rsp, cst, csp], got=Ds, expected=refs), coords=coords)
        # additivity for ordered markers on a chromosome (library's own pairwise matrix on the sorted input)
        ok, Dsrt = guarded(ctx, S("gdist2g"), icls, coords, lambda: gm.gdist2g(sc, sg), WD)
        have_D = ok and numpy.asarray(Dsrt).shape == (nq, nq)
        if have_D:
            Dsrt = numpy.asarray(Dsrt, dtype=float)
            bad = None; ntr = 0
            for lab in sorted(set(int(x) for x in sc)):
                ix = numpy.flatnonzero((sc == lab) & ~numpy.isnan(sg))
                if len(ix) < 3:
                    continue
                for _ in range(6):
                    i, j, k = numpy.sort(g.choice(ix, 3, replace=False))
                    ntr += 1
                    if abs(Dsrt[i, k] - (Dsrt[i, j] + Dsrt[j, k])) > O.tol(dscale) and bad is None:
                        bad = {"i": int(i), "j": int(j), "k": int(k), "d_ik": Dsrt[i, k], "d_ij": Dsrt[i, j], "d_jk": Dsrt[j, k]}
            if ntr:
                ctx.check("C11.dist.additive", bad is None, S("gdist2g"), "d(i,k) == d(i,j)+d(j,k) for ordered i<j<k", icls,
                          witness=dict(WD, triple=bad), coords=coords)
        # sequential
        ast, asp = rand_slice(g, nq)
        ok, d1 = guarded(ctx, S("gdist1g"), icls, coords, lambda: gm.gdist1g(sc, sg), WD)
        if ok:
            d1 = numpy.asarray(d1, dtype=float)
            ref1 = O.ref_seqdist(sc, sg)
            ctx.check("C11.dist.sequential", O.agree(d1, ref1, dscale)[0], S("gdist1g"),
                      "== consecutive difference, inf at chromosome starts", icls, witness=dict(WD, got=d1, expected=ref1), coords=coords)
            if d1.shape == (nq,) and have_D:
                inner = numpy.flatnonzero(~numpy.isinf(ref1))
                offd = Dsrt[inner, inner - 1] if inner.size else numpy.zeros(0)
                ctx.check("C11.dist.sequential", O.agree(d1[inner], offd, dscale)[0], S("gdist1g"),
                          "sequential == first off-diagonal of pairwise", icls, witness=dict(WD, got=d1, offdiag=offd), coords=coords)
        ok, d1s = guarded(ctx, S("gdist1g"), icls, coords, lambda: gm.gdist1g(sc, sg, ast, asp), WD)
        if ok:
            ref1s = O.ref_seqdist(sc[ast:asp], sg[ast:asp])
            ctx.check("C11.dist.sequential", O.agree(d1s, ref1s, dscale)[0], S("gdist1g"), "window [ast:asp] == sequential distances of the window",
                      icls, witness=dict(WD, window=[ast, asp], got=d1s, expected=ref1s), coords=coords)
        # physical-position variants == genetic-position variants on the interpolated positions
        pc, pp = (sc, sp) if congruent else (qc[numpy.lexsort((qp, qc))], qp[numpy.lexsort((qp, qc))])
        pg = qg[o] if congruent else qg[numpy.lexsort((qp, qc))]
        ok, d1p = guarded(ctx, S("gdist1p"), icls, coords, lambda: gm.gdist1p(pc, pp, ast, asp), WD)
        if ok:
            refp = O.ref_seqdist(pc[ast:asp], pg[ast:asp])
            ctx.check("C11.dist.phys", O.agree(d1p, refp, dscale)[0], S("gdist1p"), "gdist1p == gdist1g on interpolated positions", icls,
                      witness=dict(WD, window=[ast, asp], got=d1p, expected=refp), coords=coords)
        ok, d2p = guarded(ctx, S("gdist2p"), icls, coords, lambda: gm.gdist2p(qc, qp, rst, rsp, cst, csp), WQ)
        if ok:
            refp = O.ref_pairdist(qc[rst:rsp], qg[rst:rsp], qc[cst:csp], qg[cst:csp])
            ctx.check("C11.dist.phys", O.agree(d2p, refp, dscale)[0], S("gdist2p"), "gdist2p == gdist2g on interpolated positions", icls,
                      witness=dict(WQ, window=[rst, rsp, cst, csp], got=d2p, expected=refp), coords=coords)

        # ---- recombination probabilities of both map functions on the map's distances
        ref1 = O.ref_seqdist(sc, sg); ref2 = O.ref_pairdist(qc, qg, qc, qg)
        refp1 = O.ref_seqdist(pc, pg)
        for kname, fn in fns.items():
            fs = lambda m: site_of(fn, m)  # noqa: E731
            for meth, args, refd in (("rprob1g", (sc, sg), ref1), ("rprob2g", (qc, qg), ref2),
                                     ("rprob1p", (pc, pp), refp1), ("rprob2p", (qc, qp), ref2)):
                ok, rp = guarded(ctx, fs(meth), clsname, coords, lambda: getattr(fn, meth)(gm, *args), WD)
                if not ok:
                    continue
                valid = ~(refd < 0.0)                      # negative differences (non-congruent, sorted by phys) are out of the property
                refr = O.ref_mapfn(kname, numpy.where(valid, refd, numpy.nan))
                rp = numpy.asarray(rp, dtype=float)
                okk = rp.shape == refr.shape and O.agree(numpy.where(valid, rp, numpy.nan), refr, 0.5)[0]
                ctx.check("C11.rprob", okk, fs(meth), "== map function of the map's distances", clsname,
                          witness=dict(WD, fn=kname, got=rp, expected=refr), coords=coords)

        # ---- crossover probabilities on a genotype matrix
        gkind = ["DensePhasedGenotypeMatrix", "DenseGenotypeMatrix"][(c // 2) % 2]
        kname = ["haldane", "kosambi"][(c // 4) % 2]
        xo = run_xoprob(ctx, g, gm, gkind, kname, fns[kname], qc, qp, tab, congruent, (ucls, icls), coords, WQ, gscale)

        # ---- same map supplied in another row order (and possibly through another construction path)
        ok, gm2 = guarded(ctx, clsname + ".__init__" if how2 != "pandas" else clsname + ".from_pandas", icls, coords,
                          lambda: build(spec, clsname, perm2, how2), dict(W, perm2=perm2, built2=how2))
        if ok:
            paths = sorted("auto_group=False" if h == "nogroup" else "auto-grouped" for h in (how, how2))
            ricls = "%s map/%s vs %s" % ("congruent" if congruent else "non-congruent", paths[0], paths[1])
            W2 = dict(WQ, second_order_chr=spec["ch"][perm2], second_order_phys=spec["ph"][perm2], built2=how2)
            # touch both maps first (auto_group=False maps sort themselves lazily)
            pairs = [("interp_genpos", lambda m: m.interp_genpos(qc, qp)),
                     ("gdist1p", lambda m: m.gdist1p(pc, pp)),
                     ("gdist2p", lambda m: m.gdist2p(qc, qp)),
                     ("interp_genpos/own", lambda m: m.interp_genpos(spec["ch"], spec["ph"]))]
            for meth, f in pairs:
                oka, a = guarded(ctx, S(meth.split("/")[0]), ricls, coords, lambda: f(gm), W2)
                okb, b = guarded(ctx, S(meth.split("/")[0]), ricls, coords, lambda: f(gm2), W2)
                if oka and okb:
                    okk, err = O.agree(a, b, O.scale_of(a))
                    ctx.maxnote("row order |a-b|", err if okk else 0.0)
                    ctx.check("C11.roworder", okk, S(meth.split("/")[0]), "result independent of the row order supplied", ricls,
                              witness=dict(W2, first=a, second=b), coords=coords)
            # state after use (both are sorted by now, whichever way they were built)
            try:
                same = (numpy.array_equal(gm.vrnt_chrgrp, gm2.vrnt_chrgrp) and numpy.array_equal(gm.vrnt_phypos, gm2.vrnt_phypos)
                        and O.agree(gm.vrnt_genpos, gm2.vrnt_genpos, gscale)[0])
            except Exception:
                same = False
            ctx.check("C11.roworder", same, S("group"), "stored rows independent of the row order supplied", ricls,
                      witness=dict(W2, first=[gm.vrnt_chrgrp, gm.vrnt_phypos, gm.vrnt_genpos],
                                   second=[gm2.vrnt_chrgrp, gm2.vrnt_phypos, gm2.vrnt_genpos]), coords=coords)
            if xo is not None:
                xo2 = run_xoprob(ctx, g, gm2, gkind, kname, fns[kname], qc, qp, tab, congruent, (ucls, icls), coords, W2, gscale, judge=False)
                if xo2 is not None:
                    ctx.check("C11.roworder", O.agree(xo, xo2, 0.5)[0], "DenseGeneticMappableMatrix.interp_xoprob",
                              "result independent of the row order supplied", ricls, witness=dict(W2, first=xo, second=xo2), coords=coords)

        # ---- the map's own congruence report (last: the call groups a map that was built with auto_group=False)
        for m_ in (gm, gm2) if ok else (gm,):
            if not judge_congruence(ctx, ctx.check, "C11.congruent", m_, tab, icls, coords, W):
                break


def run_xoprob(ctx, g, gm, gkind, kname, fn, qc, qp, tab, congruent, classes, coords, WQ, gscale, judge=True):
    """interp_xoprob on a grouped genotype matrix; returns vrnt_xoprob (or None when the call failed)."""
    xsite = "DenseGeneticMappableMatrix.interp_xoprob"
    ucls = "%s/%s" % (type(gm).__name__, classes[0])
    icls = "%s/%s map" % (type(gm).__name__, "congruent" if congruent else "non-congruent")
    ok, gmat = guarded(ctx, gkind + ".group_vrnt", icls, coords, lambda: make_gmat(ctx.rng("gmat", coords[0]), gkind, qc, qp), WQ)
    if not ok:
        return None
    if judge:  # the positions-only entry point of the same class, on an independent matrix
        ok, gmat0 = guarded(ctx, gkind + ".group_vrnt", icls, coords, lambda: make_gmat(ctx.rng("gmat", coords[0]), gkind, qc, qp), WQ)
        psite = "DenseGeneticMappableMatrix.interp_genpos"
        ok, _ = guarded(ctx, psite, icls, coords, lambda: gmat0.interp_genpos(gm), dict(WQ, gmat=gkind)) if ok else (False, None)
        if ok:
            e0, k0 = O.ref_interp(tab, gmat0.vrnt_chrgrp, gmat0.vrnt_phypos)
            k0 = numpy.array(k0); kn0 = (k0 == "own") | ((k0 == "inside") & congruent) | (k0 == "absent")
            v0 = gmat0.vrnt_genpos
            ok0 = (v0 is not None and numpy.asarray(v0).shape == e0.shape and O.agree(numpy.asarray(v0, dtype=float)[kn0], e0[kn0], gscale)[0]
                   and bool(numpy.all(numpy.isfinite(numpy.asarray(v0, dtype=float)[k0 == "outside"]))))
            ctx.check("C11.xoprob.genpos", ok0, psite, "vrnt_genpos == interpolated positions of the variants", ucls,
                      witness=dict(WQ, gmat=gkind, vrnt_chr=gmat0.vrnt_chrgrp, vrnt_phys=gmat0.vrnt_phypos, vrnt_genpos=v0, expected=e0,
                                   kind=k0.tolist()), coords=coords)
    ok, _ = guarded(ctx, xsite, icls, coords, lambda: gmat.interp_xoprob(gm, fn), dict(WQ, gmat=gkind, fn=kname))
    if not ok:
        return None
    vc, vp = numpy.asarray(gmat.vrnt_chrgrp), numpy.asarray(gmat.vrnt_phypos)
    vg, xo = gmat.vrnt_genpos, gmat.vrnt_xoprob
    if not judge:
        return None if xo is None else numpy.asarray(xo, dtype=float)
    WX = dict(WQ, gmat=gkind, fn=kname, vrnt_chr=vc, vrnt_phys=vp, vrnt_genpos=vg, vrnt_xoprob=xo)
    nv = len(vc)
    if vg is None or xo is None or numpy.asarray(vg).shape != (nv,) or numpy.asarray(xo).shape != (nv,):
        ctx.check("C11.xoprob.genpos", False, xsite, "vrnt_genpos and vrnt_xoprob are set, one per variant", ucls, witness=WX, coords=coords)
        return None
    vg = numpy.asarray(vg, dtype=float); xo = numpy.asarray(xo, dtype=float)
    exp, kind = O.ref_interp(tab, vc, vp)
    kind = numpy.array(kind)
    known = (kind == "own") | ((kind == "inside") & congruent) | (kind == "absent")
    okk = O.agree(vg[known], exp[known], gscale)[0] and bool(numpy.all(numpy.isfinite(vg[kind == "outside"])))
    ctx.check("C11.xoprob.genpos", okk, xsite, "vrnt_genpos == interpolated positions of the variants", ucls,
              witness=dict(WX, expected=exp, kind=kind.tolist()), coords=coords)
    start = numpy.r_[True, vc[1:] != vc[:-1]]
    ctx.check("C11.xoprob.start", bool(numpy.all(xo[start] == 0.5)), xsite, "exactly 0.5 at each chromosome start", icls,
              witness=dict(WX, start=start), coords=coords)
    dist = numpy.r_[numpy.inf, numpy.diff(vg)]
    dist[start] = numpy.inf
    inner = ~start
    if inner.any():
        cmpm = inner & ~(dist < 0.0)                     # negative consecutive distances are outside the property
        refr = O.ref_mapfn(kname, dist)
        ctx.check("C11.xoprob.value", O.agree(xo[cmpm], refr[cmpm], 0.5)[0], xsite,
                  "== map function of consecutive interpolated distances", icls, witness=dict(WX, distance=dist, expected=refr), coords=coords)
        if congruent:
            # ...and of the distances computed from the reference interpolation where the property fixes it
            kn = inner & numpy.r_[False, known[1:] & known[:-1]]
            if kn.any():
                d2 = numpy.r_[numpy.inf, numpy.diff(exp)]
                ctx.check("C11.xoprob.value", O.agree(xo[kn], O.ref_mapfn(kname, numpy.where(d2 < 0, 0.0, d2))[kn], 0.5)[0], xsite,
                          "== map function of consecutive reference-interpolated distances", icls,
                          witness=dict(WX, distance=d2, kind=kind.tolist()), coords=coords)
    return xo


# =================================================================== family 3: histories on one live map object
HIST_CLAUSES = ("state", "own", "absent", "linear", "order", "dist", "spline_arg")
NONLINEAR = ("nearest", "previous", "quadratic", "cubic")


def hist_class(h, with_kind=False):
    """Mechanism-shaped input class of the current point of a history (spline settings only where they matter)."""
    if h["dropped_by"]:
        base = "after %s a whole chromosome" % ("removing" if h["dropped_by"] == "remove" else "selecting away")
    else:
        base = {"construction": "freshly built", "remove": "after removing markers", "select": "after selecting markers",
                "regenpos": "after re-assigning genetic positions", "order": "after reorder/sort/group only",
                "discrepancies": "after removing discrepancies"}[h["last_edit"]]
    if h["rebuilt"]:
        base += " and rebuilding the spline"
    if h.get("derived"):
        base = "%s, %s" % (h["derived"], base)
    if with_kind and h["kind"] in NONLINEAR:
        base += " (non-linear spline kind)"
    if with_kind and h["fill"] != "extrapolate":
        base += " (array fill value)"
    return base


def table_class(tab):
    """Coarse class of a table for the congruence clauses."""
    if not O.is_congruent(tab):
        return "non-congruent map"
    ties = any(g[i] == g[i + 1] for _, g in tab.values() for i in range(len(g) - 1))
    return "congruent map with tied positions" if ties else "congruent map"


def model_arrays(model):
    keys = sorted(model)
    return (numpy.array([k[0] for k in keys], dtype="int64"), numpy.array([k[1] for k in keys], dtype="int64"),
            numpy.array([model[k] for k in keys], dtype=float))


def judge_congruence(ctx, check, clause, gm, tab, icls, coords, W):
    """congruence() / is_congruent() against the definition: a chromosome is congruent when its genetic positions never
    decrease along ascending physical position (equal consecutive positions = complete linkage are congruent).  Which
    markers of an incongruent chromosome are blamed is left open: only 'some marker flagged <=> the chromosome has a
    descent' is demanded.  The flags refer to the rows as stored after the call."""
    S = lambda meth: site_of(gm, meth)  # noqa: E731
    per = O.congruent_chromosomes(tab)
    ok, mask = guarded(ctx, S("congruence"), icls, coords, lambda: gm.congruence(), W)
    if not ok:
        return False
    flagged = None
    try:
        mk = numpy.asarray(mask); sc = numpy.asarray(gm.vrnt_chrgrp)
        good = mk.dtype == bool and mk.shape == sc.shape and mk.ndim == 1 and len(mk) == sum(len(v[0]) for v in tab.values())
        if good:
            flagged = {c: not bool(numpy.all(mk[sc == c])) for c in per}
            good = all(flagged[c] == (not per[c]) for c in per)
    except Exception:
        good = False
    if not check(clause, good, S("congruence"), "a marker is flagged exactly on the chromosomes whose genetic positions decrease somewhere",
                 icls, witness=dict(W, flags=mask, chromosome_has_descent={c: not v for c, v in per.items()}, chromosome_flagged=flagged),
                 coords=coords):
        return False
    ok, ans = guarded(ctx, S("is_congruent"), icls, coords, lambda: gm.is_congruent(), W)
    if not ok:
        return False
    return check(clause, bool(ans) == all(per.values()), S("is_congruent"), "is_congruent() == genetic positions non-decreasing along every chromosome",
                 icls, witness=dict(W, got=bool(ans), chromosome_has_descent={c: not v for c, v in per.items()}), coords=coords)


def same_table(obj, h, model):
    """Does a map object (copy / re-import) hold exactly the rows of the reference table (any row order)?"""
    try:
        mc, mp, mg = model_arrays(model)
        sc, sp, sg = numpy.asarray(obj.vrnt_chrgrp), numpy.asarray(obj.vrnt_phypos), numpy.asarray(obj.vrnt_genpos, dtype=float)
        o = numpy.lexsort((sp, sc))
        ok = len(sc) == len(mc) and numpy.array_equal(sc[o], mc) and numpy.array_equal(sp[o], mp) and O.agree(sg[o], mg, O.scale_of(mg))[0]
        if ok and hasattr(obj, "vrnt_stop"):
            ok = numpy.array_equal(numpy.asarray(obj.vrnt_stop)[o], numpy.array([h["stopm"][(int(a), int(b))] for a, b in zip(mc, mp)]))
        return bool(ok)
    except Exception:
        return False


def history_state(ctx, check, gm, h, model, coords, W, icls=None):
    """Stored table of the live map == the reference table after the steps so far (clause C11.history.state)."""
    icls = icls or hist_class(h)
    S = lambda meth: site_of(gm, meth)  # noqa: E731
    mc, mp, mg = model_arrays(model)
    tab = O.table(mc, mp, mg)
    gscale = O.scale_of(mg)
    WH = dict(W, history=list(h["log"]), current_chr=mc, current_phys=mp, current_gen_M=mg)
    # ---- stored table == model (as a multiset; canonical order + run metadata when the map says it is grouped)
    try:
        sc, sp, sg = numpy.asarray(gm.vrnt_chrgrp), numpy.asarray(gm.vrnt_phypos), numpy.asarray(gm.vrnt_genpos, dtype=float)
        o = numpy.lexsort((sp, sc))
        st_ok = (len(sc) == len(mc) and numpy.array_equal(sc[o], mc) and numpy.array_equal(sp[o], mp) and O.agree(sg[o], mg, gscale)[0])
        if st_ok and hasattr(gm, "vrnt_stop"):       # extended maps: the interval end stays attached to its row
            st_ok = numpy.array_equal(numpy.asarray(gm.vrnt_stop)[o], numpy.array([h["stopm"][(int(a), int(b))] for a, b in zip(mc, mp)]))
        if st_ok and gm.is_grouped():
            labs = numpy.array(sorted(tab), dtype="int64"); lens = numpy.array([len(tab[int(x)][0]) for x in labs], dtype="int64")
            stix = numpy.r_[0, numpy.cumsum(lens)[:-1]]
            st_ok = (numpy.array_equal(sc, mc) and numpy.array_equal(sp, mp) and numpy.array_equal(gm.vrnt_chrgrp_name, labs)
                     and numpy.array_equal(gm.vrnt_chrgrp_stix, stix) and numpy.array_equal(gm.vrnt_chrgrp_spix, stix + lens)
                     and numpy.array_equal(gm.vrnt_chrgrp_len, lens))
    except Exception:
        st_ok = False
    check("C11.history.state", st_ok, S(h["log"][-1].split("(")[0]) if h["log"] else S("group"),
              "stored table == the edited table (sorted, with matching run metadata when grouped)", icls,
              witness=dict(WH, stored_chr=gm.vrnt_chrgrp, stored_phys=gm.vrnt_phypos, stored_gen=gm.vrnt_genpos,
                           grouped=bool(gm.is_grouped())), coords=coords)
    return st_ok


def judge_history(ctx, g, gm, h, model, orig_labels, coords, W):
    """Judge the live map's answers against the reference model evaluated on its CURRENT table."""
    icls = hist_class(h); kcls = hist_class(h, True)
    bad_ = []

    def check(*a, **k):           # the first broken answer of a history is the mechanism; later ones are consequences
        if bad_:
            return False
        r = ctx.check(*a, **k)
        if not r:
            bad_.append(a[0])
        return r
    S = lambda meth: site_of(gm, meth)  # noqa: E731
    mc, mp, mg = model_arrays(model)
    tab = O.table(mc, mp, mg)
    gscale = O.scale_of(mg)
    WH = dict(W, history=list(h["log"]), current_chr=mc, current_phys=mp, current_gen_M=mg)
    st_ok = history_state(ctx, check, gm, h, model, coords, W)
    if not st_ok or not h["fresh"]:
        return st_ok
    linear = h["kind"] in ("linear", "slinear") and h["fill"] == "extrapolate"
    congruent = O.is_congruent(tab)
    # ---- own markers of the current table, asked in a random order
    perm = g.permutation(len(mc))
    ok, out = guarded(ctx, S("interp_genpos"), icls, coords, lambda: gm.interp_genpos(mc[perm], mp[perm]), WH)
    # a non-linear (quadratic / cubic) spline through knots of wildly uneven spacing reproduces its own knots only to
    # eps x (largest/smallest spacing)^2: with a ratio above 1e3 that exceeds the tolerance for purely numerical reasons
    wellcond = True
    if not linear:
        for ch_ in numpy.unique(mc):
            dp_ = numpy.diff(numpy.sort(numpy.asarray(mp, dtype=float)[mc == ch_]))
            dp_ = dp_[dp_ > 0]
            if len(dp_) and dp_.max() / dp_.min() > 1e3:
                wellcond = False
    if ok and not wellcond:
        ctx.sumnote("own-marker answers of a non-linear spline on knots with spacing ratio > 1e3 (ill-conditioned, not judged)")
    if ok and wellcond:
        check("C11.history.own", O.agree(out, mg[perm], gscale)[0], S("interp_genpos"),
                  "interpolation at own markers == stored positions", kcls, witness=dict(WH, got=out, expected=mg[perm]), coords=coords)
    # ---- queries: current chromosomes (inside / own / outside), never-present labels and every chromosome that has left
    qc, qp, _ = gen_query(g, {"tab": tab})
    gone = [x for x in orig_labels if x not in tab]
    if gone:
        extra = [int(g.choice(gone)) for _ in range(min(4, 2 * len(gone)))] + gone[:2]
        qc = numpy.r_[qc.astype("int64"), numpy.array(extra, dtype="int64")]
        qp = numpy.r_[qp, numpy.array([int(x) for x in g.choice(h["orig_phys"], len(extra))], dtype="int64")]
    exp, kind = O.ref_interp(tab, qc, qp)
    kind = numpy.array(kind)
    if not linear:                                # beyond the terminal markers other settings may raise / are not fixed
        keep = kind != "outside"
        qc, qp, exp, kind = qc[keep], qp[keep], exp[keep], kind[keep]
    if len(qc) == 0:
        return not bad_
    WQ = dict(WH, query_chr=qc, query_phys=qp)
    ok, qg = guarded(ctx, S("interp_genpos"), icls, coords, lambda: gm.interp_genpos(qc, qp), WQ)
    if not ok:
        return False
    qg = numpy.asarray(qg, dtype=float)
    if qg.shape != qp.shape:
        check("C11.history.absent", False, S("interp_genpos"), "one position per query", icls, witness=dict(WQ, got=qg), coords=coords)
        return not bad_
    ab = kind == "absent"
    check("C11.history.absent", bool(numpy.all(numpy.isnan(qg[ab]))) and bool(numpy.all(numpy.isfinite(qg[~ab]))),
              S("build_spline"), "position is NaN exactly on chromosomes absent from the current table", icls,
              witness=dict(WQ, got=qg, kind=kind.tolist(), chromosomes_that_left=gone), coords=coords)
    known = ((kind == "own") & wellcond) | ((kind == "inside") & linear & congruent)
    if known.any():
        check("C11.history.linear", O.agree(qg[known], exp[known], gscale)[0], S("build_spline"),
                  "own markers / linear between the current flanking markers", kcls,
                  witness=dict(WQ, got=qg, expected=exp, kind=kind.tolist()), coords=coords)
    if linear and congruent and (~ab).any():
        t = O.tol(O.scale_of(mg, qg)); bad = None
        for lab in sorted(set(int(x) for x in qc[~ab])):
            ix = numpy.flatnonzero(qc == lab)
            P, G = tab[lab]
            allp = numpy.r_[qp[ix], numpy.array(P, dtype="int64")]; allg = numpy.r_[qg[ix], numpy.array(G)]
            o = numpy.argsort(allp, kind="stable")
            dp = numpy.diff(allp[o]); dg = numpy.diff(allg[o])
            v = numpy.flatnonzero((dg < -t) | ((dp == 0) & (numpy.abs(dg) > t)))
            if v.size and bad is None:
                bad = {"chromosome": lab, "phys": allp[o][int(v[0]):int(v[0]) + 2], "gen": allg[o][int(v[0]):int(v[0]) + 2]}
        check("C11.history.order", bad is None, S("build_spline"), "order preserving along a chromosome (current markers as anchors)",
                  icls, witness=dict(WQ, got=qg, pair=bad), coords=coords)
    # ---- map derived from the live map for these variants (extended maps: variants are intervals [phys, stop])
    qstop = gen_stop(h["gs"], qp)[1]
    if hasattr(gm, "vrnt_stop"):
        ok, im = guarded(ctx, S("interp_gmap"), icls, coords, lambda: gm.interp_gmap(qc, qp, qstop), dict(WQ, query_stop=qstop))
    else:
        ok, im = guarded(ctx, S("interp_gmap"), icls, coords, lambda: gm.interp_gmap(qc, qp), WQ)
    if ok:
        try:
            oa = numpy.lexsort((numpy.asarray(im.vrnt_genpos, dtype=float), im.vrnt_phypos, im.vrnt_chrgrp)); ob = numpy.lexsort((qg, qp, qc))
            rg = numpy.where(known | ab, exp, qg)     # reference positions where the property fixes them
            g_ok = (numpy.array_equal(numpy.asarray(im.vrnt_chrgrp)[oa], qc[ob]) and numpy.array_equal(numpy.asarray(im.vrnt_phypos)[oa], qp[ob])
                    and O.agree(numpy.asarray(im.vrnt_genpos, dtype=float)[oa], rg[ob], O.scale_of(qg))[0])
        except Exception:
            g_ok = False
        check("C11.history.gmap", g_ok, S("interp_gmap"), "derived map stores the positions interpolated at its markers' physical positions",
              ("freshly built" if not h["log"] else "after in-place edits")
              + ("/interval variants (stop != start)" if hasattr(gm, "vrnt_stop") and numpy.any(qstop != qp) else "/point variants"),
              witness=dict(WQ, query_stop=qstop, got_chr=getattr(im, "vrnt_chrgrp", None), got_phys=getattr(im, "vrnt_phypos", None),
                           got_gen=getattr(im, "vrnt_genpos", None), expected_gen=qg), coords=coords)
    # ---- distances from physical positions == reference distances of the interpolated positions
    o = numpy.lexsort((qp, qc)); pc, pp, pg = qc[o], qp[o], qg[o]
    ok, d1 = guarded(ctx, S("gdist1p"), icls, coords, lambda: gm.gdist1p(pc, pp), WQ)
    if ok:
        check("C11.history.dist", O.agree(d1, O.ref_seqdist(pc, pg), O.scale_of(qg))[0], S("gdist1p"),
                  "sequential distances of the interpolated positions", icls, witness=dict(WQ, got=d1), coords=coords)
    ok, d2 = guarded(ctx, S("gdist2p"), icls, coords, lambda: gm.gdist2p(qc, qp), WQ)
    if ok:
        # expected from the reference positions where the property fixes them (absent -> NaN), else from the answers
        rg = numpy.where(known | ab, exp, qg)
        check("C11.history.dist", O.agree(d2, O.ref_pairdist(qc, rg, qc, rg), O.scale_of(qg))[0], S("gdist2p"),
                  "pairwise distances of the positions on the current table", icls, witness=dict(WQ, got=d2, positions=rg), coords=coords)
    return not bad_


def case_history(ctx, c):
    from pybrops.popgen.gmap.StandardGeneticMap import StandardGeneticMap
    from pybrops.popgen.gmap.ExtendedGeneticMap import ExtendedGeneticMap
    g = ctx.rng("history", c)
    spec = gen_map(g)
    while len(spec["ch"]) > 120:                   # keep histories cheap
        spec = gen_map(g)
    clsname = ["StandardGeneticMap", "ExtendedGeneticMap"][c % 2]
    cls = {"StandardGeneticMap": StandardGeneticMap, "ExtendedGeneticMap": ExtendedGeneticMap}[clsname]
    how = ["ctor", "ctor", "nogroup", "pandas"][int(g.integers(0, 4))]
    coords = [c, "history"]
    n = len(spec["ch"])
    perm = g.permutation(n)
    gs = ctx.rng("history-stop", c)
    _, spec["stop"] = gen_stop(gs, spec["ph"])
    stopm = {(int(a), int(b)): int(x) for a, b, x in zip(spec["ch"], spec["ph"], spec["stop"])}
    model = {(int(a), int(b)): float(x) for a, b, x in zip(spec["ch"], spec["ph"], spec["ge"])}
    orig_labels = sorted(set(int(x) for x in spec["ch"]))
    h = {"dropped_by": None, "last_edit": "construction", "rebuilt": False, "fresh": True, "kind": "linear", "fill": "extrapolate",
         "log": [], "orig_phys": numpy.unique(spec["ph"]), "stopm": stopm, "gs": gs}
    nsteps = int(g.integers(3, 9))
    ctx.case("history:%s/%s/%s/%d chromosomes" % (clsname, spec["gcls"], how, len(orig_labels)), clsname, how, spec["ch"], spec["ph"],
             spec["ge"], spec["units"], perm, nsteps)
    W = {"class": clsname, "built": how, "units": spec["units"], "map_chr": spec["ch"][perm], "map_phys": spec["ph"][perm],
         "map_gen_M": spec["ge"][perm]}
    if c % 53 == 0:
        ctx.sample({"family": "history", "class": clsname, "built": how, "rows": n, "chromosomes": orig_labels, "steps": nsteps})
    with internal("distances of a genetic map", coords):
        ok, gm = guarded(ctx, clsname + ".__init__", "freshly built", coords, lambda: build(spec, clsname, perm, how), W)
        if not ok:
            return
        S = lambda meth: site_of(gm, meth)  # noqa: E731
        if not judge_history(ctx, g, gm, h, model, orig_labels, coords, W):
            return
        for step in range(nsteps):
            cur_c = numpy.asarray(gm.vrnt_chrgrp); cur_p = numpy.asarray(gm.vrnt_phypos)
            per = {}
            for k in model:
                per[k[0]] = per.get(k[0], 0) + 1
            ops = ["reorder", "sort", "group", "ungroup", "regenpos", "build_spline", "build_spline"]
            if len(per) >= 2:
                ops += ["remove_chr", "remove_chr", "select_chr", "select_chr"]
            if max(per.values()) > 2:
                ops += ["remove_markers", "select_markers"]
            if h["fresh"]:
                ops += ["sibling"]
            ops += ["observe", "observe", "observe", "discrepancies"]
            op = "build_spline" if (not h["fresh"] and g.random() < 0.6) else str(g.choice(ops))
            icls = hist_class(h)
            if op in ("remove_chr", "select_chr", "remove_markers", "select_markers"):
                if op.endswith("_chr"):
                    lab = int(g.choice(sorted(per)))
                    drop = numpy.flatnonzero(cur_c == lab)
                else:
                    lab = int(g.choice([x for x in per if per[x] > 2]))
                    ix = numpy.flatnonzero(cur_c == lab)
                    drop = g.choice(ix, int(g.integers(1, per[lab] - 1)), replace=False)
                if op.startswith("remove"):
                    arg = drop if g.random() < 0.7 else drop.tolist()
                    call = lambda: gm.remove(arg); meth = "remove"  # noqa: E731
                else:
                    keep = numpy.setdiff1d(numpy.arange(len(cur_c)), drop)
                    if g.random() < 0.5:
                        keep = g.permutation(keep)
                    call = lambda: gm.select(keep); meth = "select"  # noqa: E731
                dropped_keys = [(int(cur_c[i]), int(cur_p[i])) for i in drop]
                h["log"].append("%s(%s of chromosome %d)" % (meth, "all rows" if op.endswith("_chr") else "%d rows" % len(drop), lab))
                ok, _ = guarded(ctx, S(meth), icls, coords, call, dict(W, history=list(h["log"])))
                if not ok:
                    return
                for k in dropped_keys:
                    model.pop(k, None)
                h["fresh"] = False; h["last_edit"] = meth
                if op.endswith("_chr"):
                    h["dropped_by"] = h["dropped_by"] or meth
            elif op in ("reorder", "sort", "group", "ungroup"):
                h["log"].append("%s()" % op)
                call = (lambda: gm.reorder(g.permutation(len(cur_c)))) if op == "reorder" else getattr(gm, op)
                ok, _ = guarded(ctx, S(op), icls, coords, call, dict(W, history=list(h["log"])))
                if not ok:
                    return
                if h["last_edit"] == "construction":
                    h["last_edit"] = "order"
            elif op == "regenpos":
                mode = int(g.integers(0, 4))
                newm = {}
                for lab in sorted(per):
                    keys = sorted(k for k in model if k[0] == lab)
                    if mode == 0:      # fresh congruent positions
                        vals = numpy.cumsum(g.uniform(0, 0.3, len(keys)))
                    elif mode == 1:    # stretched and shifted
                        vals = numpy.array([model[k] for k in keys]) * 2.0 + 0.125
                    elif mode == 3:    # congruent with runs of completely linked markers (exact ties)
                        vals = numpy.cumsum(g.choice([0.0, 0.0, 0.0625, 0.25], len(keys)))
                    else:              # shuffled (usually non-congruent)
                        vals = g.permutation(numpy.array([model[k] for k in keys]))
                    newm.update({k: float(v) for k, v in zip(keys, vals)})
                arr = numpy.array([newm[(int(a), int(b))] for a, b in zip(cur_c, cur_p)], dtype=float)
                cm = g.random() < 0.4
                uname = str(g.choice(["cM", "centiMorgans"] if cm else ["M", "Morgans"]))
                val = (arr * 100.0, uname) if cm else (arr if g.random() < 0.5 else (arr, uname))
                h["log"].append("vrnt_genpos = new positions (%s)" % ("cM tuple" if cm else "M"))

                def setg():
                    gm.vrnt_genpos = val
                ok, _ = guarded(ctx, S("vrnt_genpos"), icls, coords, setg, dict(W, history=list(h["log"])))
                if not ok:
                    return
                model.clear(); model.update(newm)
                h["fresh"] = False; h["last_edit"] = "regenpos"
            elif op == "observe":
                # read-only uses of the live map (export, copy, congruence report), once or twice in a row: the live map keeps
                # its table; a copy / a re-import of the export in the units it was written in holds the same table and
                # (half of the time) takes the live map's place for the rest of the history
                ext = clsname == "ExtendedGeneticMap"
                what = str(g.choice(["to_pandas", "to_pandas", "to_csv", "copy", "congruence"] + (["to_egmap"] if ext else [])))
                units = str(g.choice(["cM", "cM", "centiMorgans", "M", "Morgans"]))
                col = str(g.choice(["cM", "gpos", "M"])); sep = str(g.choice([",", "\t", ";"]))
                times = 1 if g.random() < 0.55 else 2
                swap = g.random() < 0.5
                variant = int(g.integers(0, 4))
                back = None; backname = None
                if what == "to_pandas" and variant == 0:
                    desc = "to_pandas()"; backname = "from_pandas"
                    export = lambda: gm.to_pandas()  # noqa: E731
                    back = lambda df: cls.from_pandas(df, vrnt_genpos_units="cM")  # noqa: E731
                elif what == "to_pandas":
                    desc = "to_pandas(units=%s)" % units; backname = "from_pandas"
                    export = lambda: gm.to_pandas(vrnt_genpos_col=col, vrnt_genpos_units=units)  # noqa: E731
                    back = lambda df: cls.from_pandas(df, vrnt_genpos_col=col, vrnt_genpos_units=units)  # noqa: E731
                elif what == "to_csv":
                    desc = "to_csv(units=%s)" % units; backname = "from_csv"

                    def export():
                        b = io.StringIO(); gm.to_csv(b, vrnt_genpos_col=col, vrnt_genpos_units=units, sep=sep)
                        return b.getvalue()
                    back = lambda txt: cls.from_csv(io.StringIO(txt), vrnt_genpos_col=col, vrnt_genpos_units=units, sep=sep)  # noqa: E731
                elif what == "to_egmap":
                    desc = "to_egmap()"; backname = "from_egmap"

                    def export():
                        b = io.StringIO(); gm.to_egmap(b)
                        return b.getvalue()
                    back = lambda txt: cls.from_egmap(io.StringIO(txt))  # noqa: E731
                elif what == "copy":
                    desc = ["copy()", "deepcopy()", "__copy__()", "__deepcopy__()"][variant]
                    export = [lambda: gm.copy(), lambda: gm.deepcopy(), lambda: pycopy.copy(gm), lambda: pycopy.deepcopy(gm)][variant]
                else:
                    desc = "congruence()"; export = None
                h["log"].append(desc if times == 1 else desc + " twice")
                meth = desc.split("(")[0]
                WO = dict(W, history=list(h["log"]))
                res = None
                if export is None:
                    ctab = O.table(*model_arrays(model))
                    for _ in range(times):
                        if not judge_congruence(ctx, ctx.check, "C11.history.congruent", gm, ctab, table_class(ctab), coords, WO):
                            return
                else:
                    for _ in range(times):
                        ok, res = guarded(ctx, S(meth), icls, coords, export, WO)
                        if not ok:
                            return
                # the live map is untouched by being read
                if not history_state(ctx, ctx.check, gm, h, model, coords, W, icls="read-only use of the map (export / copy / congruence report)"):
                    return
                if export is not None:
                    if back is not None:
                        ok, der = guarded(ctx, "%s.%s" % (clsname, backname), icls, coords, lambda: back(res), WO)
                        if not ok:
                            return
                        dsite = "%s -> %s" % (S(meth), backname); dcls = "re-import of the map's own export"
                    else:
                        der = res; dsite = S(meth); dcls = "copy of the map"
                    d_ok = type(der) is type(gm) and der is not gm and same_table(der, h, model)
                    if not ctx.check("C11.history.derived", d_ok, dsite, "derived map holds the rows of the map it was made from", dcls,
                                     witness=dict(WO, derived_type=type(der).__name__, derived_chr=getattr(der, "vrnt_chrgrp", None),
                                                  derived_phys=getattr(der, "vrnt_phypos", None), derived_gen=getattr(der, "vrnt_genpos", None),
                                                  current_table=model_arrays(model)), coords=coords):
                        return
                    if swap:
                        gm = der
                        h["log"].append("live map := that %s" % ("copy" if back is None else "re-import"))
                        if back is None:
                            h["derived"] = "copy"
                        else:      # a new object with its own freshly built default spline
                            h.update(derived="re-imported export", dropped_by=None, last_edit="construction", rebuilt=False, fresh=True,
                                     kind="linear", fill="extrapolate")
                        ctx.sumnote("histories continued on a %s" % ("copy" if back is None else "re-import"))
            elif op == "discrepancies":
                h["log"].append("remove_discrepancies()")
                tab0 = O.table(*model_arrays(model)); per0 = O.congruent_chromosomes(tab0); tcls = table_class(tab0)
                ok, _ = guarded(ctx, S("remove_discrepancies"), icls, coords, lambda: gm.remove_discrepancies(), dict(W, history=list(h["log"])))
                if not ok:
                    return
                removed = None
                try:
                    sc_, sp_, sg_ = numpy.asarray(gm.vrnt_chrgrp), numpy.asarray(gm.vrnt_phypos), numpy.asarray(gm.vrnt_genpos, dtype=float)
                    rows = {(int(a), int(b)): float(x) for a, b, x in zip(sc_, sp_, sg_)}
                    t_ = O.tol(O.scale_of(list(model.values())))
                    good = len(rows) == len(sc_) and all(k in model and abs(model[k] - v) <= t_ for k, v in rows.items())
                    removed = sorted(k for k in model if k not in rows)
                    good = good and all(not per0[k[0]] for k in removed)
                except Exception:
                    good = False
                if not ctx.check("C11.history.discrepancies", good, S("remove_discrepancies"),
                                 "remaining rows are unchanged rows of the table; none is removed from a chromosome whose positions never decrease",
                                 tcls, witness=dict(W, history=list(h["log"]), table_before=model_arrays(model), removed_rows=removed,
                                                    stored_chr=gm.vrnt_chrgrp, stored_phys=gm.vrnt_phypos, stored_gen=gm.vrnt_genpos), coords=coords):
                    return
                if removed:
                    for k in removed:
                        model.pop(k)
                    h["fresh"] = False; h["last_edit"] = "discrepancies"
                    left = {}
                    for k in model:
                        left[k[0]] = left.get(k[0], 0) + 1
                    if len(left) < len(per0) or min(left.values()) < 2:     # fewer than two markers on a chromosome: outside the quantifier
                        ctx.sumnote("histories ended by remove_discrepancies leaving < 2 markers on a chromosome")
                        history_state(ctx, ctx.check, gm, h, model, coords, W)
                        return
            elif op == "build_spline":
                m = min(per.values())
                kinds = ["linear"] * 6 + ["slinear", "nearest", "previous"] + (["quadratic"] if m >= 3 else []) + (["cubic"] if m >= 4 else [])
                kind = str(g.choice(kinds))
                fill = "extrapolate" if g.random() < 0.8 else numpy.array(numpy.nan)
                variant = int(g.integers(0, 3))
                h["log"].append("build_spline(kind=%s, fill_value=%s)" % (kind, "extrapolate" if isinstance(fill, str) else "array(nan)"))
                if variant == 0 and kind == "linear" and isinstance(fill, str):
                    call = lambda: gm.build_spline()  # noqa: E731
                elif variant == 1:
                    call = lambda: gm.build_spline(kind, fill)  # noqa: E731
                else:
                    call = lambda: gm.build_spline(kind=kind, fill_value=fill)  # noqa: E731
                ok, _ = guarded(ctx, S("build_spline"), icls, coords, call, dict(W, history=list(h["log"])))
                if not ok:
                    return
                h["fresh"] = True; h["rebuilt"] = True; h["kind"] = kind; h["fill"] = "extrapolate" if isinstance(fill, str) else "array"
            else:  # sibling map built from part of the table with the live map's spline dictionary passed as spline=
                labs = sorted(per)
                sub = labs[: max(1, len(labs) // 2)] if g.random() < 0.5 else [int(g.choice(labs))]
                keys = sorted(k for k in model if k[0] in sub)
                sch = numpy.array([k[0] for k in keys], dtype="int64"); sph = numpy.array([k[1] for k in keys], dtype="int64")
                sge = numpy.array([model[k] for k in keys]) * 3.0 + 0.5
                sp_ = g.permutation(len(keys))
                sstop = gen_stop(h["gs"], sph)[1]
                h["log"].append("sibling = %s(rows of chromosomes %s with other positions, spline=live.spline)" % (clsname, sub))
                qc0, qp0, _ = gen_query(g, {"tab": O.table(*model_arrays(model))})
                if h["kind"] in NONLINEAR or h["fill"] != "extrapolate":
                    kk = numpy.array(O.ref_interp(O.table(*model_arrays(model)), qc0, qp0)[1]) != "outside"
                    qc0, qp0 = qc0[kk], qp0[kk]
                mc0, mp0, _ = model_arrays(model)            # the donor's own markers are always part of the comparison
                qc0 = numpy.r_[mc0, qc0.astype("int64")]; qp0 = numpy.r_[mp0, qp0]
                okb, before = guarded(ctx, S("interp_genpos"), icls, coords, lambda: gm.interp_genpos(qc0, qp0), W) if len(qc0) else (False, None)

                def mk():
                    if clsname == "ExtendedGeneticMap":
                        return cls(vrnt_chrgrp=sch[sp_], vrnt_phypos=sph[sp_], vrnt_stop=sstop[sp_], vrnt_genpos=sge[sp_], spline=gm.spline)
                    return cls(vrnt_chrgrp=sch[sp_], vrnt_phypos=sph[sp_], vrnt_genpos=sge[sp_], spline=gm.spline)
                ok, sib = guarded(ctx, clsname + ".__init__", "spline= dictionary of another map", coords, mk, dict(W, history=list(h["log"])))
                if not ok:
                    return
                scls = "spline= dictionary of another map"
                stab = O.table(sch, sph, sge)
                others = [x for x in orig_labels if x not in sub]
                tc = numpy.r_[sch, numpy.array([int(g.choice(others)) for _ in range(3)], dtype="int64")] if others else sch
                tp = numpy.r_[sph, numpy.array([int(x) for x in g.choice(h["orig_phys"], 3)], dtype="int64")] if others else sph
                e2, k2 = O.ref_interp(stab, tc, tp)
                ok, got = guarded(ctx, S("interp_genpos"), scls, coords, lambda: sib.interp_genpos(tc, tp), W)
                if ok:
                    sib_ok = ctx.check("C11.history.spline_arg", O.agree(got, e2, O.scale_of(sge))[0], S("build_spline"),
                              "new map answers from its own table only (own markers; NaN on chromosomes it lacks)", scls,
                              witness=dict(W, history=list(h["log"]), query_chr=tc, query_phys=tp, got=got, expected=e2), coords=coords)
                if ok and not sib_ok:
                    return
                if okb:
                    ok, after = guarded(ctx, S("interp_genpos"), icls, coords, lambda: gm.interp_genpos(qc0, qp0), W)
                    if ok and not ctx.check("C11.history.spline_arg", O.agree(after, before, O.scale_of(before))[0], S("build_spline"),
                                  "the map whose spline dictionary was passed on keeps its answers", scls,
                                  witness=dict(W, history=list(h["log"]), query_chr=qc0, query_phys=qp0, before=before, after=after),
                                  coords=coords):
                        return
            if not judge_history(ctx, g, gm, h, model, orig_labels, coords, W):
                return
        ctx.sumnote("history steps", nsteps)


# =================================================================== driver
FAMILIES = {"mapfn": (case_mapfn, 20000, 500000), "map": (case_map, 6000, 150000), "history": (case_history, 1200, 40000)}


def run_shard(ctx):
    install(ctx)
    for name, (fn, q, t) in FAMILIES.items():
        for c in ctx.case_ids(q, t):
            fn(ctx, c)


def replay(ctx, coords):
    install(ctx)
    FAMILIES[coords[1]][0](ctx, int(coords[0]))
