"""C12 - predicted progeny (co)variances equal the exact (co)variance of the cross's gametes.

Runtime monitoring: the real ``from_algmod`` / ``from_gmod`` / factory / ``UsefulnessCriterion*Problem`` code is driven
with seeded hostile inputs; every reported entry is judged against an exact gamete-distribution enumeration
(``pbmon.oracle.c12_gametes``) written from the property statement.  ``numpy.empty`` is poisoned (NaN fill, an
admissible behaviour of ``empty``) while library code runs, so entries that the code never writes are observable.
Factory objects and matrix classes are also used as long-lived objects (several requests with changing arguments).
"""
import importlib
import itertools
import math
import statistics

import numpy

from pbmon import boot  # noqa: F401
from pbmon.oracle import c12_gametes as O

PROPERTY = "C12"
NSHARDS = {"quick": 4, "thorough": 16}
CLAUSES = {   # minimum evaluations per run (a quick run reaches three to seven times these numbers)
    "C12.genetic": 10000, "C12.genic": 1000,
    "C12.structure.symmetry": 500, "C12.structure.zero": 4000, "C12.structure.reorder": 400, "C12.structure.labels": 400,
    "C12.routes": 500, "C12.chunk": 200, "C12.uc": 600, "C12.uc.shape": 80, "C12.history": 1500,
    "C12.sequence": 1200, "C12.sequence.changed": 300,   # .changed: the exact answer differs from the one to the previous request
}
RULE = ("seeded class-based cases: 2-5 parents (inbred for two/three/four-way; arbitrary phased, fully heterozygous, "
        "inbred, duplicated and phase-swapped genotypes for dihybrid), 1-7 loci for full enumeration (8-14 loci with the "
        "pairwise-marginal enumeration, up to 40 loci for the chunking clause; a 'large' family with 130-400 markers on one "
        "chromosome in 2-5 completely linked position groups, enumerated exactly on the groups, mem in {None,default,50,127,128}, "
        "complementary parents differing at more than 127 markers) on 1-3 chromosomes with spread, clustered, "
        "coincident, far and negative-offset genetic positions, and genetic positions that are NOT monotone in the stored "
        "marker order of a chromosome (reversed, shuffled, shuffled with ties, one inverted segment; in the large family the "
        "position groups interleaved), 1-3 traits with gaussian / small-integer / sparse / "
        "cancelling / mixed-magnitude effects, models with empty and with 1-3 rows of non-marker effects (u_misc), nself in {0..4, inf}, mem in {None,1,2,3,4,5,L,1024,argument omitted}, every class of "
        "pybrops.model.vmat and pybrops.model.pcvmat through from_algmod, from_gmod and the factories, all parent index "
        "tuples (sampled per equality pattern when 4^L states make a tuple expensive).  60% of the built matrices are then "
        "used as long-lived objects: 1-3 of the library's own operations (reorder/sort/group/select/delete/remove/lexsort+"
        "reorder/copy/deepcopy/ungroup on the taxa axes, generic with positive and negative axis numbers and axis-specific; "
        "reorder/select/delete/remove/sort on the trait axes) are applied and every followed entry is re-judged.  A 'seq' family "
        "sends 2-5 requests to ONE factory object (every factory class) or one matrix class (all 16), through from_gmod and "
        "from_algmod, changing between requests one of: nself (alone / with nprogeny), the pgmat (new object or same object "
        "with genotypes / genetic positions replaced through its setters), the model (new object or u_a setter), ncross and "
        "nprogeny, mem, the map function object, nothing, nothing after the caller reordered the previous answer in place; "
        "every answer is judged against the enumeration for its own arguments and earlier answers must stay as they were.  "
        "Half of the usefulness-criterion problems get a factory object that served another selfing depth before.  "
        "A case is non-trivial when the "
        "parents are not all identical and some effect is non-zero; distinct = digest of genotypes, effects, layout, "
        "positions, scheme, class, route, nself and mem.")
ASSUME = [
    "nself = number of selfing generations between the last cross and doubled-haploid production (docstrings; probe-confirmed)",
    "index order: two-way/dihybrid [female, male]; three-way [recurrent, female, male] = recurrent x (female x male); "
    "four-way [female2, male2, female1, male1] = (female2 x male2) x (female1 x male1)",
    "genetic positions are in Morgans and HaldaneMapFunction is the no-interference map r = (1 - exp(-2d))/2; markers on "
    "different chromosomes recombine with probability 1/2",
    "additive value of a doubled haploid with gamete g is intercept + 2 g.u",
    "markers are stored by chromosome and physical position (group_vrnt); vrnt_genpos need not be monotone in that order. "
    "The oracle enumerates the loci in map order (crossovers happen between loci adjacent on the genetic map), the library "
    "gets the stored order",
    "u_misc (non-marker random effects of the model) is not part of the additive marker effects",
    "history clause: after an operation the parents at an index tuple are the ones named by the taxa labels there (unique "
    "labels); when the matrix is unlabelled or the operation returned no labels (label carrying is C03's subject) the "
    "operation's index semantics are used; an operation that raises must leave the entries unchanged",
    "dihybrid entries [a, a] of a heterozygous individual: the statement's 'equals the enumeration' and 'zero for identical "
    "parents' contradict each other there, so either value is accepted (on the unchanged tree the genetic classes report "
    "zero, the genic classes the enumeration; the reading taken is counted per class); only a value that is neither is a violation",
    "trait labels are only observed (counter), the statement does not mention them; taxa labels are part of equivariance",
    "an exception from a constructor is counted as raised (DESIGN 2.1), except in the equivalence clauses routes/chunk/reorder "
    "where one side raising and the other not is a violation (sequence clause: a later request to a used factory object "
    "raising while the same request to a fresh factory object returns a matrix)",
    "sequence clause: the reported values are a function of the arguments of the request (state of the argument objects at "
    "the time of the request), not of what the same factory object / class was asked before; returning the very same "
    "matrix object for a repeated request is admissible",
]
TRUSTED = ["numpy.empty replaced by a NaN-filling wrapper while library code runs (admissible behaviour of numpy.empty)"]
TIMEOUT = {"quick": 900, "thorough": 3 * 3600}

INF = float("inf")
SCHEME_PREFIX = {"twoway": "DenseTwoWayDH", "threeway": "DenseThreeWayDH", "fourway": "DenseFourWayDH", "dihybrid": "DenseDihybridDH"}
NTUP = {"twoway": 2, "threeway": 3, "fourway": 4, "dihybrid": 2}
KINDS = {
    "vmat.genetic": ("vmat", "AdditiveGeneticVarianceMatrix"),
    "vmat.genic": ("vmat", "AdditiveGenicVarianceMatrix"),
    "pcvmat.genetic": ("pcvmat", "AdditiveProgenyGeneticCovarianceMatrix"),
    "pcvmat.genic": ("pcvmat", "AdditiveProgenyGenicCovarianceMatrix"),
}
FACTORIES = {  # (scheme, kind) -> factory class name in pybrops.model.vmat.fcty
    ("twoway", "vmat.genetic"): "DenseTwoWayDHAdditiveGeneticVarianceMatrixFactory",
    ("threeway", "vmat.genetic"): "DenseThreeWayDHAdditiveGeneticVarianceMatrixFactory",
    ("fourway", "vmat.genetic"): "DenseFourWayDHAdditiveGeneticVarianceMatrixFactory",
    ("dihybrid", "vmat.genetic"): "DenseDihybridDHAdditiveGeneticVarianceMatrixFactory",
    ("twoway", "vmat.genic"): "DenseTwoWayDHAdditiveGenicVarianceMatrixFactory",
}


# ---------------------------------------------------------------- instrumentation: poisoned numpy.empty
_ORIG_EMPTY = numpy.empty


class Poison:
    """While active, arrays obtained through the attribute ``numpy.empty`` are filled with NaN (floats)."""

    def __init__(self, ctx):
        self.ctx = ctx

    def __enter__(self):
        ctx = self.ctx

        def poisoned(*a, **k):
            out = _ORIG_EMPTY(*a, **k)
            if out.dtype.kind == "f":
                out.fill(numpy.nan)
                ctx.hook("numpy.empty poisoned")
            return out
        numpy.empty = poisoned
        return self

    def __exit__(self, *exc):
        numpy.empty = _ORIG_EMPTY
        return False


# ---------------------------------------------------------------- library access
def lib_class(scheme, kind):
    pkg, suffix = KINDS[kind]
    name = SCHEME_PREFIX[scheme] + suffix
    return getattr(importlib.import_module("pybrops.model.%s.%s" % (pkg, name)), name)


def lib_factory(scheme, kind):
    name = FACTORIES[(scheme, kind)]
    return getattr(importlib.import_module("pybrops.model.vmat.fcty." + name), name)()


def build(ctx, scheme, kind, route, mod, pg, nmating, nprogeny, nself, gmapfn, mem):
    """Call the real constructor through ``route``; returns (object, None) or (None, exception)."""
    cls = lib_class(scheme, kind)
    genetic = kind.endswith("genetic")
    nname = "nmating" if kind.startswith("vmat") else "ncross"
    mk = {} if mem == "default" else {"mem": mem}   # "default": the argument is omitted, the callee's own default applies
    try:
        with Poison(ctx):
            if route == "from_algmod":
                if genetic:
                    out = cls.from_algmod(algmod=mod, pgmat=pg, nprogeny=nprogeny, nself=nself, gmapfn=gmapfn, **mk, **{nname: nmating})
                else:
                    out = cls.from_algmod(algmod=mod, pgmat=pg, nprogeny=nprogeny, **mk)
            elif route == "from_gmod":
                if genetic:
                    out = cls.from_gmod(gmod=mod, pgmat=pg, nprogeny=nprogeny, nself=nself, gmapfn=gmapfn, **mk, **{nname: nmating})
                else:
                    out = cls.from_gmod(gmod=mod, pgmat=pg, nprogeny=nprogeny, **mk)
            else:
                f = lib_factory(scheme, kind)
                fn = f.from_gmod if route == "factory.from_gmod" else f.from_algmod
                key = "gmod" if route == "factory.from_gmod" else "algmod"
                if genetic:
                    out = fn(pgmat=pg, ncross=nmating, nprogeny=nprogeny, nself=nself, gmapfn=gmapfn, **mk, **{key: mod})
                else:
                    out = fn(pgmat=pg, nprogeny=nprogeny, **mk, **{key: mod})
        return out, None
    except Exception as e:  # policy 2.1: counted by the caller
        return None, e


def _same_label(a, b):
    return (a is None and b is None) or (a is not None and b is not None and numpy.array_equal(a, b))


def site_of(scheme, kind):
    return lib_class(scheme, kind).__name__ + ".from_algmod"


# ---------------------------------------------------------------- generators
# the last five give genetic positions that are not monotone in the stored marker order of a chromosome
POSMODES = ["spread", "clustered", "coincident", "far", "offset", "reversed", "shuffled", "shuffled", "ties-shuffled", "one-inversion"]


def order_class(chrgrp, genpos):
    """Suffix of the input class: are the genetic positions monotone in the stored marker order of every chromosome?"""
    same = chrgrp[1:] == chrgrp[:-1]
    return ", genetic positions not monotone in marker order" if bool(((numpy.diff(genpos) < 0) & same).any()) else ""


def on_map(chrgrp, genpos, h0, h1, u):
    """Loci re-ordered along the genetic map for the enumeration oracle (the library sees the stored order)."""
    o = O.map_order(chrgrp, genpos)
    return chrgrp[o], genpos[o], h0[:, o], h1[:, o], u[o]


def gen_layout(g, L, posmode):
    """Sorted chromosome labels and genetic positions (Morgans); non-decreasing inside every chromosome except for the
    reversed / shuffled / ties-shuffled / one-inversion modes."""
    nchr = int(min(L, g.integers(1, 4)))
    cuts = numpy.sort(g.choice(numpy.arange(1, L), nchr - 1, replace=False)) if nchr > 1 else numpy.array([], dtype=int)
    chrgrp = numpy.ones(L, dtype="int64")
    for c in cuts:
        chrgrp[c:] += 1
    return chrgrp, gen_positions(g, chrgrp, posmode)


def gen_positions(g, chrgrp, posmode):
    """Genetic positions (Morgans) for a given assignment of the markers to chromosomes."""
    L = len(chrgrp)
    if posmode == "spread":
        gaps = g.uniform(0.01, 0.6, L)
    elif posmode == "clustered":
        gaps = numpy.where(g.random(L) < 0.6, 10.0 ** g.uniform(-7, -3, L), g.uniform(0.05, 1.0, L))
    elif posmode == "coincident":
        gaps = numpy.where(g.random(L) < 0.5, 0.0, g.uniform(0.01, 0.5, L))
    elif posmode == "far":
        gaps = g.uniform(3.0, 20.0, L)
    elif posmode == "ties-shuffled":
        gaps = numpy.where(g.random(L) < 0.4, 0.0, g.uniform(0.01, 0.5, L))
    else:  # "offset": positions need not start at zero nor be positive; "reversed"/"shuffled": see below
        gaps = g.uniform(0.01, 0.4, L)
    genpos = numpy.zeros(L)
    for ch in numpy.unique(chrgrp):
        ix = numpy.flatnonzero(chrgrp == ch)
        start = float(g.uniform(-2, 2)) if posmode == "offset" else (0.0 if g.random() < 0.5 else float(g.uniform(0, 1)))
        pos = start + numpy.cumsum(numpy.r_[0.0, gaps[ix][1:]])
        # stored marker order follows chromosome and *physical* position only: the genetic positions of a chromosome
        # need not be monotone in that order
        if posmode == "reversed":
            pos = pos[::-1]
        elif posmode in ("shuffled", "ties-shuffled"):
            pos = pos[g.permutation(len(pos))]
        elif posmode == "one-inversion" and len(pos) >= 2:
            a = int(g.integers(0, len(pos) - 1)); b = int(g.integers(a + 2, len(pos) + 1))
            pos[a:b] = pos[a:b][::-1].copy()
        genpos[ix] = pos
    return genpos


def gen_parents(g, n, L, scheme):
    """(phase0, phase1) int8 arrays of shape (n, L) and the name of the parent class."""
    if scheme != "dihybrid":
        cls = ["random", "random", "duplicate-taxa", "complementary", "all-identical", "monomorphic-locus"][int(g.integers(0, 6))]
        h = g.integers(0, 2, (n, L))
        if cls == "duplicate-taxa":
            h[int(g.integers(1, n))] = h[0]
        elif cls == "complementary":
            h[1] = 1 - h[0]
        elif cls == "all-identical":
            h[:] = h[0]
        elif cls == "monomorphic-locus":
            h[:, int(g.integers(L))] = int(g.integers(0, 2))
        return h.astype("int8"), h.astype("int8").copy(), "inbred/" + cls
    cls = ["random-phased", "random-phased", "fully-het", "inbred", "duplicate-genotype", "phase-swapped", "mixed-zygosity"][int(g.integers(0, 7))]
    h0 = g.integers(0, 2, (n, L)); h1 = g.integers(0, 2, (n, L))
    if cls == "fully-het":
        h1 = 1 - h0
    elif cls == "inbred":
        h1 = h0.copy()
    elif cls == "duplicate-genotype":
        k = int(g.integers(1, n)); h0[k] = h0[0]; h1[k] = h1[0]
    elif cls == "phase-swapped":
        k = int(g.integers(1, n)); h0[k] = h1[0]; h1[k] = h0[0]
    elif cls == "mixed-zygosity":
        k = int(g.integers(0, n)); h1[k] = h0[k]
    return h0.astype("int8"), h1.astype("int8"), "phased/" + cls


def gen_effects(g, L):
    nt = int(g.integers(1, 4))
    cls = ["gaussian", "gaussian", "small-int", "sparse", "cancelling", "mixed-magnitude"][int(g.integers(0, 6))]
    if cls == "small-int":
        u = g.integers(-3, 4, (L, nt)).astype(float)
    elif cls == "sparse":
        u = g.normal(size=(L, nt)) * (g.random((L, nt)) < 0.5)
    elif cls == "cancelling":
        u = g.normal(size=(L, nt))
        for j in range(1, L, 2):
            u[j] = -u[j - 1]
    elif cls == "mixed-magnitude":
        u = g.normal(size=(L, nt)) * 10.0 ** g.integers(-3, 4, (L, 1))
    else:
        u = g.normal(size=(L, nt))
    beta = g.normal(size=(1, nt)) * (0.0 if g.random() < 0.2 else 3.0)
    return u, beta, cls


def gen_umisc(g, nt):
    """Miscellaneous (non-marker) random effects of the model: absent, or 1-3 rows of large values.  They are not part
    of the additive marker effects, so no quantity of this property may depend on them."""
    if g.random() < 0.6:
        return None
    return g.normal(size=(int(g.integers(1, 4)), nt)) * 5.0 + 3.0


def make_inputs(h0, h1, chrgrp, genpos, u, beta, g, labelled=True, u_misc=None):
    from pybrops.popgen.gmat.DensePhasedGenotypeMatrix import DensePhasedGenotypeMatrix
    from pybrops.model.gmod.DenseAdditiveLinearGenomicModel import DenseAdditiveLinearGenomicModel
    n, L = h0.shape
    taxa = numpy.array(["p%02d" % i for i in range(n)], dtype=object) if labelled else None
    taxa_grp = g.integers(0, 3, n).astype("int64") if labelled else None
    pg = DensePhasedGenotypeMatrix(
        numpy.stack([h0, h1]).astype("int8"), taxa=taxa, taxa_grp=taxa_grp,
        vrnt_chrgrp=chrgrp.copy(), vrnt_phypos=numpy.arange(1, L + 1, dtype="int64") * 100,
        vrnt_name=numpy.array(["m%02d" % i for i in range(L)], dtype=object), vrnt_genpos=genpos.copy())
    pg.group_vrnt()
    trait = numpy.array(["trait%d" % i for i in range(u.shape[1])], dtype=object)
    mod = DenseAdditiveLinearGenomicModel(beta=beta.copy(), u_misc=None if u_misc is None else u_misc.copy(), u_a=u.copy(), trait=trait)
    return pg, mod


def permuted_pgmat(pg, perm):
    from pybrops.popgen.gmat.DensePhasedGenotypeMatrix import DensePhasedGenotypeMatrix
    out = DensePhasedGenotypeMatrix(
        pg.mat[:, perm, :].copy(), taxa=None if pg.taxa is None else pg.taxa[perm].copy(),
        taxa_grp=None if pg.taxa_grp is None else pg.taxa_grp[perm].copy(),
        vrnt_chrgrp=pg.vrnt_chrgrp.copy(), vrnt_phypos=pg.vrnt_phypos.copy(), vrnt_name=pg.vrnt_name.copy(),
        vrnt_genpos=pg.vrnt_genpos.copy())
    out.group_vrnt()
    return out


def gen_nself(g, L, tier="quick"):
    pool = [0, 0, 1, 1, 2, 3, 4, INF, numpy.inf, numpy.int64(2)]
    ns = pool[int(g.integers(len(pool)))]
    if L <= 4 and g.random() < 0.1:
        ns = 12                                   # deep but finite selfing
    deep = tier == "thorough"
    if L >= 7 and ns > (3 if deep else 2):
        ns = 3 if deep else 2
    if L == 6 and ns > 3 and not (deep and ns == 4):
        ns = 3
    return ns


def nself_name(ns):
    return "inf" if ns == INF else str(int(ns))


# ---------------------------------------------------------------- tuple classes (coarse, mechanism oriented)
def tclass(scheme, idx, homozygous=None):
    if scheme == "twoway":
        return "female == male" if idx[0] == idx[1] else "female != male"
    if scheme == "dihybrid":
        if idx[0] != idx[1]:
            return "female != male"
        return "female == male, homozygous parent" if homozygous[idx[0]] else "female == male, heterozygous parent"
    if scheme == "threeway":
        r, f, m = idx
        if r == f == m:
            return "recurrent == female == male"
        if f == m:
            return "female == male"
        if r in (f, m):
            return "recurrent == female or male"
        return "distinct parents"
    a, b, c, d = idx
    if a == b == c == d:
        return "all four equal"
    if c == d:
        return "female1 == male1"
    if a == b:
        return "female2 == male2"
    if len({a, b, c, d}) < 4:
        return "parent repeated across pairs"
    return "distinct parents"


def pick_tuples(g, scheme, n, budget, homozygous=None):
    allt = list(itertools.product(range(n), repeat=NTUP[scheme]))
    if len(allt) <= budget:
        return allt
    bycls = {}
    for t in allt:
        bycls.setdefault(tclass(scheme, t, homozygous), []).append(t)
    out = []
    for k in sorted(bycls):
        lst = bycls[k]
        for i in g.choice(len(lst), min(2, len(lst)), replace=False):
            out.append(lst[int(i)])
    rest = [t for t in allt if t not in set(out)]
    need = max(0, budget - len(out))
    for i in g.choice(len(rest), min(need, len(rest)), replace=False):
        out.append(rest[int(i)])
    return out


def tuple_budget(L, nself, tier="quick"):
    """How many parent tuples of a case are enumerated (the cost of a tuple grows with 4^L states per selfing generation)."""
    f = 3 if tier == "thorough" else 1
    if nself == INF:
        return f * {1: 200, 2: 200, 3: 120, 4: 60, 5: 24}.get(L, 6)
    if L <= 5:
        return 700
    if L == 6:
        return f * (60 if nself > 0 else 200)
    return f * (10 if nself > 0 else 60)


def var_scale(u):
    s = 2.0 * numpy.abs(u).sum(0)
    return numpy.outer(s, s)  # (t,t): largest possible magnitude of a (co)variance


def tol_of(scale):
    return 1e-9 * scale + 1e-12


def expected_entry(kind, cov):
    return numpy.diag(cov).copy() if kind.startswith("vmat") else cov


def entry_tol(kind, scale):
    return tol_of(numpy.diag(scale)) if kind.startswith("vmat") else tol_of(scale)


def close(got, exp, tol):
    got = numpy.asarray(got, dtype=float)
    return got.shape == numpy.shape(exp) and bool(numpy.all(numpy.abs(got - exp) <= tol))  # NaN compares False


def slack(got, exp, tol):
    """Worst |got - exp| / tol over the components the library actually computed (an entry that is exactly 0 while the
    enumeration is not, yet inside a tolerance dominated by a large effect elsewhere, is not numerical slack)."""
    got = numpy.asarray(got, dtype=float)
    with numpy.errstate(all="ignore"):
        v = numpy.abs(got - exp) / tol
    v = v[numpy.isfinite(v) & ((got != 0) | (numpy.asarray(exp) == 0))]
    return float(v.max()) if v.size else 0.0


# ---------------------------------------------------------------- family 1: entries vs enumeration + structure
def case_mat(ctx, c):
    from pybrops.popgen.gmap.HaldaneMapFunction import HaldaneMapFunction
    g = ctx.rng("mat", c)
    # drawn (not strided) so that every shard sees every scheme/class and the shards have comparable cost
    scheme = ["twoway", "threeway", "fourway", "dihybrid"][int(g.integers(0, 4))]
    kind = ["vmat.genetic", "vmat.genetic", "pcvmat.genetic", "vmat.genic", "vmat.genetic", "pcvmat.genic", "pcvmat.genetic", "vmat.genic"][int(g.integers(0, 8))]
    genetic = kind.endswith("genetic")
    big = genetic and g.random() < 1.0 / 6.0      # 8-14 loci: pairwise-marginal enumeration
    if big:
        L = int(g.integers(8, 15))
        n = int(g.integers(2, 4))
    else:
        L = int(g.integers(1, 8)) if g.random() < 0.8 else int(g.integers(1, 4))
        n = int(g.integers(2, 6)) if scheme != "fourway" else int(g.integers(2, 5))
    posmode = POSMODES[int(g.integers(0, len(POSMODES)))]
    chrgrp, genpos = gen_layout(g, L, posmode)
    h0, h1, pcls = gen_parents(g, n, L, scheme)
    u, beta, ucls = gen_effects(g, L)
    nself = gen_nself(g, L, ctx.tier) if genetic else 0
    if big and nself == INF and g.random() < 0.5:
        nself = 3
    mem = [None, 1, 2, 3, 5, L, 1024, 4, "default"][int(g.integers(0, 9 if genetic else 7))]
    routes = ["from_algmod", "from_gmod"] + (["factory.from_gmod", "factory.from_algmod"] if (scheme, kind) in FACTORIES else [])
    route = routes[int(g.integers(len(routes)))]
    nmating, nprogeny = int(g.integers(1, 20)), int(g.integers(1, 80))
    labelled = g.random() < 0.85
    u_misc = gen_umisc(g, u.shape[1])
    coords = [c, "mat"]
    site = site_of(scheme, kind)
    trivial = bool((h0 == h0[0]).all() and (h1 == h0[0]).all()) or not u.any()
    ctx.case("mat:%s/%s/%s/%s%s" % (scheme, kind, pcls, posmode, "/pairwise" if big else ""),
             h0, h1, u, beta, chrgrp, genpos, scheme, kind, route, nself_name(nself), mem, u_misc is not None, trivial=trivial)
    summary = {"family": "mat", "scheme": scheme, "class": lib_class(scheme, kind).__name__, "route": route, "nself": nself_name(nself),
               "mem": mem, "phase0": h0.tolist(), "phase1": h1.tolist(), "chrgrp": chrgrp.tolist(), "genpos": genpos.tolist(),
               "u_a": u.tolist(), "beta": beta.tolist(), "u_misc": None if u_misc is None else u_misc.tolist()}
    if c % 37 == 0:
        ctx.sample(summary)
    ctx.sumnote("cases with non-empty u_misc" if u_misc is not None else "cases with empty u_misc")
    pg, mod = make_inputs(h0, h1, chrgrp, genpos, u, beta, g, labelled, u_misc)
    H = HaldaneMapFunction()
    obj, exc = build(ctx, scheme, kind, route, mod, pg, nmating, nprogeny, nself, H, mem)
    if route != "from_algmod":
        ref, rexc = build(ctx, scheme, kind, "from_algmod", mod, pg, nmating, nprogeny, nself, H, mem)
        rsite = lib_class(scheme, kind).__name__ + "." + route if route == "from_gmod" else FACTORIES[(scheme, kind)] + "." + route.split(".")[1]
        if (exc is None) != (rexc is None):
            ctx.check("C12.routes", False, rsite, "raises iff from_algmod raises (same arguments)", kind,
                      what="%s: %s; from_algmod: %s" % (route, repr(exc)[:150], repr(rexc)[:150]), witness=summary, coords=coords)
        elif exc is None:
            same = obj.mat.shape == ref.mat.shape and numpy.array_equal(obj.mat, ref.mat, equal_nan=True)
            ctx.check("C12.routes", same, rsite, "same matrix as from_algmod (same arguments)", kind, witness=summary, coords=coords)
            samelab = all(_same_label(getattr(obj, nm, None), getattr(ref, nm, None)) for nm in ("taxa", "taxa_grp", "trait"))
            ctx.check("C12.routes", samelab and type(obj) is type(ref), rsite, "same class and labels as from_algmod (same arguments)", kind,
                      witness=summary, coords=coords)
            if not same:
                # the deviation of this route is reported above; the value clauses below judge from_algmod's matrix so
                # that a defect of a factory / from_gmod wrapper is not attributed to from_algmod
                obj, route = ref, "from_algmod"
    if exc is not None:
        ctx.raised(site + " via " + route, exc)
        return
    M = numpy.asarray(obj.mat)
    k = NTUP[scheme]
    nt = u.shape[1]
    want_shape = (n,) * k + ((nt,) if kind.startswith("vmat") else (nt, nt))
    if not ctx.check("C12.genetic" if genetic else "C12.genic", M.shape == want_shape, site, "matrix has one entry per parent tuple and trait", "shape",
                     what="shape %s, expected %s" % (M.shape, want_shape), witness=summary, coords=coords):
        return
    mchr, mpos, mh0, mh1, mu = on_map(chrgrp, genpos, h0, h1, u)
    hap = [(mh0[i], mh1[i]) for i in range(n)]
    homoz = [bool((h0[i] == h1[i]).all()) for i in range(n)]
    scale = var_scale(u)
    tol = entry_tol(kind, scale)
    clause = "C12.genetic" if genetic else "C12.genic"
    r = O.interval_r(mchr, mpos, unlinked=not genetic)
    ons = nself if genetic else 0
    if big:
        oracle = O.PairwiseOracle(r)
        tuples = pick_tuples(g, scheme, n, 10 if ons != INF else 6, homoz)
        cov_of = lambda idx: oracle.cov(scheme, hap, idx, ons, mu)
    else:
        E = O.Engine(r)
        tuples = pick_tuples(g, scheme, n, tuple_budget(L, ons, ctx.tier), homoz)
        cov_of = lambda idx: O.exact_moments(E, scheme, hap, idx, ons, mu, beta)[1]
    rel = "entry == exact gamete enumeration" if genetic else "entry == exact gamete enumeration with all loci unlinked"
    ocls = order_class(chrgrp, genpos)
    ctx.sumnote("mat cases with non-monotone genetic positions" if ocls else "mat cases with monotone genetic positions")
    expected = {}
    for idx in tuples:
        tc = tclass(scheme, idx, homoz)
        if tc == "female == male, heterozygous parent":
            # the statement gives two readings here (ASSUME): the enumerated value of the selfed heterozygote, or zero for
            # "genetically identical parents".  Which one a class takes is left open; anything else satisfies neither.
            ctx.sumnote("dihybrid [a,a] entries of a heterozygous parent (either reading of the statement accepted)")
            exp = expected_entry(kind, cov_of(idx))
            got = M[tuple(idx)]
            as_enum, as_zero = close(got, exp, tol), close(got, 0.0 * exp, tol)
            if as_enum != as_zero:
                ctx.sumnote("dihybrid [a,a] of a heterozygous parent, reading taken by %s: %s" % (type(obj).__name__, "enumeration" if as_enum else "zero"))
            ctx.check(clause, as_enum or as_zero, site, "entry == exact gamete enumeration of the selfed individual, or == 0 (the two readings of the statement)", tc,
                      what="%s%s nself=%s: reported %s, enumeration %s" % (lib_class(scheme, kind).__name__, list(idx), nself_name(nself),
                                                                          numpy.asarray(got).ravel()[:4].tolist(), numpy.ravel(exp)[:4].tolist()),
                      witness=dict(summary, index=list(idx), reported=numpy.asarray(got), enumerated=exp), coords=coords)
            continue
        exp = expected_entry(kind, cov_of(idx))
        got = M[tuple(idx)]
        ok = close(got, exp, tol)
        if ok:
            expected[tuple(idx)] = exp          # the history clause follows only entries that were right when built
        ctx.sumnote("entries judged against the enumeration: " + type(obj).__name__)
        ctx.maxnote("worst |reported - enumerated| / tolerance (passing entries)", slack(got, exp, tol) if ok else 0.0)
        ctx.check(clause, ok, site, rel, tc + (ocls if genetic else ""),
                  what="%s%s nself=%s: reported %s, enumeration %s" % (lib_class(scheme, kind).__name__, list(idx), nself_name(nself),
                                                                      numpy.asarray(got).ravel()[:4].tolist(), numpy.ravel(exp)[:4].tolist()),
                  witness=dict(summary, index=list(idx), reported=numpy.asarray(got), enumerated=exp), coords=coords)
    structure(ctx, g, scheme, kind, route, obj, M, pg, mod, h0, h1, homoz, tol, summary, coords, nmating, nprogeny, nself, H, mem)
    if g.random() < 0.6:
        history(ctx, g, scheme, kind, obj, expected, tol, pg, summary, coords)


def sym_axes(scheme):
    if scheme in ("twoway", "dihybrid"):
        return [("female <-> male", (1, 0))]
    if scheme == "threeway":
        return [("female <-> male", (0, 2, 1))]
    return [("female2 <-> male2", (1, 0, 2, 3)), ("female1 <-> male1", (0, 1, 3, 2)), ("pair (female2,male2) <-> pair (female1,male1)", (2, 3, 0, 1))]


def structure(ctx, g, scheme, kind, route, obj, M, pg, mod, h0, h1, homoz, tol, summary, coords, nmating, nprogeny, nself, H, mem):
    site = site_of(scheme, kind)
    n = h0.shape[0]
    k = NTUP[scheme]
    extra = tuple(range(k, M.ndim))
    tolb = numpy.broadcast_to(tol, M.shape[k:])
    # (a) symmetry in exchangeable parents, reported per class of the offending index tuples
    for name, perm in sym_axes(scheme):
        T = numpy.transpose(M, perm + extra)
        with numpy.errstate(all="ignore"):
            bad = ~((numpy.abs(M - T) <= tolb) | (numpy.isnan(M) & numpy.isnan(T)))
        badt = numpy.argwhere(bad.reshape(M.shape[:k] + (-1,)).any(-1))
        classes = {}
        for idx in badt:
            idx = tuple(int(i) for i in idx)
            other = tuple(idx[p] for p in perm)
            tcs = sorted({tclass(scheme, idx, homoz), tclass(scheme, other, homoz)})
            classes.setdefault(" / ".join(tcs), idx)
        if not classes:
            ctx.ok("C12.structure.symmetry")
        for tc, idx in sorted(classes.items()):
            ctx.check("C12.structure.symmetry", False, site, "invariant under " + name, tc,
                      what="%s%s = %s but exchanged entry = %s" % (type(obj).__name__, list(idx), M[idx].ravel()[:3].tolist(),
                                                                 M[tuple(idx[p] for p in perm)].ravel()[:3].tolist()),
                      witness=dict(summary, index=list(idx)), coords=coords)
    # (b) zero for genetically identical parents (inbred-parent schemes; dihybrid only for a homozygous individual)
    for idx in itertools.product(range(n), repeat=k):
        if scheme == "dihybrid":
            same = homoz[idx[0]] and homoz[idx[1]] and bool((h0[idx[0]] == h0[idx[1]]).all())
        else:
            same = all(bool((h0[i] == h0[idx[0]]).all()) for i in idx)
        if same:
            tc = tclass(scheme, idx, homoz)
            ctx.check("C12.structure.zero", close(M[idx], 0.0 * tolb, tolb), site, "entry == 0 for genetically identical parents", tc,
                      what="%s%s = %s for identical parents" % (type(obj).__name__, list(idx), M[idx].ravel()[:3].tolist()),
                      witness=dict(summary, index=list(idx)), coords=coords)
    # (c) labels
    lab_ok = True
    for nm, src in (("taxa", pg.taxa), ("taxa_grp", pg.taxa_grp)):
        got = getattr(obj, nm)
        lab_ok = lab_ok and ((got is None and src is None) or (got is not None and src is not None and numpy.array_equal(got, src)))
    ctx.check("C12.structure.labels", lab_ok, site, "taxa and taxa_grp of the parents carried to the matrix", "labelled" if pg.taxa is not None else "unlabelled",
              witness=summary, coords=coords)
    if getattr(obj, "trait", None) is None:
        ctx.sumnote("trait labels not carried (observed only): " + type(obj).__name__)
    # (d) equivariance under reordering of taxa
    if n >= 2 and int(coords[0]) % 2 == 0:
        perm = g.permutation(n)
        pg2 = permuted_pgmat(pg, perm)
        obj2, exc2 = build(ctx, scheme, kind, route, mod, pg2, nmating, nprogeny, nself, H, mem)
        if exc2 is not None:
            ctx.check("C12.structure.reorder", False, site, "reordered taxa: constructor raises, original order succeeds", "any",
                      what=repr(exc2)[:200], witness=dict(summary, perm=perm), coords=coords)
            return
        M2 = numpy.asarray(obj2.mat)
        exp = M[numpy.ix_(*([perm] * k))]
        with numpy.errstate(all="ignore"):
            bad = ~((numpy.abs(M2 - exp) <= tolb) | (numpy.isnan(M2) & numpy.isnan(exp)))
        lab2 = all((getattr(obj2, nm) is None and getattr(pg, nm) is None) or
                   (getattr(obj2, nm) is not None and getattr(pg, nm) is not None and numpy.array_equal(getattr(obj2, nm), getattr(pg, nm)[perm]))
                   for nm in ("taxa", "taxa_grp"))
        ctx.check("C12.structure.reorder", not bad.any(), site, "matrix of reordered taxa == reordered matrix", "any",
                  witness=dict(summary, perm=perm), coords=coords)
        ctx.check("C12.structure.reorder", lab2, site, "labels follow the reordering", "any", witness=dict(summary, perm=perm), coords=coords)


# ---------------------------------------------------------------- the matrix as a long-lived labelled object
TAXA_OPS = ["reorder_taxa", "reorder", "sort_taxa", "sort", "group_taxa", "group", "select_taxa", "select", "delete_taxa", "delete",
            "remove_taxa", "remove", "lexsort_taxa+reorder_taxa", "copy", "deepcopy", "ungroup_taxa"]
TRAIT_OPS = ["reorder_trait", "select_trait", "delete_trait", "remove_trait", "sort_trait", "reorder@trait", "select@trait"]


def defining_class(obj, name):
    for k in type(obj).__mro__:
        if name in k.__dict__:
            return k.__name__
    return type(obj).__name__


def history(ctx, g, scheme, kind, obj, expected, tol, pg, summary, coords):
    """Apply the library's own taxa / trait operations to the matrix it returned; after every operation each entry must
    still equal the enumeration for the parents (and traits) NAMED by the labels at its index tuple (for unlabelled
    matrices: for the parents the index-based operation semantics put there)."""
    import copy as _copy
    k = NTUP[scheme]
    labelled = pg.taxa is not None
    name2ix = {nm: i for i, nm in enumerate(pg.taxa.tolist())} if labelled else None
    try:
        cur = _copy.deepcopy(obj)
    except Exception as e:
        ctx.raised("deepcopy of " + type(obj).__name__, e)
        return
    ntrait0 = numpy.asarray(obj.mat).shape[k]
    trait0 = None if getattr(obj, "trait", None) is None else list(obj.trait.tolist())
    taxa_map = list(range(numpy.asarray(obj.mat).shape[0]))   # model: original parent at every position
    trait_map = list(range(ntrait0))
    ops = []
    for step in range(int(g.integers(1, 4))):
        n = len(taxa_map); t = len(trait_map)
        pool = TAXA_OPS * 2 + TRAIT_OPS
        op = pool[int(g.integers(len(pool)))]
        ax_taxa = int(g.integers(0, k))                        # generic methods: any of the taxa axes names the taxa
        ax_trait = k + int(g.integers(0, cur.mat.ndim - k))
        if g.random() < 0.3:
            ax_taxa -= cur.mat.ndim                            # negative axis numbers are valid too
        new_taxa, new_trait, res = taxa_map, trait_map, None
        label_dep = False
        try:
            if op in ("reorder_taxa", "reorder", "lexsort_taxa+reorder_taxa"):
                perm = g.permutation(n)
                if op == "reorder_taxa":
                    cur.reorder_taxa(perm)
                elif op == "reorder":
                    cur.reorder(perm, axis=ax_taxa)
                else:
                    if not labelled:
                        continue
                    perm = cur.lexsort_taxa(); label_dep = True
                    cur.reorder_taxa(perm)
                new_taxa = [taxa_map[int(i)] for i in perm]
            elif op in ("sort_taxa", "sort", "group_taxa", "group"):
                if not labelled:
                    continue
                label_dep = True
                {"sort_taxa": lambda: cur.sort_taxa(), "sort": lambda: cur.sort(axis=ax_taxa),
                 "group_taxa": lambda: cur.group_taxa(), "group": lambda: cur.group(axis=ax_taxa)}[op]()
                new_taxa = None                                 # order chosen by the library: read from the labels
            elif op in ("select_taxa", "select"):
                sel = g.integers(0, n, int(g.integers(1, n + 2)))
                res = cur.select_taxa(sel) if op == "select_taxa" else cur.select(sel, axis=ax_taxa)
                new_taxa = [taxa_map[int(i)] for i in sel]
            elif op in ("delete_taxa", "delete", "remove_taxa", "remove"):
                if n < 2:
                    continue
                form = int(g.integers(0, 3))
                drop = sorted(set(int(i) for i in g.integers(0, n, int(g.integers(1, n)))))
                arg = drop[0] if (form == 0 or len(drop) == 1 and form == 1) else (slice(drop[0], drop[0] + 1) if form == 1 else drop)
                if not isinstance(arg, list):
                    drop = [drop[0]]
                if op == "delete_taxa":
                    res = cur.delete_taxa(arg)
                elif op == "delete":
                    res = cur.delete(arg, axis=ax_taxa)
                elif op == "remove_taxa":
                    cur.remove_taxa(arg)
                else:
                    cur.remove(arg, axis=ax_taxa)
                new_taxa = [v for i, v in enumerate(taxa_map) if i not in drop]
            elif op in ("copy", "deepcopy"):
                res = cur.copy() if op == "copy" else cur.deepcopy()
            elif op == "ungroup_taxa":
                cur.ungroup_taxa()
            elif op in ("reorder_trait", "reorder@trait"):
                perm = g.permutation(t)
                cur.reorder_trait(perm) if op == "reorder_trait" else cur.reorder(perm, axis=ax_trait)
                new_trait = [trait_map[int(i)] for i in perm]
            elif op in ("select_trait", "select@trait"):
                sel = g.integers(0, t, int(g.integers(1, t + 2)))
                res = cur.select_trait(sel) if op == "select_trait" else cur.select(sel, axis=ax_trait)
                new_trait = [trait_map[int(i)] for i in sel]
            elif op in ("delete_trait", "remove_trait"):
                if t < 2:
                    continue
                d = int(g.integers(0, t))
                if op == "delete_trait":
                    res = cur.delete_trait(d)
                else:
                    cur.remove_trait(d)
                new_trait = [v for i, v in enumerate(trait_map) if i != d]
            elif op == "sort_trait":
                if trait0 is None:
                    continue
                label_dep = True
                cur.sort_trait()
                new_trait = None
        except Exception as e:
            ctx.raised("%s.%s on %d taxa axes" % (defining_class(cur, op.split("@")[0].split("+")[-1]), op, k), e)
            new_taxa, new_trait, res = taxa_map, trait_map, None   # a failed operation must leave the object as it was
            op = op + " (raised)"
        if res is not None:
            cur = res
        ops.append(op)
        site = "%s.%s" % (defining_class(cur, op.split(" ")[0].split("@")[0].split("+")[-1]), op.split(" ")[0].split("@")[0])
        icls = "two taxa axes" if k == 2 else "more than two taxa axes"
        M = numpy.asarray(cur.mat)
        w = dict(summary, operations=list(ops))
        # who sits where now: the labels say it (labelled), the operation semantics say it (unlabelled)
        if labelled and cur.taxa is None:
            # carrying labels through operations is property C03's subject; C12 only asks that entries match whoever is named
            ctx.sumnote("history: operation returned a matrix without taxa labels (not judged here): " + site)
            labelled = False
            if new_taxa is None:
                return
        if labelled:
            lab = cur.taxa.tolist()
            if not ctx.check("C12.history", all(x in name2ix for x in lab) and all(M.shape[a] == len(lab) for a in range(k)),
                             site, "taxa labels known and as many as every taxa axis is long", icls, witness=w, coords=coords):
                return
            where = [name2ix[x] for x in lab]
            grp_ok = cur.taxa_grp is None or numpy.array_equal(cur.taxa_grp, pg.taxa_grp[where])
            ctx.check("C12.history", grp_ok, site, "taxa_grp belongs to the parent named at the same position", icls, witness=w, coords=coords)
            if new_taxa is not None and not label_dep:
                ctx.check("C12.history", where == list(new_taxa), site, "labels moved as the operation's index semantics say", icls, witness=w, coords=coords)
        else:
            where = list(new_taxa)
            if not ctx.check("C12.history", all(M.shape[a] == len(where) for a in range(k)), site, "every taxa axis has the length the operation implies",
                             icls, witness=w, coords=coords):
                return
        tlab = getattr(cur, "trait", None)
        if trait0 is not None and tlab is not None and len(set(trait0)) == len(trait0):
            twhere = [trait0.index(x) for x in tlab.tolist()] if all(x in trait0 for x in tlab.tolist()) else None
        else:
            twhere = None if new_trait is None else list(new_trait)
        if twhere is None:
            ctx.sumnote("history: trait order not recoverable after an operation (labels dropped, not judged here): " + site)
            return
        if not ctx.check("C12.history", all(M.shape[a] == len(twhere) for a in range(k, M.ndim)), site,
                         "every trait axis has the length the trait labels / the operation imply", icls, witness=w, coords=coords):
            return
        bad = None
        nchk = 0
        for pos in itertools.product(range(len(where)), repeat=k):
            exp = expected.get(tuple(where[i] for i in pos))
            if exp is None:
                continue
            e2 = exp[twhere] if kind.startswith("vmat") else exp[numpy.ix_(twhere, twhere)]
            t2 = numpy.broadcast_to(tol, exp.shape)
            t2 = t2[twhere] if kind.startswith("vmat") else t2[numpy.ix_(twhere, twhere)]
            nchk += 1
            if not close(M[pos], e2, t2):
                bad = (pos, M[pos], e2)
                break
        ctx.sumnote("history: entries re-judged after an operation", nchk)
        ctx.check("C12.history", bad is None, site,
                  "entry == enumeration for the parents and traits now at that index (named by the labels, else placed there by the operation)",
                  icls, what=None if bad is None else "%s after %s: entry %s = %s, enumeration for the named parents %s" % (
                      type(cur).__name__, ops, list(bad[0]), numpy.ravel(bad[1])[:4].tolist(), numpy.ravel(bad[2])[:4].tolist()),
                  witness=w, coords=coords)
        if bad is not None:
            return                                             # later operations would inherit the damage: attribute it once
        taxa_map = where
        trait_map = twhere


# ---------------------------------------------------------------- family 2: chunking parameter
def case_chunk(ctx, c):
    from pybrops.popgen.gmap.HaldaneMapFunction import HaldaneMapFunction
    g = ctx.rng("chunk", c)
    scheme = ["twoway", "threeway", "fourway", "dihybrid"][int(g.integers(0, 4))]
    kind = ["vmat.genetic", "pcvmat.genetic", "vmat.genetic", "vmat.genic", "vmat.genetic", "pcvmat.genic"][int(g.integers(0, 6))]
    L = int(g.integers(2, 41)) if scheme != "fourway" else int(g.integers(2, 25))
    n = int(g.integers(2, 5)) if scheme != "fourway" else int(g.integers(2, 4))
    posmode = POSMODES[int(g.integers(0, len(POSMODES)))]
    chrgrp, genpos = gen_layout(g, L, posmode)
    h0, h1, pcls = gen_parents(g, n, L, scheme)
    u, beta, ucls = gen_effects(g, L)
    nself = [0, 1, 2, 5, INF][int(g.integers(0, 5))]
    chrlen = numpy.bincount(chrgrp)[1:]
    cand = {1, 2, 3, 5, L, 1024, int(chrlen.max()), int(chrlen.max()) - 1, int(chrlen.max()) + 1, int(chrlen.min())}
    cand = sorted(m for m in cand if m >= 1)
    maxblocks = 150 if scheme in ("twoway", "dihybrid") else (60 if scheme == "threeway" else 30)
    cand = [m for m in cand if sum(math.ceil(x / m) ** 2 for x in chrlen) <= maxblocks] or [L]
    mems = [cand[int(i)] for i in g.choice(len(cand), min(3, len(cand)), replace=False)]
    coords = [c, "chunk"]
    site = site_of(scheme, kind)
    ctx.case("chunk:%s/%s/%s" % (scheme, kind, posmode), h0, h1, u, chrgrp, genpos, nself_name(nself), tuple(mems),
             trivial=bool((h0 == h0[0]).all() and (h1 == h0[0]).all()) or not u.any())
    summary = {"family": "chunk", "scheme": scheme, "class": lib_class(scheme, kind).__name__, "nself": nself_name(nself), "mems": mems,
               "phase0": h0.tolist(), "phase1": h1.tolist(), "chrgrp": chrgrp.tolist(), "genpos": genpos.tolist(), "u_a": u.tolist()}
    if c % 53 == 0:
        ctx.sample(summary)
    u_misc = gen_umisc(g, u.shape[1])
    summary["u_misc"] = None if u_misc is None else u_misc.tolist()
    ctx.sumnote("cases with non-empty u_misc" if u_misc is not None else "cases with empty u_misc")
    pg, mod = make_inputs(h0, h1, chrgrp, genpos, u, beta, g, True, u_misc)
    H = HaldaneMapFunction()
    ctx.sumnote("chunk cases with non-monotone genetic positions" if order_class(chrgrp, genpos) else "chunk cases with monotone genetic positions")
    ref, rexc = build(ctx, scheme, kind, "from_algmod", mod, pg, 1, 10, nself, H, None)
    if rexc is not None:
        ctx.raised(site + " via from_algmod", rexc)
    tol = entry_tol(kind, var_scale(u))
    for mem in mems:
        obj, exc = build(ctx, scheme, kind, "from_algmod", mod, pg, 1, 10, nself, H, mem)
        rem = ("chunk size divides chromosome length" if all(x % mem == 0 for x in chrlen) else (
            "chunk size exceeds chromosome length" if mem > chrlen.max() else "chunk size leaves a partial last chunk")) + order_class(chrgrp, genpos)
        if (exc is None) != (rexc is None):
            ctx.check("C12.chunk", False, site, "raises iff mem=None raises", rem,
                      what="mem=%s: %s; mem=None: %s" % (mem, repr(exc)[:150], repr(rexc)[:150]), witness=dict(summary, mem=mem), coords=coords)
            continue
        if exc is not None:
            continue
        A, B = numpy.asarray(obj.mat), numpy.asarray(ref.mat)
        tolb = numpy.broadcast_to(tol, A.shape[NTUP[scheme]:]) if A.shape == B.shape else None
        with numpy.errstate(all="ignore"):
            ok = A.shape == B.shape and bool(((numpy.abs(A - B) <= tolb) | (numpy.isnan(A) & numpy.isnan(B))).all())
        if ok:
            with numpy.errstate(all="ignore"):
                d = numpy.abs(A - B) / tolb
            d = d[numpy.isfinite(d)]
            ctx.maxnote("worst |mat(mem) - mat(None)| / tolerance", float(d.max()) if d.size else 0.0)
        ctx.check("C12.chunk", ok, site, "matrix independent of mem", rem,
                  what="mem=%s differs from mem=None" % mem, witness=dict(summary, mem=mem), coords=coords)


# ---------------------------------------------------------------- family 3: usefulness criterion
def selection_intensity(p):
    """i = phi(z) / p with z the standard-normal quantile of 1 - p (definition of selection intensity)."""
    if p >= 1.0:
        return 0.0
    nd = statistics.NormalDist()
    return nd.pdf(nd.inv_cdf(1.0 - p)) / p


def case_uc(ctx, c):
    from pybrops.popgen.gmap.HaldaneMapFunction import HaldaneMapFunction
    import pybrops.breed.prot.sel.prob.UsefulnessCriterionSelectionProblem as UCM
    g = ctx.rng("uc", c)
    scheme = ["twoway", "threeway", "fourway", "dihybrid"][int(g.integers(0, 4))]
    enc = ["Subset", "Binary", "Integer", "Real"][int(g.integers(0, 4))]
    P = getattr(UCM, "UsefulnessCriterion%sMateSelectionProblem" % enc)
    kind = "vmat.genetic"
    k = NTUP[scheme]
    L = int(g.integers(1, 7))
    n = int(g.integers(max(2, k if g.random() < 0.7 else 2), 6 if k < 4 else 5))
    posmode = POSMODES[int(g.integers(0, len(POSMODES)))]
    chrgrp, genpos = gen_layout(g, L, posmode)
    h0, h1, pcls = gen_parents(g, n, L, scheme)
    u, beta, ucls = gen_effects(g, L)
    nself = int(g.integers(0, 3))
    pctl = [0.01, 0.1, 0.25, 0.5, 0.9, 1.0, float(g.uniform(0.001, 0.999))][int(g.integers(0, 7))]
    unique = bool(g.random() < 0.5)
    via_xmap = bool(g.random() < 0.5)
    coords = [c, "uc"]
    site = "UsefulnessCriterionSelectionProblemMixin._calc_uc"
    u_misc = gen_umisc(g, u.shape[1])
    ctx.sumnote("cases with non-empty u_misc" if u_misc is not None else "cases with empty u_misc")
    pg, mod = make_inputs(h0, h1, chrgrp, genpos, u, beta, g, True, u_misc)
    H = HaldaneMapFunction()
    if via_xmap:
        nx = int(g.integers(1, 13))
        xmap = g.integers(0, n, (nx, k)).astype("int64")
        if unique:
            xmap = numpy.array([g.permutation(n)[:k] if n >= k else g.integers(0, n, k) for _ in range(nx)], dtype="int64")
    else:
        exp_xmap = [tuple(t) for t in (itertools.combinations(range(n), k) if unique else itertools.combinations_with_replacement(range(n), k))]
        nx = len(exp_xmap)
    icls = "cross map given" if via_xmap else ("generated cross map, unique parents" if unique else "generated cross map, repeated parents allowed")
    ctx.case("uc:%s/%s/%s" % (scheme, enc, "xmap" if via_xmap else ("unique" if unique else "repeats")), h0, h1, u, beta, chrgrp, genpos, nself, pctl,
             trivial=not u.any())
    summary = {"family": "uc", "scheme": scheme, "problem": P.__name__, "nself": nself, "upper_percentile": pctl, "unique_parents": unique,
               "xmap": xmap.tolist() if via_xmap else "generated", "phase0": h0.tolist(), "phase1": h1.tolist(), "chrgrp": chrgrp.tolist(),
               "genpos": genpos.tolist(), "u_a": u.tolist(), "beta": beta.tolist(), "u_misc": None if u_misc is None else u_misc.tolist()}
    if c % 41 == 0:
        ctx.sample(summary)
    if nx == 0:
        ctx.sumnote("uc cases with an empty cross map (fewer taxa than parents)")
        return
    if enc == "Subset":
        if nx < 2:
            ctx.sumnote("uc subset cases skipped (one candidate)")
            return
        dec = dict(ndecn=int(g.integers(1, nx)), decn_space=numpy.arange(nx), decn_space_lower=None, decn_space_upper=None)
    elif enc == "Real":
        dec = dict(ndecn=nx, decn_space=numpy.stack([numpy.zeros(nx), numpy.ones(nx)]), decn_space_lower=numpy.zeros(nx), decn_space_upper=numpy.ones(nx))
    else:
        dec = dict(ndecn=nx, decn_space=numpy.stack([numpy.zeros(nx, dtype="int64"), numpy.ones(nx, dtype="int64")]),
                   decn_space_lower=numpy.zeros(nx, dtype="int64"), decn_space_upper=numpy.ones(nx, dtype="int64"))
    fac = lib_factory(scheme, kind)
    common = dict(nparent=k, ncross=int(g.integers(1, 10)), nprogeny=int(g.integers(1, 50)), nself=nself, upper_percentile=pctl,
                  vmatfcty=fac, gmapfn=H, unique_parents=unique, pgmat=pg, gpmod=mod, nobj=u.shape[1], **dec)
    # half of the problems get a factory object that has served another request before (same parents, model, map function and
    # cross sizes, another selfing depth - as when a protocol's nself is changed between two problem constructions)
    gw = ctx.rng("uc-used-factory", c)
    if gw.random() < 0.5:
        other = [x for x in (0, 1, 2, 3) if x != nself][int(gw.integers(0, 3))]
        try:
            with Poison(ctx):
                fac.from_gmod(gmod=mod, pgmat=pg, ncross=common["ncross"], nprogeny=common["nprogeny"], nself=other, gmapfn=H)
            icls += ", factory object served another selfing depth before"
            summary["factory_used_before_with_nself"] = other
        except Exception as e:
            ctx.raised(type(fac).__name__ + ".from_gmod (request before the problem construction)", e)
    try:
        with Poison(ctx):
            prob = P.from_pgmat_gpmod_xmap(xmap=xmap.copy(), **common) if via_xmap else P.from_pgmat_gpmod(**common)
    except Exception as e:
        ctx.raised(P.__name__ + (".from_pgmat_gpmod_xmap" if via_xmap else ".from_pgmat_gpmod"), e)
        return
    uc = numpy.asarray(prob.ucmat)
    used = numpy.asarray(prob.decn_space_xmap)
    want = xmap if via_xmap else numpy.array(exp_xmap, dtype=int).reshape(nx, k)
    shape_ok = uc.shape == (nx, u.shape[1]) and used.shape == want.shape and (via_xmap and numpy.array_equal(used, want) or
                                                                            (not via_xmap and sorted(map(tuple, used.tolist())) == sorted(map(tuple, want.tolist()))))
    if not ctx.check("C12.uc.shape", shape_ok, site, "one usefulness row per cross of the cross map (all parent combinations)", icls,
                     what="ucmat %s, xmap %s, expected %d crosses" % (uc.shape, used.shape, nx), witness=summary, coords=coords):
        return
    # the library's own variance matrix, only to attribute a mismatch to the right mechanism
    vobj, vexc = build(ctx, scheme, kind, "factory.from_gmod", mod, pg, common["ncross"], common["nprogeny"], nself, H, 1024)
    mchr, mpos, mh0, mh1, mu = on_map(chrgrp, genpos, h0, h1, u)
    E = O.Engine(O.interval_r(mchr, mpos))
    hap = [(mh0[i], mh1[i]) for i in range(n)]
    homoz = [bool((h0[i] == h1[i]).all()) for i in range(n)]
    inten = selection_intensity(pctl)
    vscale = numpy.diag(var_scale(u))
    vtol = tol_of(vscale)
    gebv_scale = numpy.abs(beta).ravel() + 2.0 * numpy.abs(u).sum(0)
    for row, idx in enumerate(used.tolist()):
        idx = tuple(int(i) for i in idx)
        tc = tclass(scheme, idx, homoz)
        if tc == "female == male, heterozygous parent":
            ctx.sumnote("dihybrid [a,a] usefulness rows of a heterozygous parent (asserted by no clause)")
            continue
        mean, cov = O.exact_moments(E, scheme, hap, idx, nself, mu, beta)
        var = numpy.clip(numpy.diag(cov), 0.0, None)
        exp = mean + inten * numpy.sqrt(var)
        # tolerance = own rounding + the variance tolerance propagated through the square root:
        # |sqrt(a) - sqrt(b)| <= min(sqrt|a-b|, |a-b| / sqrt(a))
        with numpy.errstate(all="ignore"):
            prop = numpy.minimum(numpy.sqrt(vtol), numpy.where(var > 0, vtol / numpy.sqrt(var), numpy.inf))
        tol = tol_of(gebv_scale + inten * numpy.sqrt(vscale)) + inten * prop
        ok = close(uc[row], exp, tol)
        if not ok and vexc is None and not close(numpy.asarray(vobj.mat)[idx], var, vtol):
            # the variance entry itself disagrees with the enumeration: that is C12.genetic's finding, not the UC assembly's
            ctx.sumnote("uc rows not judged: variance entry already contradicts the enumeration (" + tc + ")")
            continue
        if ok and bool((var > 1e-6 * vscale).all()):   # rows with (near-)zero variance live on the propagated sqrt tolerance
            ctx.maxnote("worst |uc - expected| / tolerance (passing rows, variance not near zero)", slack(uc[row], exp, tol))
        ctx.check("C12.uc", ok, site, "uc == progeny mean + intensity * sqrt(enumerated variance)", icls,
                  what="%s cross %s p=%s nself=%d: ucmat row %s, expected %s" % (P.__name__, list(idx), pctl, nself, uc[row].tolist(), exp.tolist()),
                  witness=dict(summary, index=list(idx), row=row, reported=uc[row], expected=exp, intensity=inten), coords=coords)


# ---------------------------------------------------------------- family 4: many markers per chromosome
def case_large(ctx, c):
    """130-400 markers on one chromosome in 2-5 groups of markers sharing one genetic position (completely linked), two
    segment types A/B per group, every parental haplotype carries A or B in each group.  The gamete distribution is then
    exactly the one of 2-5 biallelic super-loci with effect (B - A).u per group, which the engine enumerates; the first two
    parents are complementary, so they differ at more than 127 markers inside one chunk for mem in {None, 1024, 128, ...}."""
    from pybrops.popgen.gmap.HaldaneMapFunction import HaldaneMapFunction
    g = ctx.rng("large", c)
    scheme = ["twoway", "threeway", "fourway", "dihybrid"][int(g.integers(0, 4))]
    kind = "pcvmat.genetic" if g.random() < 0.5 else "vmat.genetic"
    G = int(g.integers(2, 6))
    nm = int(g.integers(130, 401))
    n = int(g.integers(2, 4))
    sizes = 1 + g.multinomial(nm - G, g.dirichlet(numpy.ones(G)))
    grp = numpy.repeat(numpy.arange(G), sizes)
    interleaved = bool(g.random() < 0.5)
    if interleaved:                               # markers of the position groups interleaved in stored (physical) order
        grp = grp[g.permutation(nm)]
    posmode = ["spread", "clustered", "far", "offset"][int(g.integers(0, 4))]
    _, gpos = gen_layout_one(g, G, posmode)
    genpos = gpos[grp]
    chrgrp = numpy.ones(nm, dtype="int64")
    A = g.integers(0, 2, nm)
    pdiff = [1.0, 1.0, 0.9, 0.6][int(g.integers(0, 4))]
    B = numpy.where(g.random(nm) < pdiff, 1 - A, A)
    # segment types per parent and phase
    if scheme == "dihybrid":
        x0 = g.integers(0, 2, (n, G)); x1 = g.integers(0, 2, (n, G))
        x0[0] = 0; x1[0] = 1                      # parent 0: fully heterozygous A/B
        x0[1] = 1; x1[1] = int(g.integers(0, 2))  # parent 1: B / (A or B)
    else:
        x0 = g.integers(0, 2, (n, G)); x0[0] = 0; x0[1] = 1
        x1 = x0.copy()
    h0 = numpy.where(x0[:, grp] == 1, B[None, :], A[None, :]).astype("int8")
    h1 = numpy.where(x1[:, grp] == 1, B[None, :], A[None, :]).astype("int8")
    u, beta, ucls = gen_effects(g, nm)
    u_misc = gen_umisc(g, u.shape[1])
    nself = gen_nself(g, G, ctx.tier)
    mems = [None, "default", 50, 127, 128]
    ndiff = int((h0[0] != h0[1]).sum())
    coords = [c, "large"]
    site = site_of(scheme, kind)
    ctx.case("large:%s/%s/%s" % (scheme, kind, posmode), h0, h1, u, genpos, nself_name(nself), u_misc is not None)
    summary = {"family": "large", "scheme": scheme, "class": lib_class(scheme, kind).__name__, "nself": nself_name(nself), "markers": nm, "groups_interleaved": interleaved,
               "group_of_marker": grp.tolist(), "group_sizes": sizes.tolist(), "group_genpos": gpos.tolist(), "segment_A": A.tolist(), "segment_B": B.tolist(),
               "types_phase0": x0.tolist(), "types_phase1": x1.tolist(), "markers_differing_parent0_parent1": ndiff,
               "u_a": u.tolist(), "beta": beta.tolist(), "u_misc": None if u_misc is None else u_misc.tolist()}
    if c % 5 == 0:
        ctx.sample({k: v for k, v in summary.items() if k not in ("segment_A", "segment_B", "u_a", "group_of_marker")})
    ctx.sumnote("large cases: parents 0 and 1 differ at more than 127 markers" if ndiff > 127 else "large cases: parents 0 and 1 differ at <= 127 markers")
    pg, mod = make_inputs(h0, h1, chrgrp, genpos, u, beta, g, True, u_misc)
    H = HaldaneMapFunction()
    # exact reference on the super-loci
    u_eff = numpy.zeros((G, u.shape[1]))
    numpy.add.at(u_eff, grp, (B - A)[:, None] * u)
    E = O.Engine(O.interval_r(numpy.ones(G, dtype=int), gpos))
    hap = [(x0[i], x1[i]) for i in range(n)]
    homoz = [bool((x0[i] == x1[i]).all()) for i in range(n)]
    tuples = pick_tuples(g, scheme, n, min(81, tuple_budget(G, nself, ctx.tier)), homoz)
    expect = {}
    for idx in tuples:
        if tclass(scheme, idx, homoz) != "female == male, heterozygous parent":
            expect[idx] = expected_entry(kind, O.exact_moments(E, scheme, hap, idx, nself, u_eff)[1])
    tol = entry_tol(kind, var_scale(u))
    mats = {}
    for mem in mems:
        obj, exc = build(ctx, scheme, kind, "from_algmod", mod, pg, 1, 10, nself, H, mem)
        if exc is not None:
            ctx.raised(site + " via from_algmod", exc)
            mats[mem] = exc
            continue
        M = mats[mem] = numpy.asarray(obj.mat)
        blk = ("more than 127 segregating markers in a chunk" if (ndiff > 127 and (mem is None or mem == "default" or mem > 127)) else "at most 127 segregating markers in a chunk") + order_class(chrgrp, genpos)
        for idx, exp in expect.items():
            got = M[tuple(idx)]
            ok = close(got, exp, tol)
            ctx.sumnote("entries judged against the enumeration: " + type(obj).__name__)
            ctx.maxnote("worst |reported - enumerated| / tolerance (passing entries, many markers)", slack(got, exp, tol) if ok else 0.0)
            ctx.check("C12.genetic", ok, site, "entry == exact gamete enumeration", "%s / %s" % (tclass(scheme, idx, homoz), blk),
                      what="%s%s nself=%s mem=%s, %d markers in %d position groups: reported %s, enumeration %s" % (
                          type(obj).__name__, list(idx), nself_name(nself), mem, nm, G, numpy.asarray(got).ravel()[:4].tolist(), numpy.ravel(exp)[:4].tolist()),
                      witness=dict(summary, index=list(idx), mem=mem, reported=numpy.asarray(got), enumerated=exp), coords=coords)
    ref = mats[None]
    for mem in mems[1:]:
        A_ = mats[mem]
        rem = "many markers per chromosome, " + ("chunk holds the whole chromosome" if (mem == "default" or mem >= nm) else "several chunks") + order_class(chrgrp, genpos)
        if isinstance(A_, Exception) != isinstance(ref, Exception):
            ctx.check("C12.chunk", False, site, "raises iff mem=None raises", rem, what="mem=%s: %r; mem=None: %r" % (mem, A_, ref),
                      witness=dict(summary, mem=mem), coords=coords)
            continue
        if isinstance(A_, Exception):
            continue
        tolb = numpy.broadcast_to(tol, A_.shape[NTUP[scheme]:])
        with numpy.errstate(all="ignore"):
            ok = A_.shape == ref.shape and bool(((numpy.abs(A_ - ref) <= tolb) | (numpy.isnan(A_) & numpy.isnan(ref))).all())
        ctx.check("C12.chunk", ok, site, "matrix independent of mem", rem, what="mem=%s differs from mem=None (%d markers)" % (mem, nm),
                  witness=dict(summary, mem=mem), coords=coords)


# ---------------------------------------------------------------- family 5: the same factory object / class asked again
SEQ_CHANGES = [
    "nself", "nself", "nself", "nself and nprogeny",
    "new pgmat object, other genotypes", "same pgmat object, genotypes replaced through the mat setter",
    "new pgmat object, other genetic positions", "same pgmat object, positions replaced through the vrnt_genpos setter",
    "new model object, other effects", "same model object, effects replaced through the u_a setter",
    "ncross and nprogeny", "mem", "new map function object",
    "nothing", "nothing; the earlier result was reordered in place by the caller",
]


def seq_call(ctx, holder, scheme, kind, route, st):
    """One request with the arguments of state ``st``.  holder = a factory object (asked through its method ``route``) or
    None (the matrix class is asked through its classmethod ``route``)."""
    if holder is None:
        return build(ctx, scheme, kind, route, st["mod"], st["pg"], st["nmating"], st["nprogeny"], st["nself"], st["H"], st["mem"])
    genetic = kind.endswith("genetic")
    mk = {} if st["mem"] == "default" else {"mem": st["mem"]}
    key = "gmod" if route == "from_gmod" else "algmod"
    try:
        with Poison(ctx):
            fn = getattr(holder, route)
            if genetic:
                out = fn(pgmat=st["pg"], ncross=st["nmating"], nprogeny=st["nprogeny"], nself=st["nself"], gmapfn=st["H"], **mk, **{key: st["mod"]})
            else:
                out = fn(pgmat=st["pg"], nprogeny=st["nprogeny"], **mk, **{key: st["mod"]})
        return out, None
    except Exception as e:
        return None, e


def seq_expected(scheme, kind, st, n, tuples):
    """{index tuple: (expected entry, tuple class)} from the enumeration for the arguments held in ``st``."""
    genetic = kind.endswith("genetic")
    mchr, mpos, mh0, mh1, mu = on_map(st["chrgrp"], st["genpos"], st["h0"], st["h1"], st["u"])
    E = O.Engine(O.interval_r(mchr, mpos, unlinked=not genetic))
    hap = [(mh0[i], mh1[i]) for i in range(n)]
    homoz = [bool((st["h0"][i] == st["h1"][i]).all()) for i in range(n)]
    out = {}
    for idx in tuples:
        tc = tclass(scheme, idx, homoz)
        if tc == "female == male, heterozygous parent":
            continue
        out[tuple(idx)] = (expected_entry(kind, O.exact_moments(E, scheme, hap, idx, st["nself"] if genetic else 0, mu, st["beta"])[1]), tc)
    return out


def case_seq(ctx, c):
    """Two to five requests to ONE factory object (or one matrix class) with arguments that change between the requests;
    every answer is judged against the enumeration for the arguments of its own request, and answers given earlier must
    not be altered by later requests."""
    from pybrops.popgen.gmap.HaldaneMapFunction import HaldaneMapFunction
    g = ctx.rng("seq", c)
    scheme = ["twoway", "threeway", "fourway", "dihybrid"][int(g.integers(0, 4))]
    fkinds = [kd for (sc, kd) in FACTORIES if sc == scheme]
    if g.random() < 0.6:
        kind = fkinds[int(g.integers(len(fkinds)))]
        via_factory = True
    else:
        kind = list(KINDS)[int(g.integers(0, 4))]
        via_factory = False
    genetic = kind.endswith("genetic")
    L = int(g.integers(2, 6)) if g.random() < 0.85 else 1
    n = int(g.integers(2, 5)) if scheme != "fourway" else int(g.integers(2, 4))
    posmode = POSMODES[int(g.integers(0, len(POSMODES)))]
    chrgrp, genpos = gen_layout(g, L, posmode)
    h0, h1, pcls = gen_parents(g, n, L, scheme)
    if g.random() < 0.5:                           # several linked segregating loci, so that the selfing depth matters
        if scheme == "dihybrid":
            h1[0] = 1 - h0[0]
        else:
            h0[1] = 1 - h0[0]; h1[1] = h0[1]
    u, beta, ucls = gen_effects(g, L)
    nt = u.shape[1]
    nselfs = [0, 1, 2, 3, INF, numpy.int64(1)]
    st = {"h0": h0, "h1": h1, "u": u, "beta": beta, "chrgrp": chrgrp, "genpos": genpos, "H": HaldaneMapFunction(),
          "nself": nselfs[int(g.integers(len(nselfs)))] if genetic else 0, "nmating": int(g.integers(1, 20)), "nprogeny": int(g.integers(1, 80)),
          # "default": argument omitted (the genic classes have no default for mem)
          "mem": [None, 1, 2, L, 1024, "default", "default", "default", "default", "default"][int(g.integers(0, 10 if genetic else 5))]}
    st["pg"], st["mod"] = make_inputs(h0, h1, chrgrp, genpos, u, beta, g, True, gen_umisc(g, nt))
    holder = lib_factory(scheme, kind) if via_factory else None
    hname = "factory object" if via_factory else "matrix class"
    ncalls = int(g.integers(2, 6))
    main_route = ["from_gmod", "from_algmod"][int(g.integers(0, 2))]   # most requests of a case go through the same method
    coords = [c, "seq"]
    ctx.case("seq:%s/%s/%s" % (scheme, kind, hname), h0, h1, u, beta, chrgrp, genpos, nself_name(st["nself"]), st["mem"], ncalls,
             trivial=bool((h0 == h0[0]).all() and (h1 == h0[0]).all()) or not u.any())
    summary = {"family": "seq", "scheme": scheme, "class": lib_class(scheme, kind).__name__, "asked": hname, "calls": []}
    if c % 29 == 0:
        ctx.sample(summary)
    tuples = pick_tuples(g, scheme, n, 24, [bool((h0[i] == h1[i]).all()) for i in range(n)])
    earlier = []                                   # [object returned, snapshot of its matrix]
    prev_mat = prev_exp = None
    for call in range(ncalls):
        route = main_route if g.random() < 0.8 else ["from_gmod", "from_algmod"][int(g.integers(0, 2))]
        change = None
        if call > 0:
            pool = [x for x in SEQ_CHANGES if genetic or not (x.startswith("nself") or x == "new map function object")]
            change = pool[int(g.integers(len(pool)))]
            # new values are drawn outside every guarded library call
            h0n, h1n, _ = gen_parents(g, n, L, scheme)
            posn = gen_positions(g, st["chrgrp"], POSMODES[int(g.integers(0, len(POSMODES)))])
            un = g.normal(size=(L, nt)) * 10.0 ** int(g.integers(-1, 2))
            other_nself = [x for x in nselfs if x != st["nself"]]
            try:
                if change.startswith("nself"):
                    st["nself"] = other_nself[int(g.integers(len(other_nself)))]
                    if change == "nself and nprogeny":
                        st["nprogeny"] = st["nprogeny"] + 1 + int(g.integers(0, 5))
                elif change == "new pgmat object, other genotypes":
                    st["h0"], st["h1"] = h0n, h1n
                    st["pg"] = make_inputs(h0n, h1n, st["chrgrp"], st["genpos"], st["u"], st["beta"], g, True, None)[0]
                elif change == "same pgmat object, genotypes replaced through the mat setter":
                    st["pg"].mat = numpy.stack([h0n, h1n]).astype("int8")
                    st["h0"], st["h1"] = h0n, h1n
                elif change == "new pgmat object, other genetic positions":
                    st["genpos"] = posn
                    st["pg"] = make_inputs(st["h0"], st["h1"], st["chrgrp"], posn, st["u"], st["beta"], g, True, None)[0]
                elif change == "same pgmat object, positions replaced through the vrnt_genpos setter":
                    st["pg"].vrnt_genpos = posn.copy()
                    st["genpos"] = posn
                elif change == "new model object, other effects":
                    st["u"] = un
                    st["mod"] = make_inputs(st["h0"], st["h1"], st["chrgrp"], st["genpos"], un, st["beta"], g, True, None)[1]
                elif change == "same model object, effects replaced through the u_a setter":
                    st["mod"].u_a = un.copy()
                    st["u"] = un
                elif change == "ncross and nprogeny":
                    st["nmating"] += 1 + int(g.integers(0, 5)); st["nprogeny"] += 1 + int(g.integers(0, 5))
                elif change == "mem":
                    cand = [m for m in (None, 1, 2, 3, 1024) + (("default",) if genetic else ()) if m != st["mem"]]
                    st["mem"] = cand[int(g.integers(len(cand)))]
                elif change == "new map function object":
                    st["H"] = HaldaneMapFunction()
                elif change == "nothing; the earlier result was reordered in place by the caller":
                    perm = numpy.roll(numpy.arange(n), 1 + int(g.integers(0, n - 1)))
                    earlier[-1][0].reorder_taxa(perm)
                    earlier[-1][1] = numpy.array(earlier[-1][0].mat, copy=True)
            except Exception as e:
                ctx.raised("preparing the next request (%s)" % change, e)
                return
        summary["calls"].append({"route": route, "changed": change, "nself": nself_name(st["nself"]), "mem": st["mem"], "ncross": st["nmating"],
                                 "nprogeny": st["nprogeny"], "phase0": st["h0"].tolist(), "phase1": st["h1"].tolist(), "chrgrp": st["chrgrp"].tolist(),
                                 "genpos": st["genpos"].tolist(), "u_a": st["u"].tolist()})
        site = (FACTORIES[(scheme, kind)] if via_factory else lib_class(scheme, kind).__name__) + "." + route
        icls = "changed since the previous request: %s" % change
        obj, exc = seq_call(ctx, holder, scheme, kind, route, st)
        if exc is not None:
            if call > 0 and via_factory:
                fobj, fexc = seq_call(ctx, lib_factory(scheme, kind), scheme, kind, route, st)
                ctx.check("C12.sequence", fexc is not None, site, "raises only if a first request to a fresh factory object raises", icls,
                          what="later request: %s; fresh factory: returned a matrix" % repr(exc)[:150], witness=summary, coords=coords)
            ctx.raised(site + (" (first request)" if call == 0 else " (later request)"), exc)
            return
        M = numpy.asarray(obj.mat)
        tol = entry_tol(kind, var_scale(st["u"]))
        exp = seq_expected(scheme, kind, st, n, tuples if st["nself"] != INF else tuples[:12])
        want_shape = (n,) * NTUP[scheme] + ((nt,) if kind.startswith("vmat") else (nt, nt))
        ocls = order_class(st["chrgrp"], st["genpos"]) if genetic else ""
        if call == 0:
            # the first answer is the ordinary subject of C12.genetic / C12.genic (same keys as the mat family)
            good = M.shape == want_shape
            for idx, (e, tc) in (exp.items() if good else ()):
                ok = close(M[idx], e, tol)
                good = good and ok
                ctx.sumnote("entries judged against the enumeration: " + type(obj).__name__)
                ctx.check("C12.genetic" if genetic else "C12.genic", ok, site_of(scheme, kind),
                          "entry == exact gamete enumeration" if genetic else "entry == exact gamete enumeration with all loci unlinked", tc + ocls,
                          what="%s%s: reported %s, enumeration %s" % (type(obj).__name__, list(idx), numpy.ravel(M[idx])[:4].tolist(), numpy.ravel(e)[:4].tolist()),
                          witness=dict(summary, index=list(idx)), coords=coords)
            if not good:
                return
        else:
            bad = None
            if M.shape != want_shape:
                bad = ("shape", M.shape, want_shape)
            else:
                for idx, (e, tc) in exp.items():
                    if not close(M[idx], e, tol):
                        bad = (list(idx), numpy.ravel(M[idx])[:4].tolist(), numpy.ravel(e)[:4].tolist())
                        break
            stale = bad is not None and prev_mat is not None and prev_mat.shape == M.shape and numpy.array_equal(prev_mat, M, equal_nan=True)
            if bad is not None and bad[0] != "shape":
                # attribution: does a request that nothing preceded (the class's from_algmod with the same arguments) give the
                # same wrong entry?  Then the defect is in the computation (C12.genetic / C12.genic), not in the sequence.
                ref, rexc = build(ctx, scheme, kind, "from_algmod", st["mod"], st["pg"], st["nmating"], st["nprogeny"], st["nself"], st["H"], st["mem"])
                if rexc is None and numpy.asarray(ref.mat).shape == M.shape and close(numpy.asarray(ref.mat)[tuple(bad[0])], M[tuple(bad[0])], tol):
                    ctx.check("C12.genetic" if genetic else "C12.genic", False, site_of(scheme, kind),
                              "entry == exact gamete enumeration" if genetic else "entry == exact gamete enumeration with all loci unlinked",
                              exp[tuple(bad[0])][1] + ocls, what="%s%s: reported %s, enumeration %s" % (type(obj).__name__, bad[0], bad[1], bad[2]),
                              witness=dict(summary, index=bad[0]), coords=coords)
                    return
            ctx.sumnote("seq: later requests judged (%s)" % hname)
            # does the exact answer to this request differ from the exact answer to the previous one (on the judged tuples)?
            differs = any(i in prev_exp and not close(e, prev_exp[i][0], 10.0 * numpy.maximum(tol, prev_tol)) for i, (e, tc) in exp.items())
            ctx.check("C12.sequence.changed" if differs else "C12.sequence", bad is None, site,
                      "later request to the same %s: entry == exact gamete enumeration for the arguments of THIS request" % hname, icls,
                      what=None if bad is None else "%s request %d: entry %s = %s, enumeration %s%s" % (
                          type(obj).__name__, call + 1, bad[0], bad[1], bad[2], " (the matrix equals the answer to the previous request)" if stale else ""),
                      witness=summary, coords=coords)
            same = all(numpy.array_equal(numpy.asarray(o.mat), snap, equal_nan=True) for o, snap in earlier)
            ctx.check("C12.sequence", same, site, "matrices returned by earlier requests are not altered by a later request", icls,
                      witness=summary, coords=coords)
            if bad is not None or not same:
                return
        earlier.append([obj, numpy.array(M, copy=True)])
        prev_mat, prev_exp, prev_tol = earlier[-1][1], exp, tol


def gen_layout_one(g, L, posmode):
    """Strictly increasing genetic positions of L loci on one chromosome."""
    if posmode == "clustered":
        gaps = numpy.where(g.random(L) < 0.6, 10.0 ** g.uniform(-7, -3, L), g.uniform(0.05, 1.0, L))
    elif posmode == "far":
        gaps = g.uniform(3.0, 20.0, L)
    else:
        gaps = g.uniform(0.01, 0.6, L)
    start = float(g.uniform(-2, 2)) if posmode == "offset" else 0.0
    return numpy.ones(L, dtype="int64"), start + numpy.cumsum(numpy.r_[0.0, gaps[1:]])


FAMILIES = {"mat": (case_mat, 3840, 16 * 4000), "chunk": (case_chunk, 640, 16 * 1000), "uc": (case_uc, 480, 16 * 640),
            "large": (case_large, 40, 16 * 40), "seq": (case_seq, 960, 16 * 960)}


def run_shard(ctx):
    for name, (fn, q, t) in FAMILIES.items():
        for c in ctx.case_ids(q, t):
            fn(ctx, c)
    # raised != held: a class whose constructor raised on every call reported no value and is NOT covered by the verdict
    judged = {k.split(": ", 1)[1] for k in ctx.sumnotes if k.startswith("entries judged against the enumeration: ")}
    never = sorted({op.split(".from_algmod")[0] for op in ctx.raised_ if ".from_algmod via " in op} - judged)
    ctx.note("classes whose constructor always raised (no value reported, not covered by the verdict)", never)


def replay(ctx, coords):
    FAMILIES[coords[1]][0](ctx, int(coords[0]))
