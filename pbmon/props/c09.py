"""C09 - genotype summary statistics are exact and mutually consistent.

Every public summary method of DensePhasedGenotypeMatrix / DenseGenotypeMatrix is called on seeded hostile matrices
(family "mat": fresh objects; "hist": live objects along in-place operation histories; "derive": matrices returned by
the library's structural operations; "gt": the outputs of all genotyping protocols with masks and inversion; "large": a
few matrices per run sized so that counts, products of counts and their sums over loci cross 2**15, 2**16, 2**24, 2**31
and 2**32); the returned values are judged by the integer/Fraction reference model in pbmon/oracle/c09_popgen.py
(``LargeRef`` for the large family: int64 counts cross-checked by a second route, then exact integers).
"""
import numpy

from pbmon import boot  # noqa: F401
from pbmon.oracle import c09_popgen as O

PROPERTY = "C09"
NSHARDS = {"quick": 4, "thorough": 16}
CLAUSES = {
    "C09.returns": 150000,     # every summary call on a valid matrix returns (affirmative-result policy)
    "C09.definition": 60000,  # tacount/tafreq/acount/afreq/maf/meh/codings == definition on the raw calls
    "C09.boundary": 80000,    # [0,1]; exactly 0/1 iff count 0/all copies; afixed/apoly == integer definition; complement
    "C09.classes": 40000,     # gtcount: ploidy+1 classes, >= 0, column sums n, == definition; gtfreq == counts/n
    "C09.projection": 50000,  # phased matrix and its unphased projection give the same answers
    "C09.dtype": 150000,       # requested dtypes honoured with equal values
    "C09.history": 50000,      # live objects: after every in-place change every statistic == definition on the CURRENT raw calls
    "C09.derived": 25000,      # matrices returned by select/delete/insert/adjoin/concat/copy (+ in-place generic forms): class, ploidy, statistics
    "C09.aliasing": 150000,    # returned arrays share no memory with the object; overwriting them leaves calls, labels, statistics intact
    "C09.scale": 1500,         # large matrices (counts / products / product sums beyond 2**15, 2**16, 2**24, 2**31, 2**32): every statistic == definition, dtype, projection
    "C09.genotyping": 25000,   # every genotyping protocol x mask x invert: calls, labels, ploidy, statistics, masked phased == masked unphased
}
HOOKS_REQUIRED = [
    "repo-code",
    "locus fixed at 1 with (1/(ploidy*n))*(ploidy*n) != 1.0",
    "locus fixed at 0", "all-heterozygous locus", "singleton locus",
    "single taxon", "single marker", "non-contiguous raw calls", "ntaxa > 200", "square matrix (ntaxa == nvrnt)", "non-diploid", "fully fixed matrix",
    "subject via DenseUnphasedGenotyping", "subject DenseGenotypeMatrix built directly",
    "history step: in-place taxa removal", "history step: in-place taxa append",
    "history step: in-place variant removal", "history step: in-place variant append",
    "history step: in-place taxa reorder/sort/group", "history step: in-place variant reorder/sort/group",
    "history step: assignment through the mat setter", "history step: element assignment into mat",
    "history step: result object of select_*/delete_*", "history step: unchanged object queried again",
    "derive step: select", "derive step: delete", "derive step: insert", "derive step: adjoin", "derive step: concat",
    "derive step: copy", "derive step: inplace", "derive: insert behind the last position with a scalar index",
    "derive: unphased source with ploidy != 2", "derive: phased source with nphase != 2",
    "derive: source produced by a genotyping protocol",
    "gt: DenseUnphasedGenotyping, unmasked protocol",
    "gt: DenseMaskedUnphasedGenotyping, mask present, invert=False", "gt: DenseMaskedUnphasedGenotyping, mask present, invert=True",
    "gt: DenseMaskedPhasedGenotyping, mask present, invert=False", "gt: DenseMaskedPhasedGenotyping, mask present, invert=True",
    "gt: DenseMaskedUnphasedGenotyping, no mask on the matrix, invert=True", "gt: DenseMaskedPhasedGenotyping, no mask on the matrix, invert=True",
]
RULE = ("seeded class-based matrices: ploidy 2 (65 %) or 1/3/4/6; ntaxa from {1,2,3,7,49,98,103,107,161}, from the sizes "
        "<= 200 where (1/(ploidy*n))*(ploidy*n) != 1.0, from 1..6, from 1..200 and (2 %) from 201..1500; raw calls C-ordered, "
        "Fortran-ordered or a strided view; nvrnt 1..40 (square and cubic shapes "
        "forced in their own classes); per-locus patterns fixed-at-1, fixed-at-0, singleton, all-but-one, all-heterozygous, "
        "homozygotes-only, exactly-half, first-copy-only, random p; whole-matrix classes all-fixed-1/0/mixed, all-het, iid. "
        "Each matrix is examined as DensePhasedGenotypeMatrix and as its unphased projection (alternately built directly "
        "and through DenseUnphasedGenotyping.genotype); every statistic is called with the default dtype and one requested "
        "dtype (spelt as str / python type / numpy type / numpy.dtype). Non-trivial: any matrix other than "
        "1 taxon x 1 marker; distinct = digest of (ploidy, raw calls).  Histories (C09.history): a live phased / unphased "
        "(direct or via genotyping) object with unsorted labels gets a complete round of queries, then 3-7 steps drawn from "
        "remove_/append_/reorder_/sort_/group_ taxa and variants, assignment through the mat setter, element writes into "
        "obj.mat (locus fixed / lost, taxon row, single call), select_*/delete_*/copy/deepcopy result objects and plain "
        "re-queries; after every step all statistics (and codings) are queried again, a quarter of them first under a "
        "requested dtype, and judged against the oracle evaluated on the object's current mat.  Derived matrices "
        "(C09.derived): unphased sources of ploidy 1,2,3,4,6 and phased sources with 1-4 (6) copies, 1-24 (or 49) taxa, 1-10 loci, "
        "random subsets of the taxa and of all nine variant label fields; chains of 1-3 operations from select/delete/"
        "insert (position 0, inner, behind the last; scalar python/numpy index or index sequence; 1-3 rows; array or matrix "
        "object)/adjoin/concat (2-3 matrices, source first or second)/copy, deepcopy, copy.copy, copy.deepcopy/in-place "
        "generic remove, append, incorp and incorp_taxa/incorp_vrnt on a deep copy; taxa or variant axis, axis-specific or "
        "generic form with the axis counted from the front or from the end.  Genotyping (C09.genotyping): phased matrices "
        "(ploidy 1-4) with random label subsets, grouped or ungrouped variants, vrnt_mask absent or present (all-true, "
        "all-false, prefix, single true, single false, alternating, random) through DenseUnphasedGenotyping and "
        "Dense Masked Unphased/Phased Genotyping with invert False and True.  Aliasing (C09.aliasing): every array returned by "
        "any statistic / coding call of any family is tested with numpy.shares_memory against every array the object holds "
        "(raw calls, labels, group metadata, anything else in its __dict__); for 12 % of the fresh subjects and 7 % of the "
        "history/derived/genotyping states an overwrite phase calls every statistic with the default dtype, the stored dtype "
        "of the raw calls (int8) and one more requested dtype, and every coding, twice each, overwrites every element of "
        "every returned array, and then checks raw calls (against the monitor's own copy), labels and all statistics.  "
        "Large matrices (C09.scale, 24 cases per quick run, 192 thorough, size class fixed by the case number so that every run "
        "holds every class): 2400-6400 chromosome copies x as many loci (spread / all-at-1/2 / with fixed loci) as put the sum "
        "over loci of count*(copies-count) 8-50 % above 2**31 or above 2**32; ploidy*ntaxa just above 2**15; ntaxa just above "
        "2**15; ntaxa above 2**16 with one locus at frequency 1/2 (a single count*(copies-count) above 2**31, copies**2 above "
        "2**32); 2**15+ and 2**16+ loci x 1-30 taxa; more than 2**24 copies at one locus (count == copies or copies-1, once "
        "per 24 cases); ploidy 2 (60 %) or 1/3/4/6, one locus fixed at 1 in every many-taxa case, C or Fortran order; phased "
        "matrix and unphased projection (alternately direct / via DenseUnphasedGenotyping), every statistic with the default "
        "dtype and one requested dtype (int16/uint16/int32/uint32/float32 preferred for counts), codings for diploids.")
ASSUME = [
    "alleles are coded 0/1 per chromosome copy (phased) or 0..ploidy per taxon (unphased); other values are out of domain",
    "meh: (ploidy/m)*sum p(1-p) (2pq averaged over loci for diploids); for ploidy != 2 the gene-diversity reading "
    "(2/m)*sum p(1-p) is accepted as well",
    "codings {0,1,2}/{-1,0,1}/{-1,m,1} are only defined (and only asserted) for diploids; {-1,m,1} = {-1,0,1} with "
    "heterozygotes replaced by the locus mean of the {-1,0,1} coding",
    "exact 0/1 boundary is asserted for allele frequencies (afreq, tafreq per taxon, maf == 0) in the default float64 "
    "result; genotype-class frequencies are asserted to tolerance and [0,1] only (an exactly-1.0 class frequency is not "
    "stated by the property; deviations are counted in 'counters')",
    "a requested dtype that cannot represent the statistic (integer/bool for a frequency, bool for a count) is only "
    "asserted to be honoured (result dtype), not its values",
    "float comparison: |a-b| <= 1e-9 + 1e-12 (all quantities are O(1)); float32 requests: 2**-20",
    "large matrices: a requested count dtype that cannot hold the largest count exactly (integer type too narrow, float32 "
    "above 2**24) is a lossy request like integer-for-frequency: only dtype and shape are asserted; the reference counts of "
    "the large family are int64 numpy reductions (cannot wrap), cross-checked by a route that never adds the calls",
    "numpy integer summation / comparison used by the monitor's comparisons is trusted",
    "history clause: the raw calls are whatever the object's mat holds after the operation (the operations' own "
    "correctness is property C03); an operation that raises is counted under 'raised' and the (unchanged) object is "
    "judged again; a history stops when an operation leaves something that is not a valid genotype matrix; writing "
    "elements of obj.mat is treated as a legitimate way of changing the raw calls",
    "derived-matrix and genotyping clauses: an operation that raises is counted under 'raised' (its own correctness, i.e. "
    "which calls end up where, is property C03) except the genotyping protocols, which must return on a valid phased "
    "matrix; the variant set of a masked protocol is the one its docstring states (mask True; invert=True: mask False; no "
    "mask: all variants); requests selecting no variant are not run (no statistics are defined for zero loci)",
    "aliasing clause: a caller may overwrite any array a summary / coding method returns; numpy scalars (meh) are immutable "
    "and not tested; label arrays shared between a genotyping protocol's output and its phased input are the library's "
    "documented construction (labels are passed through) and are not part of this clause",
    "attribution: when an object's afreq() (resp. gtcount()) is itself reported in a case, statistics of the same object "
    "that are exactly what follows from the wrong value (afixed/apoly/maf/complement, resp. gtfreq), requested-dtype "
    "variants equal to the reported default answer, and phased-vs-unphased mismatches on an already reported statistic "
    "are counted under 'counters' instead of being keyed as separate findings; any other deviation is keyed on its own",
]
TOL = 1e-9 * 1.0 + 1e-12
TOL32 = 2.0 ** -20

NS_HOSTILE = [1, 2, 3, 7, 49, 98, 103, 107, 161]
PLOIDIES = [1, 3, 4, 6]
BADN = {P: [n for n in range(1, 201) if (1.0 / (P * n)) * (P * n) != 1.0] for P in [1, 2, 3, 4, 6]}

COUNT_DT = ["int16", "int32", "int64", int, "float32", "float64", float, "uint16", numpy.int32, numpy.dtype("int64"), "bool"]
FLAG_DT = ["bool", bool, "int8", "int64", int, "float32", "float64", "uint8", numpy.bool_, numpy.dtype("int8")]
FREQ_DT = ["float32", "float64", float, numpy.float32, numpy.dtype("float64"), "float32", "int64", int, "bool"]
KIND = {"tacount": "count", "acount": "count", "gtcount": "count", "afixed": "flag", "apoly": "flag",
        "tafreq": "freq", "afreq": "freq", "maf": "freq", "meh": "freq", "gtfreq": "freq"}
STATS = ["tacount", "tafreq", "acount", "afreq", "afixed", "apoly", "maf", "meh", "gtcount", "gtfreq"]
FORMATS = ["{0,1,2}", "{-1,0,1}", "{-1,m,1}"]


# ------------------------------------------------------------------ generator
def gen_locus(g, P, n, pat):
    """One locus: int8 array (P, n)."""
    N = P * n
    if pat == "fixed1":
        return numpy.ones((P, n), dtype="int8")
    if pat == "fixed0":
        return numpy.zeros((P, n), dtype="int8")
    if pat == "singleton" or pat == "allbutone":
        a = numpy.zeros(N, dtype="int8"); a[int(g.integers(N))] = 1
        if pat == "allbutone":
            a = 1 - a
        return a.reshape(P, n).astype("int8")
    if pat == "allhet":   # every taxon carries P//2 copies (a random 0/1 call for haploids)
        h = P // 2
        if h == 0:
            return g.integers(0, 2, (P, n)).astype("int8")
        rank = numpy.argsort(g.random((P, n)), axis=0)
        return (rank < h).astype("int8")
    if pat == "firstcopy":  # the whole signal sits on chromosome copy 0
        a = numpy.zeros((P, n), dtype="int8"); a[0, :] = 1
        return a
    if pat == "homonly":
        t = (g.random(n) < g.random()).astype("int8")
        return numpy.repeat(t[None, :], P, 0)
    if pat == "half":
        a = numpy.zeros(N, dtype="int8"); a[g.permutation(N)[: N // 2]] = 1
        return a.reshape(P, n)
    p = g.random() if g.random() < 0.8 else float(g.choice([0.02, 0.98, 0.5]))
    return (g.random((P, n)) < p).astype("int8")


PATS = ["fixed1", "fixed0", "singleton", "allbutone", "allhet", "firstcopy", "homonly", "half", "random"]
PATW = numpy.array([0.15, 0.11, 0.07, 0.08, 0.07, 0.05, 0.07, 0.06, 0.34])
MCLS = ["patterns", "square", "cube", "all-fixed-1", "all-fixed-0", "all-fixed-mixed", "all-het", "iid"]
MCLW = numpy.array([0.52, 0.13, 0.05, 0.07, 0.04, 0.06, 0.05, 0.08])


def gen_case(g, small=False):
    P = 2 if g.random() < 0.65 else int(g.choice(PLOIDIES))
    r = g.random()
    if small:   # start matrices of operation histories: hostile sizes kept, everything else small
        if r < 0.30:
            n = int(g.choice(NS_HOSTILE)); ncls = "n hostile list"
        elif r < 0.60:
            n = int(g.integers(1, 7)); ncls = "n tiny"
        else:
            n = int(g.integers(2, 41)); ncls = "n random"
    elif r < 0.40:
        n = int(g.choice(NS_HOSTILE)); ncls = "n hostile list"
    elif r < 0.58 and BADN[P]:
        n = int(g.choice(BADN[P])); ncls = "n with inexact reciprocal"
    elif r < 0.70:
        n = int(g.integers(1, 7)); ncls = "n tiny"
    elif r < 0.72:
        n = int(g.integers(201, 1501)); ncls = "n large (201..1500)"
    else:
        n = int(g.integers(1, 201)); ncls = "n random"
    m = 1 if g.random() < 0.08 else int(g.integers(1, 41))
    if n > 200:
        m = min(m, 8)
    if small:
        m = min(m, int(g.integers(1, 13)))
    mcls = MCLS[int(g.choice(len(MCLS), p=MCLW))]
    if mcls == "square":
        if n > 60:
            n = int(g.integers(1, 41))
        m = n
    elif mcls == "cube":
        n = m = P
    pats = []
    cols = []
    for j in range(m):
        if mcls in ("patterns", "square", "cube"):
            pat = PATS[int(g.choice(len(PATS), p=PATW))]
        elif mcls == "all-fixed-1":
            pat = "fixed1"
        elif mcls == "all-fixed-0":
            pat = "fixed0"
        elif mcls == "all-fixed-mixed":
            pat = "fixed1" if g.random() < 0.5 else "fixed0"
        elif mcls == "all-het":
            pat = "allhet" if g.random() < 0.7 else "firstcopy"
        else:
            pat = "random"
        pats.append(pat)
        cols.append(gen_locus(g, P, n, pat))
    mat = numpy.ascontiguousarray(numpy.stack(cols, axis=2).astype("int8"))
    lay = g.random()
    if lay < 0.08:      # hostile memory layouts: same values, Fortran order / strided view of a larger buffer
        mat = numpy.asfortranarray(mat); layout = "fortran"
    elif lay < 0.16:
        big = g.integers(0, 2, (P, 2 * n, 2 * m)).astype("int8"); big[:, ::2, ::2] = mat; mat = big[:, ::2, ::2]; layout = "strided view"
    else:
        layout = "C"
    meta = {}
    if g.random() < 0.5:
        meta["taxa"] = numpy.array(["t%03d" % i for i in g.permutation(n)], dtype=object)
        meta["taxa_grp"] = g.integers(0, 3, n).astype("int64")
    if g.random() < 0.3:
        meta["vrnt_chrgrp"] = numpy.sort(g.integers(1, 4, m)).astype("int64")
        meta["vrnt_phypos"] = numpy.arange(1, m + 1, dtype="int64") * 7
        meta["vrnt_name"] = numpy.array(["m%d" % j for j in range(m)], dtype=object)
    return P, n, m, mat, mcls, ncls, pats, meta, layout


# ------------------------------------------------------------------ helpers
def site_of(obj, meth):
    for k in type(obj).__mro__:
        if meth in k.__dict__:
            return "%s.%s" % (k.__name__, meth)
    return "%s.%s" % (type(obj).__name__, meth)


def is_pow2(v):
    return v & (v - 1) == 0


def fdiff(got, exp):
    """max |got-exp| (inf on shape mismatch / non-finite / non-numeric)."""
    try:
        a = numpy.asarray(got, dtype=float); b = numpy.asarray(exp, dtype=float)
    except Exception:
        return float("inf")
    if a.shape != b.shape:
        return float("inf")
    if a.size == 0:
        return 0.0
    e = numpy.abs(a - b)
    e = numpy.where(numpy.isfinite(e), e, numpy.inf)
    return float(e.max())


def exact(got, exp):
    """Exact equality of an ndarray with a nested Python list (shape and every value)."""
    if not isinstance(got, numpy.ndarray):
        return False
    try:
        return got.shape == numpy.shape(exp) and got.tolist() == exp
    except Exception:
        return False


def dtname(dt):
    k = numpy.dtype(dt).kind
    return {"f": "float dtype", "i": "integer dtype", "u": "integer dtype", "b": "bool dtype"}.get(k, "other dtype")


def dtspell(dt):
    return dt if isinstance(dt, str) else (repr(dt) if isinstance(dt, numpy.dtype) else getattr(dt, "__name__", repr(dt)))


class Subject:
    def __init__(self, kind, obj, raw):
        self.kind, self.obj, self.raw = kind, obj, raw
        self.res = {}          # default-dtype answers by statistic
        self.bad = set()       # statistics deviating from the definition in this case (reported or attributed)
        self.reported = set()  # ... of which keyed as a violation of their own
        self.clause = None     # history mode: every judgement is an evaluation of this clause ...
        self.icls = None       # ... keyed by this input class (the most recent change of the live object)
        self.failed_calls = set()   # methods that raised


def own_arrays(obj):
    """Every array the object itself holds: raw calls, label arrays, group metadata, and anything else it keeps (caches)."""
    try:
        return [(k, v) for k, v in vars(obj).items() if isinstance(v, numpy.ndarray)]
    except TypeError:
        return [("mat", obj.mat)]


def shares(a, b):
    return bool(numpy.may_share_memory(a, b) and numpy.shares_memory(a, b))


def check_alias(ctx, S, site, out, icls, W, coords):
    """C09.aliasing: an array handed to the caller must be the caller's own (no memory shared with the object)."""
    if not isinstance(out, numpy.ndarray):
        return True
    hit = [k for k, v in own_arrays(S.obj) if shares(out, v)]
    return ctx.check("C09.aliasing", not hit, site, "returned array shares no memory with the object's own arrays", icls,
                     what="%s (%s) returned an array that shares memory with the object's %s: a caller who edits the result "
                          "in place silently changes the object" % (site, icls, ", ".join(hit)),
                     witness=dict(W, subject=S.kind, shared_with=hit, returned_dtype=str(out.dtype)), coords=coords)


def clobber(a):
    """What a caller may do with a result: overwrite every element (0 -> 1, non-zero -> 0)."""
    if isinstance(a, numpy.ndarray) and a.size and a.flags.writeable:
        a[...] = (a == 0)
        return True
    return False


def matches_oracle(name, out, R):
    exp = {"tacount": R.d, "acount": R.c, "gtcount": R.gt, "afixed": R.fixed, "apoly": R.poly,
           "tafreq": R.tafreq, "afreq": R.p, "maf": R.maf, "meh": R.meh, "gtfreq": R.gtf}[name]
    if KIND[name] in ("count", "flag"):
        return exact(numpy.asarray(out), exp)
    e = fdiff(out, exp)
    if name == "meh" and R.P != 2:
        e = min(e, fdiff(out, R.meh_alt))
    return e <= TOL


def overwrite_phase(ctx, S, R, g, W, coords):
    """The caller overwrites every array the summary / coding methods return (default dtype, the stored dtype of the raw
    calls, one more requested dtype; two calls each).  The object must be unaffected: raw calls and labels as before
    (ground truth = the monitor's own copy of the calls, never obj.mat), a second call returns an independent array, and
    all statistics queried afterwards still equal the oracle on the original calls."""
    A = "C09.aliasing"
    obj, raw = S.obj, S.raw
    snap = {k: v.copy() for k, v in own_arrays(obj) if k != "_mat"}
    ctx.sumnote("overwrite phases (caller overwrites every returned array)")
    calls = []
    for name in STATS:
        pool = {"count": COUNT_DT, "flag": FLAG_DT, "freq": FREQ_DT}[KIND[name]]
        for dt in (None, raw.dtype, pool[int(g.integers(len(pool)))]):
            calls.append((name, () if dt is None else (dt,), "default dtype" if dt is None else "%s as %s" % (KIND[name], dtname(dt))))
    for fmt in (FORMATS if R.P == 2 else FORMATS[:1]):
        calls.append(("mat_asformat", (fmt,), "format " + fmt))
    for meth, args, icls in calls:
        site, a, ok = do_call(ctx, S, meth, args, {}, icls, W, coords)
        if not ok or not isinstance(a, numpy.ndarray):
            continue
        site, b, ok = do_call(ctx, S, meth, args, {}, icls, W, coords)
        if ok and isinstance(b, numpy.ndarray):
            ctx.check(A, not shares(a, b), site, "two calls return independent arrays", icls,
                      witness=dict(W, subject=S.kind, args=[dtspell(x) if not isinstance(x, str) else x for x in args]), coords=coords)
        wrote = clobber(a)
        wrote = clobber(b) or wrote
        if not wrote:
            ctx.sumnote("returned arrays that could not be overwritten (read-only or empty)")
            continue
        same = numpy.array_equal(obj.mat, raw)
        ctx.check(A, same, site, "overwriting the returned array leaves the object's raw calls unchanged", icls,
                  what="%s (%s): after the caller overwrote the returned array the object's raw calls differ from the calls it was "
                       "built from" % (site, icls), witness=dict(W, subject=S.kind, calls_now=obj.mat, original_calls=raw), coords=coords)
        if not same:
            obj.mat = raw.copy()
    now = dict(own_arrays(obj))
    badl = [k for k, v in snap.items() if k not in now or not same_labels(now[k], v)]
    ctx.check(A, not badl, "%s summary methods" % type(obj).__name__, "overwriting the returned arrays leaves the object's label arrays unchanged",
              "any dtype", witness=dict(W, subject=S.kind, changed=badl), coords=coords)
    for name in STATS:     # hidden state (e.g. a remembered answer handed out without a copy) shows here
        site, out, ok = do_call(ctx, S, name, (), {}, "default dtype", W, coords)
        if not ok or name in S.bad:
            continue
        ctx.check(A, matches_oracle(name, out, R), site, "== definition on the original calls after the caller overwrote every returned array",
                  "default dtype", witness=dict(W, subject=S.kind, got=out), coords=coords)


def do_call(ctx, S, meth, args, kwargs, icls, W, coords):
    """Affirmative-result policy: a summary call on a valid matrix must return."""
    site = site_of(S.obj, meth)
    ctx.ok("C09.returns")
    alias_icls = icls          # aliasing is a property of the method and the requested dtype/format, not of the object's past
    if S.icls is not None:
        icls = S.icls
    try:
        out = getattr(S.obj, meth)(*args, **kwargs)
    except Exception as e:
        S.failed_calls.add(meth)
        ctx.violation("C09.returns", site, "raised %s" % type(e).__name__, icls,
                      what="%s(%s) raised %s: %s" % (site, ", ".join([repr(a) for a in args] + ["%s=%r" % kv for kv in kwargs.items()]),
                                                      type(e).__name__, str(e)[:160]),
                      witness=dict(W, subject=S.kind), coords=coords)
        return site, None, False
    check_alias(ctx, S, site, out, alias_icls, W, coords)
    if not numpy.array_equal(S.obj.mat, S.raw):   # oracle validity: the raw calls must not be modified by a summary
        ctx.violation(S.clause or "C09.definition", site, "leaves the raw allele calls unchanged", icls, witness=dict(W, subject=S.kind), coords=coords)
        S.obj.mat = S.raw.copy()
    return site, out, True


# ------------------------------------------------------------------ per-statistic monitors (default dtype)
# Attribution rule (keeps one root cause = few finding keys, never hides anything):
#   S.bad = statistics of this object that deviate from the definition in this case.
#   * afixed / apoly / maf / the complement relation are derived from the allele frequency.  When the object's own
#     afreq() has *already been reported* in this case and the derived statistic is exactly what follows from that
#     (wrong) frequency vector, the deviation is counted under "counters" as a consequence and not keyed separately;
#     any other deviation is reported against the integer definition as usual.
#   * likewise gtfreq / requested-dtype results are judged against the object's own reported gtcount / default result.
#   * a phased-vs-unphased mismatch on a statistic for which one side is already in S.bad is the same finding.
def judge_default(ctx, S, name, site, out, R, iN, iP, W, coords):
    P, n, m, N = R.P, R.n, R.m, R.N
    w = dict(W, subject=S.kind, got=out)
    D, B, C = "C09.definition", "C09.boundary", "C09.classes"
    if S.clause is not None:
        D = B = C = S.clause
        iN = iP = S.icls

    def chk(clause, cond, rel, icls, **kw):
        ok = ctx.check(clause, cond, site, rel, icls, coords=coords, **kw)
        if not ok:
            S.bad.add(name); S.reported.add(name)
        return ok

    def consequence(cond_consistent_with_own_afreq):
        """True when afreq of this object is already reported and ``name`` merely follows from it."""
        if "afreq" in S.bad and cond_consistent_with_own_afreq:
            S.bad.add(name)
            ctx.sumnote("%s deviates only as a consequence of the reported afreq violation" % name)
            return True
        return False

    own_p = numpy.asarray(S.res["afreq"]) if ("afreq" in S.bad and "afreq" in S.res) else None
    if name == "tacount":
        chk(D, exact(out, R.d), "== per-taxon allele count", iP, witness=dict(w, expected=R.d))
    elif name == "acount":
        chk(D, exact(out, R.c), "== allele count", iN, witness=dict(w, expected=R.c))
    elif name == "tafreq":
        e = fdiff(out, R.tafreq); ctx.maxnote("tafreq |got-exact|", e if e < 1e-3 else 0.0)
        if chk(D, e <= TOL, "== per-taxon count / ploidy", iP, witness=dict(w, err=e)):
            a = numpy.asarray(out); d = numpy.array(R.d)
            chk(B, bool(numpy.all((a >= 0.0) & (a <= 1.0))), "in [0,1]", iP, witness=w)
            chk(B, numpy.array_equal(a == 0.0, d == 0), "== 0.0 iff taxon count == 0", iP, witness=w)
            chk(B, numpy.array_equal(a == 1.0, d == P), "== 1.0 iff taxon count == ploidy", iP, witness=w)
    elif name == "afreq":
        e = fdiff(out, R.p); ctx.maxnote("afreq |got-exact|", e if e < 1e-3 else 0.0)
        if chk(D, e <= TOL, "== count / (ploidy*n)", iN, witness=dict(w, err=e, expected=R.p)):
            a = numpy.asarray(out); c = numpy.array(R.c)
            w2 = dict(w, counts=R.c, copies=N)
            chk(B, bool(numpy.all((a >= 0.0) & (a <= 1.0))), "in [0,1]", iN, witness=w2)
            chk(B, numpy.array_equal(a == 0.0, c == 0), "== 0.0 iff count == 0", iN, witness=w2)
            chk(B, numpy.array_equal(a == 1.0, c == N), "== 1.0 iff count == ploidy*n", iN,
                what="%s: a locus where all %d chromosome copies carry allele 1 does not report frequency exactly 1.0 "
                     "(or a segregating one does) [ploidy=%d, ntaxa=%d]; afixed/apoly/maf of the same object follow the "
                     "wrong value (see counters)" % (site, N, P, n), witness=w2)
    elif name == "maf" and fdiff(out, R.maf) > TOL and consequence(
            own_p is not None and fdiff(out, numpy.minimum(own_p, 1.0 - own_p)) <= 1e-15):
        ctx.ok(D)
    elif name == "maf":
        e = fdiff(out, R.maf); ctx.maxnote("maf |got-exact|", e if e < 1e-3 else 0.0)
        if chk(D, e <= TOL, "== min(p, 1-p)", iN, witness=dict(w, err=e, expected=R.maf)):
            a = numpy.asarray(out); w2 = dict(w, counts=R.c, copies=N)
            chk(B, bool(numpy.all((a >= 0.0) & (a <= 0.5))), "in [0,0.5]", iN, witness=w2)
            ok0 = numpy.array_equal(a == 0.0, numpy.array(R.fixed))
            if ok0 or not consequence(own_p is not None and fdiff(a, numpy.minimum(own_p, 1.0 - own_p)) <= 1e-15):
                chk(B, ok0, "== 0.0 iff locus fixed", iN, witness=w2)
            else:
                ctx.ok(B)
    elif name == "meh" and fdiff(out, R.meh) > TOL and (P == 2 or fdiff(out, R.meh_alt) > TOL) and consequence(
            own_p is not None and own_p.ndim == 1 and own_p.size > 0 and numpy.ndim(out) == 0
            and abs(float(out) - P / m * float(numpy.sum(own_p * (1.0 - own_p)))) <= TOL * max(1.0, P)):
        ctx.ok(D)
    elif name == "meh":
        e = fdiff(out, R.meh)
        if P != 2:
            e = min(e, fdiff(out, R.meh_alt))
        ctx.maxnote("meh |got-exact|", e if e < 1e-3 else 0.0)
        chk(D, numpy.ndim(out) == 0 and e <= TOL, "== ploidy/m * sum p(1-p)", iN, witness=dict(w, err=e, expected=R.meh))
    elif name in ("afixed", "apoly"):
        exp = R.fixed if name == "afixed" else R.poly
        rel = "== (count == 0 or count == ploidy*n)" if name == "afixed" else "== (0 < count < ploidy*n)"
        ok0 = exact(out, exp)
        own = None
        if own_p is not None and not ok0:
            own = ((own_p == 0.0) | (own_p == 1.0)) if name == "afixed" else ((own_p > 0.0) & (own_p < 1.0))
        if ok0 or not consequence(own is not None and exact(out, own.tolist())):
            chk(B, ok0, rel, iN, witness=dict(w, expected=exp, counts=R.c, copies=N))
        else:
            ctx.ok(B)
    elif name == "gtcount":
        shp = isinstance(out, numpy.ndarray) and out.shape == (P + 1, m)
        chk(C, shp, "has ploidy+1 classes (rows) and one column per locus", iP,
            what="%s returned shape %s for ploidy %d, %d loci (expected %s)" % (site, getattr(out, "shape", None), P, m, (P + 1, m)),
            witness=dict(w, expected=R.gt))
        if shp:
            chk(C, bool(numpy.all(out >= 0)), "entries >= 0", iP, witness=w)
            chk(C, out.sum(0).tolist() == [n] * m, "class counts sum to ntaxa at every locus", iP, witness=w)
            chk(C, exact(out, R.gt), "== genotype class counts", iP, witness=dict(w, expected=R.gt))
    elif name == "gtfreq":
        own = S.res.get("gtcount")
        if "gtcount" in S.bad and own is not None:   # gtcount already reported: judge relative to the counts returned
            shp = isinstance(out, numpy.ndarray) and out.shape == numpy.shape(own)
            exp = numpy.asarray(own, dtype=float) / n
            S.bad.add("gtfreq")
            ctx.sumnote("gtfreq judged against the object's own (reported) gtcount")
            chk(C, shp, "same shape as gtcount", iP, witness=dict(w, gtcount=own))
        else:
            shp = isinstance(out, numpy.ndarray) and out.shape == (P + 1, m)
            exp = numpy.array(R.gtf)
            chk(C, shp, "has ploidy+1 classes (rows) and one column per locus", iP, witness=dict(w, expected=R.gtf))
        if shp:
            e = fdiff(out, exp)
            ctx.maxnote("gtfreq |got-exact|", e if e < 1e-3 else 0.0)
            if chk(C, e <= TOL, "== class count / ntaxa", iP, witness=dict(w, err=e)):
                a = numpy.asarray(out)
                chk(C, bool(numpy.all((a >= 0.0) & (a <= 1.0))), "in [0,1]", iP, witness=w)
                ctx.sumnote("gtfreq entries not exactly 0.0/1.0 where class count is 0/ntaxa (not demanded by the property)",
                            int(numpy.sum((a == 1.0) != (exp == 1.0)) + numpy.sum((a == 0.0) != (exp == 0.0))))


def judge_codings(ctx, S, R, iP, W, coords):
    if R.P != 2:
        return
    D = S.clause or "C09.definition"
    if S.icls is not None:
        iP = S.icls
    for fmt in FORMATS:
        site, out, ok = do_call(ctx, S, "mat_asformat", (fmt,), {}, "format " + fmt, W, coords)
        if not ok:
            continue
        name = "mat_asformat" + fmt
        S.res[name] = out
        w = dict(W, subject=S.kind, format=fmt, got=out)
        if fmt == "{0,1,2}":
            ok = ctx.check(D, exact(out, R.d), site, "{0,1,2} == per-taxon allele count", iP, witness=w, coords=coords)
        elif fmt == "{-1,0,1}":
            ok = ctx.check(D, exact(out, R.c101), site, "{-1,0,1} == per-taxon allele count - 1", iP, witness=w, coords=coords)
        else:
            e = fdiff(out, R.cm)
            ok = ctx.check(D, e <= TOL, site, "{-1,m,1} == homozygotes -1/+1, heterozygotes locus mean", iP,
                           witness=dict(w, err=e, expected=R.cm), coords=coords)
        if not ok:
            S.bad.add(name)


def judge_dtype(ctx, S, name, site, dt, out, R, W, coords):
    """Requested dtype honoured, with values equal to the default answer (itself judged against the definition)."""
    T = S.clause or "C09.dtype"
    kind = KIND[name]
    want = numpy.dtype(dt)
    icls = "%s as %s" % (kind, dtname(dt))
    if S.icls is not None:
        icls = S.icls
    w = dict(W, subject=S.kind, requested=dtspell(dt), got=out, got_dtype=str(getattr(out, "dtype", type(out).__name__)))
    got_dt = getattr(out, "dtype", None)
    ok = ctx.check(T, got_dt is not None and numpy.dtype(got_dt) == want, site, "result dtype == requested dtype", icls, witness=w, coords=coords)
    if not ok:
        return
    exp = {"tacount": R.d, "acount": R.c, "gtcount": R.gt, "afixed": R.fixed, "apoly": R.poly,
           "tafreq": R.tafreq, "afreq": R.p, "maf": R.maf, "meh": R.meh, "gtfreq": R.gtf}[name]
    ref = "definition"
    if name in S.bad and name in S.res:   # already reported/attributed: "equal values" = equal to the object's default answer
        exp = numpy.asarray(S.res[name]).tolist(); ref = "own default answer"
        ctx.sumnote("requested-dtype values judged against the object's own (reported) default answer")
    lossy = (kind == "freq" and want.kind != "f") or (kind == "count" and want.kind == "b")
    if lossy:
        ctx.sumnote("lossy dtype requests (only dtype and shape are asserted)")
        ctx.check(T, numpy.shape(out) == numpy.shape(exp), site, "shape unchanged by requested dtype", icls, witness=w, coords=coords)
        return
    if kind in ("count", "flag"):
        ctx.check(T, exact(numpy.asarray(out), numpy.array(exp).astype(want).tolist()), site, "values == %s under requested dtype" % ref, icls,
                  witness=dict(w, expected=exp), coords=coords)
    else:
        scale = max(1.0, float(numpy.max(numpy.abs(numpy.asarray(exp, dtype=float)))) if numpy.size(exp) else 1.0)
        if not scale < float("inf"):
            scale = 1.0
        tol = (TOL if want.itemsize >= 8 else TOL32) * scale
        e = fdiff(out, exp)
        if name == "meh" and R.P != 2 and ref == "definition":
            e = min(e, fdiff(out, R.meh_alt))
        ctx.check(T, e <= tol, site, "values == %s under requested dtype" % ref, icls, witness=dict(w, err=e, expected=exp), coords=coords)


def run_subject(ctx, S, R, g, iN, iP, W, coords, history=False):
    """Query every statistic of ``S.obj`` and judge it against ``R``.  Stateless mode: default dtype, then one requested
    dtype per statistic.  History mode: default dtype, for a quarter of the statistics preceded by a requested-dtype call."""
    BC = S.clause or "C09.boundary"
    if S.icls is not None:
        iN = iP = S.icls
    order = list(STATS)
    g.shuffle(order)
    order.sort(key=lambda s: 0 if s in ("afreq", "gtcount") else 1)   # roots before the statistics derived from them (stable)
    def requested():
        pool = {"count": COUNT_DT, "flag": FLAG_DT, "freq": FREQ_DT}[KIND[name]]
        dt = pool[int(g.integers(len(pool)))]
        if name == "tacount" and g.random() < 0.2:
            dt = "int8"
        poskw = g.random() < 0.5
        site, out2, ok2 = do_call(ctx, S, name, (dt,) if poskw else (), {} if poskw else {"dtype": dt},
                                  "%s as %s" % (KIND[name], dtname(dt)), dict(W, requested=dtspell(dt)), coords)
        return (site, dt, out2) if ok2 else None

    for name in order:
        # history mode: the requested-dtype call is *made* before the default call (an answer remembered under the wrong
        # dtype would show in the default answer) but judged after it, so that it can be attributed to a reported default
        pre = requested() if (history and g.random() < 0.25) else None
        site, out, ok = do_call(ctx, S, name, (), {}, "default dtype", W, coords)
        if ok:
            S.res[name] = out
            judge_default(ctx, S, name, site, out, R, iN, iP, W, coords)
        if not history:
            pre = requested()
        if pre is not None:
            judge_dtype(ctx, S, name, pre[0], pre[1], pre[2], R, W, coords)
    judge_codings(ctx, S, R, iP, W, coords)
    if g.random() < (0.07 if history else 0.12):
        overwrite_phase(ctx, S, R, g, W, coords)
    # fixation flag is the exact complement of the polymorphism flag (as returned)
    fx, po = S.res.get("afixed"), S.res.get("apoly")
    if fx is not None and po is not None:
        site = "%s~%s" % (site_of(S.obj, "afixed"), site_of(S.obj, "apoly"))
        try:
            comp = numpy.shape(fx) == numpy.shape(po) and bool(numpy.all(numpy.asarray(fx).astype(bool) == ~numpy.asarray(po).astype(bool)))
        except Exception:
            comp = False
        if not comp and "afreq" in S.bad and ("afixed" in S.bad or "apoly" in S.bad) and not (S.reported & {"afixed", "apoly"}):
            # both flags are either right or exactly what the reported afreq implies: same finding
            ctx.ok(BC)
            ctx.sumnote("afixed != not apoly only as a consequence of the reported afreq violation")
        else:
            ctx.check(BC, comp, site, "afixed == not apoly", iN,
                      witness=dict(W, subject=S.kind, afixed=fx, apoly=po, counts=R.c, copies=R.N), coords=coords)


FLOATS = {"tafreq", "afreq", "maf", "meh", "gtfreq", "mat_asformat{-1,m,1}"}


def judge_projection(ctx, SP, SU, R, iN, iP, W, coords):
    J = SP.clause or "C09.projection"
    for name in STATS + ["mat_asformat" + f for f in FORMATS]:
        if name not in SP.res or name not in SU.res:
            continue   # a raising side is already a C09.returns violation
        a, b = SP.res[name], SU.res[name]
        meth = name if not name.startswith("mat_asformat") else "mat_asformat"
        site = "%s~%s" % (site_of(SP.obj, meth), site_of(SU.obj, meth))
        icls = iN if name in ("acount", "afreq", "afixed", "apoly", "maf", "meh") else iP
        if name.startswith("mat_asformat"):
            icls = "format " + name[len("mat_asformat"):]
        if name in FLOATS:
            e = fdiff(a, b)
            ok = e <= TOL
            ctx.maxnote("projection |phased-unphased| (float statistics)", e if e < 1e-3 else 0.0)
        else:
            ok = numpy.shape(a) == numpy.shape(b) and numpy.array_equal(numpy.asarray(a), numpy.asarray(b))
        if not ok and (name in SP.bad or name in SU.bad):
            ctx.ok(J)   # evaluated; the deviating side is already reported against the definition (same finding)
            ctx.sumnote("phased/unphased mismatch on %s explained by an already reported deviation from the definition" % name)
            continue
        ctx.check(J, ok, site, "phased == unphased projection (%s)" % ("values to 1e-9" if name in FLOATS else "exact"), icls,
                  what="%s: phased matrix and its unphased projection disagree on %s" % (site, name),
                  witness=dict(W, phased=a, unphased=b, unphased_subject=SU.kind), coords=coords)


_REPO_CHECKED = [False]


def repo_code(ctx):
    if _REPO_CHECKED[0]:
        return
    _REPO_CHECKED[0] = True
    from pybrops.popgen.gmat.DensePhasedGenotypeMatrix import DensePhasedGenotypeMatrix
    from pybrops.popgen.gmat.DenseGenotypeMatrix import DenseGenotypeMatrix
    from pybrops.breed.prot.gt.DenseUnphasedGenotyping import DenseUnphasedGenotyping
    for k in (DensePhasedGenotypeMatrix, DenseGenotypeMatrix):
        for meth in STATS + ["mat_asformat"]:
            fn = getattr(k, meth)
            if boot.under_repo(fn):
                ctx.hook("repo-code")
            else:
                raise ImportError("%s.%s is not code of the repository working tree" % (k.__name__, meth))
    if not boot.under_repo(DenseUnphasedGenotyping.genotype):
        raise ImportError("DenseUnphasedGenotyping.genotype is not code of the repository working tree")


def one_case(ctx, c):
    from pybrops.popgen.gmat.DensePhasedGenotypeMatrix import DensePhasedGenotypeMatrix
    from pybrops.popgen.gmat.DenseGenotypeMatrix import DenseGenotypeMatrix
    from pybrops.breed.prot.gt.DenseUnphasedGenotyping import DenseUnphasedGenotyping
    repo_code(ctx)
    g = ctx.rng("mat", c)
    P, n, m, mat, mcls, ncls, pats, meta, layout = gen_case(g)
    N = P * n
    coords = [c, "mat"]
    R = O.reference(mat.tolist())
    iN = "ploidy*n a power of two" if is_pow2(N) else "ploidy*n not a power of two"
    iP = "diploid" if P == 2 else "non-diploid"
    ctx.case("ploidy %d/%s/%s" % (P, mcls, ncls), P, mat, trivial=(n == 1 and m == 1))
    W = {"ploidy": P, "ntaxa": n, "nvrnt": m, "matrix_class": mcls, "memory_layout": layout, "locus_patterns": pats, "mat[copy][taxon][locus]": mat}
    if c % 173 == 0:
        ctx.sample({"ploidy": P, "ntaxa": n, "nvrnt": m, "matrix_class": mcls, "memory_layout": layout, "n_class": ncls, "locus_patterns": pats,
                    "labels": sorted(meta), "allele_counts": R.c,
                    "first_taxa[copy][taxon][locus]": mat[:, :3, :].tolist()})
    # reach counters for the hostile classes the property names
    badN = (1.0 / N) * N != 1.0
    if badN and N in R.c:
        ctx.hook("locus fixed at 1 with (1/(ploidy*n))*(ploidy*n) != 1.0", R.c.count(N))
    if 0 in R.c:
        ctx.hook("locus fixed at 0", R.c.count(0))
    ctx.hook("all-heterozygous locus", sum(1 for p_ in pats if p_ in ("allhet", "firstcopy")) if P > 1 else 0)
    ctx.hook("singleton locus", R.c.count(1))
    for nm, cond in (("single taxon", n == 1), ("single marker", m == 1), ("square matrix (ntaxa == nvrnt)", n == m and n > 1),
                     ("non-diploid", P != 2), ("fully fixed matrix", all(R.fixed)), ("non-contiguous raw calls", layout != "C"),
                     ("ntaxa > 200", n > 200)):
        if cond:
            ctx.hook(nm)

    try:
        ph = DensePhasedGenotypeMatrix(mat if layout != "C" else mat.copy(), **{k: v.copy() for k, v in meta.items()})
    except Exception as e:
        ctx.raised("DensePhasedGenotypeMatrix.__init__", e)
        return
    dmat = mat.sum(0, dtype="int8")
    SP = Subject("DensePhasedGenotypeMatrix", ph, mat.copy())
    # unphased projection: alternately through the genotyping protocol and built directly
    un = None
    via = (c % 2 == 0)
    if via:
        site = "DenseUnphasedGenotyping.genotype"
        ctx.ok("C09.returns")
        try:
            un = DenseUnphasedGenotyping().genotype(ph)
        except Exception as e:
            ctx.violation("C09.returns", site, "raised %s" % type(e).__name__, iP,
                          what="%s raised %s: %s" % (site, type(e).__name__, str(e)[:160]), witness=W, coords=coords)
        if un is not None:
            good = ctx.check("C09.projection", isinstance(un, DenseGenotypeMatrix) and not isinstance(un, DensePhasedGenotypeMatrix)
                             and isinstance(un.mat, numpy.ndarray) and numpy.array_equal(un.mat, dmat) and un.mat.shape == dmat.shape,
                             site, "unphased calls == per-taxon sum over chromosome copies", iP,
                             witness=dict(W, got=getattr(un, "mat", None)), coords=coords)
            good &= ctx.check("C09.projection", getattr(un, "ploidy", None) == P, site, "ploidy preserved", iP,
                              witness=dict(W, got=getattr(un, "ploidy", None)), coords=coords)
            if good:
                ctx.hook("subject via DenseUnphasedGenotyping")
            else:
                un = None; via = False
    if un is None:
        try:
            dm = dmat.copy()
            if layout == "fortran":
                dm = numpy.asfortranarray(dm)
            elif layout == "strided view":
                bigd = numpy.zeros((2 * n, 2 * m), dtype="int8"); bigd[::2, ::2] = dmat; dm = bigd[::2, ::2]
            un = DenseGenotypeMatrix(dm, ploidy=P, **{k: v.copy() for k, v in meta.items()})
            ctx.hook("subject DenseGenotypeMatrix built directly")
        except Exception as e:
            ctx.raised("DenseGenotypeMatrix.__init__", e)
    run_subject(ctx, SP, R, g, iN, iP, W, coords)
    if un is not None:
        SU = Subject("DenseGenotypeMatrix via DenseUnphasedGenotyping" if via else "DenseGenotypeMatrix built directly", un, dmat.copy())
        run_subject(ctx, SU, R, g, iN, iP, W, coords)
        judge_projection(ctx, SP, SU, R, iN, iP, W, coords)


# ------------------------------------------------------------------ C09.history: statistics of a *live* object
# The statistics must describe the raw calls the object holds *now*.  A history interleaves complete rounds of queries
# with changes of the live object; after every step every statistic is judged against the oracle evaluated on the
# object's current ``mat`` (whatever the operation left there: the correctness of the operations themselves is C03's
# business, an operation that raises is counted under ``raised``).
H_FRESH = "fresh object, first round of queries"
H_REPEAT = "unchanged object queried again"
OPS = ["remove_taxa", "append_taxa", "remove_vrnt", "append_vrnt", "reorder_taxa", "reorder_vrnt", "sort_taxa", "sort_vrnt",
       "group_taxa", "group_vrnt", "mat_setter", "element_write", "derived_object", "copy_then_write", "requery"]
OPW = numpy.array([0.12, 0.10, 0.07, 0.07, 0.05, 0.05, 0.04, 0.05, 0.05, 0.07, 0.07, 0.12, 0.06, 0.04, 0.04])
H_TAXA = "after in-place change of the taxa axis (remove/append/reorder/sort/group)"
H_VRNT = "after in-place change of the variant axis (remove/append/reorder/sort/group)"
OP_ICLS = {
    "remove_taxa": H_TAXA, "append_taxa": H_TAXA, "reorder_taxa": H_TAXA, "sort_taxa": H_TAXA, "group_taxa": H_TAXA,
    "remove_vrnt": H_VRNT, "append_vrnt": H_VRNT, "reorder_vrnt": H_VRNT, "sort_vrnt": H_VRNT, "group_vrnt": H_VRNT,
    "mat_setter": "after assignment through the mat setter", "element_write": "after element assignment into mat",
}
OP_HOOK = {
    "remove_taxa": "in-place taxa removal", "append_taxa": "in-place taxa append",
    "remove_vrnt": "in-place variant removal", "append_vrnt": "in-place variant append",
    "reorder_taxa": "in-place taxa reorder/sort/group", "sort_taxa": "in-place taxa reorder/sort/group",
    "group_taxa": "in-place taxa reorder/sort/group",
    "reorder_vrnt": "in-place variant reorder/sort/group", "sort_vrnt": "in-place variant reorder/sort/group",
    "group_vrnt": "in-place variant reorder/sort/group",
    "mat_setter": "assignment through the mat setter", "element_write": "element assignment into mat",
    "derived_object": "result object of select_*/delete_*", "requery": "unchanged object queried again",
}


def gen_block(g, P, n, m, phased):
    """Raw calls for ``n`` taxa x ``m`` loci: (P,n,m) 0/1 for a phased object, (n,m) 0..P for an unphased one."""
    pats = [PATS[int(g.choice(len(PATS), p=PATW))] for _ in range(m)]
    x = numpy.ascontiguousarray(numpy.stack([gen_locus(g, P, n, pat) for pat in pats], axis=2).astype("int8"))
    return x if phased else x.sum(0, dtype="int8")


def raw_ok(obj, P, phased):
    """The live object still holds a valid genotype matrix (otherwise the history stops: not a C09 matter)."""
    x = getattr(obj, "mat", None)
    if not isinstance(x, numpy.ndarray) or x.dtype != numpy.dtype("int8") or x.ndim != (3 if phased else 2):
        return False
    if min(x.shape) < 1 or (phased and x.shape[0] != P) or obj.ploidy != P:
        return False
    return bool(x.min() >= 0 and x.max() <= (1 if phased else P))


class BufferCtx:
    """Counts evaluations in the real context at once, holds back violation records until ``flush`` decides."""

    def __init__(self, real):
        self.real = real
        self.held = []

    def __getattr__(self, name):          # ok / maxnote / sumnote / hook / raised / rng / ...
        return getattr(self.real, name)

    def check(self, clause, cond, site, rel, icls="any", what=None, witness=None, coords=None):
        self.real.ok(clause)
        if not cond:
            self.violation(clause, site, rel, icls, what, witness, coords)
        return bool(cond)

    def violation(self, clause, site, rel, icls="any", what=None, witness=None, coords=None):
        self.held.append((clause, site, rel, icls, what, witness, coords))


def judge_state(ctx, obj, kind, P, phased, label, g, W, trace, coords, clause="C09.history", fam="history"):
    """All statistics of the live object against the oracle on its current raw calls.  A deviation is a *history*
    finding only when a fresh object built from the same raw calls answers correctly (control run, made only when
    something deviated); what the fresh object gets wrong as well is reported by the stateless clauses under their keys."""
    raw = obj.mat.copy()
    R = O.reference(raw.tolist()) if phased else O.reference_unphased(raw.tolist(), P)
    S = Subject(kind, obj, raw)
    S.clause, S.icls = clause, label
    w = dict(W, history=list(trace), **{"current mat": raw})
    buf = BufferCtx(ctx)
    run_subject(buf, S, R, g, label, label, w, coords, history=True)
    ctx.sumnote("%s states judged" % fam)
    if buf.held:
        stateless_bad = set()
        try:
            fresh = type(obj)(raw.copy()) if phased else type(obj)(raw.copy(), ploidy=P)
            S2 = Subject("fresh %s with the same raw calls (control)" % type(obj).__name__, fresh, raw.copy())
            iN = "ploidy*n a power of two" if is_pow2(R.N) else "ploidy*n not a power of two"
            iP = "diploid" if P == 2 else "non-diploid"
            run_subject(ctx, S2, R, ctx.rng(fam + "-control", coords[0], len(trace)), iN, iP, w, coords)
            stateless_bad = S2.bad | S2.failed_calls
            ctx.sumnote("%s control runs on a fresh object" % fam)
        except Exception as e:
            ctx.raised(fam + ": control construction", e)
        for rec in buf.held:
            meth = rec[1].split("~")[0].split(".")[-1]
            if any(b == meth or b.startswith(meth + "{") for b in stateless_bad):
                ctx.sumnote("%s deviations also shown by a fresh object (reported by the stateless clauses)" % fam)
            elif meth == "gtfreq" and "gtcount" in S.reported:
                ctx.sumnote("gtfreq deviates only as a consequence of the reported (stale) gtcount")
            elif rec[0] != clause:      # a call that raised on the live object only
                ctx.violation(*rec[:4], what=rec[4], witness=rec[5], coords=rec[6])
            else:   # one key per statistic and kind of change; the specific relation that failed goes into the text
                ctx.violation(rec[0], rec[1], "== definition evaluated on the object's current raw calls", rec[3],
                              what="%s %s: answer does not describe the raw calls the object holds now (failed: %s); a fresh "
                                   "object with the same raw calls answers correctly" % (rec[1], rec[3], rec[2]),
                              witness=rec[5], coords=rec[6])
    return S


def sel_indices(g, n):
    """A non-empty proper selection of range(n) as int / slice / sorted index array (n >= 2)."""
    r = g.random()
    if r < 0.25:
        return int(g.integers(n))
    if r < 0.40:
        length = int(g.integers(1, n)); a = int(g.integers(0, n - length + 1))
        return slice(a, a + length)
    return numpy.sort(g.permutation(n)[: int(g.integers(1, n))])


def one_history(ctx, c):
    from pybrops.popgen.gmat.DensePhasedGenotypeMatrix import DensePhasedGenotypeMatrix
    from pybrops.popgen.gmat.DenseGenotypeMatrix import DenseGenotypeMatrix
    from pybrops.breed.prot.gt.DenseUnphasedGenotyping import DenseUnphasedGenotyping
    repo_code(ctx)
    g = ctx.rng("hist", c)
    P, n, m, mat, mcls, ncls, pats, _, layout = gen_case(g, small=True)
    coords = [c, "hist"]
    how = ["phased", "unphased built directly", "unphased via DenseUnphasedGenotyping"][c % 3]
    phased = how == "phased"
    # labels: unsorted on purpose, so that sort_* / group_* really permute the raw calls; sometimes absent
    meta = {}
    if g.random() < 0.85:
        meta["taxa"] = numpy.array(["t%03d" % i for i in g.permutation(n)], dtype=object)
        meta["taxa_grp"] = g.integers(0, 3, n).astype("int64")
    if g.random() < 0.85:
        meta["vrnt_chrgrp"] = g.integers(1, 4, m).astype("int64")
        meta["vrnt_phypos"] = g.permutation(m).astype("int64") * 7 + 1
        meta["vrnt_name"] = numpy.array(["m%d" % j for j in range(m)], dtype=object)
    try:
        ph = DensePhasedGenotypeMatrix(mat.copy(), **{k: v.copy() for k, v in meta.items()})
        if how == "phased":
            obj = ph
        elif how == "unphased built directly":
            obj = DenseGenotypeMatrix(mat.sum(0, dtype="int8"), ploidy=P, **{k: v.copy() for k, v in meta.items()})
        else:
            obj = DenseUnphasedGenotyping().genotype(ph)
            obj.mat = obj.mat.copy()
    except Exception as e:
        ctx.raised("history: construction", e)
        return
    kind = "%s (%s)" % (type(obj).__name__, how)
    nsteps = int(g.integers(3, 8))
    ctx.case("history/%s/ploidy %d/%s" % (how, P, ncls), P, mat, how, nsteps)
    W = {"ploidy": P, "start ntaxa": n, "start nvrnt": m, "subject": kind, "labels": sorted(meta)}
    if c % 97 == 0:
        ctx.sample({"family": "history", "subject": kind, "ploidy": P, "ntaxa": n, "nvrnt": m, "labels": sorted(meta), "steps": nsteps,
                    "start mat": mat[:, :3, :].tolist()})
    trace = []
    if not raw_ok(obj, P, phased):
        ctx.sumnote("history stopped: object does not hold a valid genotype matrix"); return
    judge_state(ctx, obj, kind, P, phased, H_FRESH, g, W, trace, coords)
    label = H_FRESH
    ta, va = obj.taxa_axis, obj.vrnt_axis
    for step in range(nsteps):
        op = OPS[int(g.choice(len(OPS), p=OPW))]
        n, m = obj.mat.shape[ta], obj.mat.shape[va]
        if (op == "remove_taxa" and n < 2) or (op == "remove_vrnt" and m < 2) or (op == "derived_object" and (n < 2 or m < 2)):
            op = "element_write"
        desc = op
        extra = []     # (object, kind, label) judged besides the live object
        try:
            if op == "remove_taxa":
                ix = sel_indices(g, n); desc = "remove_taxa(%s)" % (ix if not isinstance(ix, numpy.ndarray) else ix.tolist())
                obj.remove_taxa(ix)
            elif op == "remove_vrnt":
                ix = sel_indices(g, m); desc = "remove_vrnt(%s)" % (ix if not isinstance(ix, numpy.ndarray) else ix.tolist())
                obj.remove_vrnt(ix)
            elif op == "append_taxa":
                k = int(g.integers(1, 5)); blk = gen_block(g, P, k, m, phased)
                kw = {}
                if obj.taxa is not None:
                    kw["taxa"] = numpy.array(["a%d_%d" % (step, i) for i in range(k)], dtype=object)
                if obj.taxa_grp is not None:
                    kw["taxa_grp"] = g.integers(0, 4, k).astype("int64")
                desc = "append_taxa(%d taxa%s)" % (k, ", as matrix object" if g.random() < 0.3 else "")
                if desc.endswith("object)"):
                    other = (DensePhasedGenotypeMatrix(blk, **kw) if phased else DenseGenotypeMatrix(blk, ploidy=P, **kw))
                    obj.append_taxa(other)
                else:
                    obj.append_taxa(blk, **kw)
            elif op == "append_vrnt":
                k = int(g.integers(1, 4)); blk = gen_block(g, P, n, k, phased)
                kw = {}
                if obj.vrnt_chrgrp is not None:
                    kw["vrnt_chrgrp"] = g.integers(1, 4, k).astype("int64")
                if obj.vrnt_phypos is not None:
                    kw["vrnt_phypos"] = g.integers(1, 300, k).astype("int64")
                if obj.vrnt_name is not None:
                    kw["vrnt_name"] = numpy.array(["v%d_%d" % (step, i) for i in range(k)], dtype=object)
                desc = "append_vrnt(%d loci)" % k
                obj.append_vrnt(blk, **kw)
            elif op in ("reorder_taxa", "reorder_vrnt"):
                perm = g.permutation(n if op == "reorder_taxa" else m); desc = "%s(%s)" % (op, perm.tolist())
                getattr(obj, op)(perm)
            elif op in ("sort_taxa", "sort_vrnt", "group_taxa", "group_vrnt"):
                desc = op + "()"
                getattr(obj, op)()
            elif op == "mat_setter":
                new = gen_block(g, P, n, m, phased); desc = "obj.mat = <new calls of the same shape>"
                obj.mat = new
            elif op == "element_write":
                x = obj.mat
                if not x.flags.writeable:
                    obj.mat = x = x.copy()
                j = int(g.integers(m)); i = int(g.integers(n)); r = g.random()
                hi = 1 if phased else P
                col = (slice(None), slice(None), j) if phased else (slice(None), j)
                row = (slice(None), i, slice(None)) if phased else (i, slice(None))
                if r < 0.30:
                    x[col] = hi; desc = "obj.mat[locus %d] = %d (locus becomes fixed)" % (j, hi)
                elif r < 0.50:
                    x[col] = 0; desc = "obj.mat[locus %d] = 0 (allele lost)" % j
                elif r < 0.70:
                    v = int(g.integers(0, hi + 1)); x[row] = v; desc = "obj.mat[taxon %d] = %d" % (i, v)
                else:
                    cell = (int(g.integers(P)), i, j) if phased else (i, j)
                    v = int(x[cell]); nv = (1 - v) if phased else int((v + 1 + g.integers(0, hi)) % (hi + 1))
                    x[cell] = nv; desc = "obj.mat[%s] = %d (was %d)" % (cell, nv, v)
            elif op == "derived_object":
                which = ["select_taxa", "select_vrnt", "delete_taxa", "delete_vrnt"][int(g.integers(4))]
                size = n if which.endswith("taxa") else m
                ix = numpy.sort(g.permutation(size)[: int(g.integers(1, size))])
                desc = "%s(%s) -> new object" % (which, ix.tolist())
                extra.append((getattr(obj, which)(ix), "result object of " + which.split("_")[0] + "_*"))
            elif op == "copy_then_write":
                which = ["copy", "deepcopy"][int(g.integers(2))]
                twin = getattr(obj, which)()
                x = obj.mat
                if not x.flags.writeable:
                    obj.mat = x = x.copy()
                j = int(g.integers(m)); hi = 1 if phased else P
                x[(slice(None), slice(None), j) if phased else (slice(None), j)] = hi
                desc = "%s() -> new object; then obj.mat[locus %d] = %d on the original" % (which, j, hi)
                extra.append((twin, "result object of copy/deepcopy"))
                op = "element_write"
            else:
                desc = "no change"
        except Exception as e:
            ctx.raised("history: " + op, e)
            desc += " [raised %s]" % type(e).__name__
        ctx.hook("history step: " + OP_HOOK[op])
        trace.append(desc)
        if not raw_ok(obj, P, phased):
            ctx.sumnote("history stopped: operation left an invalid genotype matrix (not a C09 matter)")
            return
        if op in OP_ICLS and "[raised" not in desc:
            label = OP_ICLS[op]
        elif label == H_FRESH:
            label = H_REPEAT
        judge_state(ctx, obj, kind, P, phased, label, g, W, trace, coords)
        for o2, lab2 in extra:
            if raw_ok(o2, P, phased):
                judge_state(ctx, o2, "%s [%s]" % (type(o2).__name__, lab2), P, phased, lab2, g, W, trace, coords)


# ------------------------------------------------------------------ shared: fully labelled source objects
VFIELDS = ["vrnt_chrgrp", "vrnt_phypos", "vrnt_name", "vrnt_genpos", "vrnt_xoprob", "vrnt_hapgrp", "vrnt_hapalt", "vrnt_hapref", "vrnt_mask"]
TFIELDS = ["taxa", "taxa_grp"]


def gen_vlabels(g, m, tag="m", fields=VFIELDS):
    """Variant labels of length ``m`` for the named fields (values distinct per position, so restrictions are decidable)."""
    out = {}
    for f in fields:
        if f == "vrnt_chrgrp":
            out[f] = numpy.sort(g.integers(1, 4, m)).astype("int64")
        elif f == "vrnt_phypos":
            out[f] = (numpy.sort(g.permutation(10 * m + 5)[:m]) + 1).astype("int64")
        elif f == "vrnt_name":
            out[f] = numpy.array(["%s%d_%d" % (tag, j, int(g.integers(1000))) for j in range(m)], dtype=object)
        elif f == "vrnt_genpos":
            out[f] = numpy.cumsum(g.uniform(0.001, 0.3, m))
        elif f == "vrnt_xoprob":
            out[f] = g.uniform(0.0, 0.5, m)
        elif f == "vrnt_hapgrp":
            out[f] = g.integers(0, 5, m).astype("int64")
        elif f == "vrnt_hapalt":
            out[f] = numpy.array([["A", "C", "G", "T"][int(v)] for v in g.integers(0, 4, m)], dtype=object)
        elif f == "vrnt_hapref":
            out[f] = numpy.array([["A", "C", "G", "T"][int(v)] for v in g.integers(0, 4, m)], dtype=object)
        elif f == "vrnt_mask":
            out[f] = gen_mask(g, m)
    return out


def gen_mask(g, m):
    """Boolean variant masks, mostly asymmetric (a mirrored or complemented reading gives another variant set)."""
    r = g.random()
    if m == 1:
        return numpy.array([g.random() < 0.5])
    if r < 0.10:
        return numpy.ones(m, dtype=bool)
    if r < 0.18:
        return numpy.zeros(m, dtype=bool)
    if r < 0.33:
        k = int(g.integers(1, m)); a = numpy.zeros(m, dtype=bool); a[:k] = True; return a          # prefix
    if r < 0.43:
        a = numpy.zeros(m, dtype=bool); a[int(g.integers(m))] = True; return a                       # single genotyped variant
    if r < 0.53:
        a = numpy.ones(m, dtype=bool); a[int(g.integers(m))] = False; return a                       # single masked-out variant
    if r < 0.63:
        return (numpy.arange(m) % 2 == int(g.integers(2)))                                            # alternating
    return g.random(m) < g.uniform(0.2, 0.8)


def gen_tlabels(g, n, tag="t", fields=TFIELDS):
    out = {}
    if "taxa" in fields:
        out["taxa"] = numpy.array(["%s%03d_%d" % (tag, i, int(g.integers(1000))) for i in range(n)], dtype=object)
    if "taxa_grp" in fields:
        out["taxa_grp"] = g.integers(0, 3, n).astype("int64")
    return out


def make_obj(phased, P, calls, labels):
    from pybrops.popgen.gmat.DensePhasedGenotypeMatrix import DensePhasedGenotypeMatrix
    from pybrops.popgen.gmat.DenseGenotypeMatrix import DenseGenotypeMatrix
    kw = {k: (v.copy() if isinstance(v, numpy.ndarray) else v) for k, v in labels.items()}
    return DensePhasedGenotypeMatrix(calls.copy(), **kw) if phased else DenseGenotypeMatrix(calls.copy(), ploidy=P, **kw)


def same_labels(a, b):
    """Exact equality of two label arrays (None == None)."""
    if a is None or b is None:
        return a is None and b is None
    a = numpy.asarray(a); b = numpy.asarray(b)
    if a.shape != b.shape:
        return False
    if a.dtype.kind == "f" or b.dtype.kind == "f":
        return bool(numpy.array_equal(a.astype(float), b.astype(float)))
    return a.tolist() == b.tolist()


# ------------------------------------------------------------------ C09.derived: matrices made by the library's structural operations
# A matrix returned by select/delete/insert/adjoin/concat/copy (taxa and variant axes, axis-specific and generic forms,
# every insertion position) or left behind by the in-place generic forms must still be a genotype matrix of the source's
# class and ploidy, and its statistics must be the textbook values of the calls it holds.  Whether the operation put the
# right calls in the right place is property C03; an operation that raises is counted under 'raised'.
D_OPS = ["select", "delete", "insert", "adjoin", "concat", "copy", "inplace"]
D_OPW = numpy.array([0.13, 0.13, 0.30, 0.12, 0.12, 0.08, 0.12])


def index_forms(g, pos, size):
    """Spellings of one insertion position / of a selection."""
    r = g.random()
    if r < 0.45:
        return int(pos), "scalar index"
    if r < 0.60:
        return numpy.int64(pos), "scalar index"
    if r < 0.80:
        return [int(pos)], "index sequence"
    return numpy.array([pos], dtype="int64"), "index sequence"


def one_derive(ctx, c):
    import copy as _copy
    repo_code(ctx)
    g = ctx.rng("derive", c)
    phased = g.random() < 0.4
    P = int(g.choice([1, 2, 3, 4])) if g.random() < 0.8 else int(g.choice([2, 6]))
    r = g.random()
    n = int(g.choice([1, 2, 3, 7, 49])) if r < 0.35 else int(g.integers(1, 25))
    m = int(g.integers(1, 11))
    tf = [f for f in TFIELDS if g.random() < 0.7]
    vf = [f for f in VFIELDS if g.random() < 0.5]
    coords = [c, "derive"]
    calls = gen_block(g, P, n, m, phased)
    origin = "built directly"
    try:
        labels = dict(gen_tlabels(g, n, fields=tf), **gen_vlabels(g, m, fields=vf))
        if not phased and g.random() < 0.3:      # unphased source produced by one of the library's genotyping protocols
            from pybrops.breed.prot.gt.DenseUnphasedGenotyping import DenseUnphasedGenotyping
            from pybrops.breed.prot.gt.DenseMaskedUnphasedGenotyping import DenseMaskedUnphasedGenotyping
            ph = make_obj(True, P, gen_block(g, P, n, m, True), labels)
            mk = labels.get("vrnt_mask")
            if mk is not None and 0 < int(mk.sum()) < m and g.random() < 0.6:
                inv = bool(g.random() < 0.5)
                src = DenseMaskedUnphasedGenotyping(invert=inv).genotype(ph); origin = "DenseMaskedUnphasedGenotyping(invert=%s)" % inv
            else:
                src = DenseUnphasedGenotyping().genotype(ph); origin = "DenseUnphasedGenotyping"
            calls = src.mat.copy()
            ctx.hook("derive: source produced by a genotyping protocol")
        else:
            src = make_obj(phased, P, calls, labels)
        if g.random() < 0.25:
            for grp in ("group_taxa", "group_vrnt"):
                try:
                    getattr(src, grp)()
                except Exception:
                    pass
            origin += ", grouped"
        if not raw_ok(src, P, phased):
            ctx.sumnote("derive: source is not a valid genotype matrix (not run)")
            return
    except Exception as e:
        ctx.raised("derive: construction", e)
        return
    cname = type(src).__name__
    ctx.case("derive/%s/ploidy %d" % ("phased" if phased else "unphased", P), P, calls, phased)
    W = {"ploidy": P, "source class": cname, "source origin": origin, "source ntaxa": n, "source nvrnt": m, "labels": tf + vf}
    if c % 97 == 0:
        ctx.sample({"family": "derive", "origin": origin, "class": cname, "ploidy": P, "ntaxa": n, "nvrnt": m, "labels": tf + vf, "calls": calls.tolist()})
    trace = []
    if P != 2 and not phased:
        ctx.hook("derive: unphased source with ploidy != 2")
    if phased and P != 2:
        ctx.hook("derive: phased source with nphase != 2")
    for step in range(int(g.integers(1, 4))):
        n, m = src.ntaxa, src.nvrnt
        ta, va = src.taxa_axis, src.vrnt_axis
        op = D_OPS[int(g.choice(len(D_OPS), p=D_OPW))]
        onT = g.random() < 0.6                       # taxa axis or variant axis
        size = n if onT else m
        axn = "taxa" if onT else "vrnt"
        axis = (ta if onT else va)
        if g.random() < 0.3:
            axis = axis - src.mat.ndim               # the same axis counted from the end
        generic = g.random() < 0.4
        if op in ("select", "delete") and size < 2:
            op = "insert"

        def block(k):
            b = gen_block(g, P, k if onT else n, m if onT else k, phased)
            lab = gen_tlabels(g, k, tag="i%d" % step, fields=[f for f in TFIELDS if getattr(src, f) is not None]) if onT else \
                gen_vlabels(g, k, tag="i%d" % step, fields=[f for f in VFIELDS if getattr(src, f) is not None])
            return b, lab

        out = None; icls = op; meth = op; desc = op
        try:
            if op == "select":
                ix = numpy.sort(g.permutation(size)[: int(g.integers(1, size + 1))]) if g.random() < 0.7 else g.integers(0, size, int(g.integers(1, size + 2)))
                if g.random() < 0.2:
                    ix = ix - size                   # the same positions counted from the end
                meth = "select" if generic else "select_" + axn
                desc = "%s(%s%s)" % (meth, ix.tolist(), ", axis=%d" % axis if generic else "")
                out = src.select(ix, axis=axis) if generic else getattr(src, meth)(ix)
                icls = "result of select (%s axis)" % axn
            elif op == "delete":
                ix = sel_indices(g, size)
                if isinstance(ix, (int, numpy.ndarray)) and g.random() < 0.2:
                    ix = ix - size
                meth = "delete" if generic else "delete_" + axn
                desc = "%s(%s%s)" % (meth, ix.tolist() if isinstance(ix, numpy.ndarray) else ix, ", axis=%d" % axis if generic else "")
                out = src.delete(ix, axis=axis) if generic else getattr(src, meth)(ix)
                icls = "result of delete (%s axis)" % axn
            elif op == "insert":
                where = g.random()
                pos = 0 if where < 0.25 else (size if where < 0.60 else int(g.integers(0, size + 1)))
                pcls = "at position 0" if pos == 0 else ("behind the last position" if pos == size else "at an inner position")
                k = 1 if g.random() < 0.5 else int(g.integers(1, 4))
                ix, form = index_forms(g, pos, size)
                if form == "index sequence" and k > 1:
                    ix = [int(pos)] * k if isinstance(ix, list) else numpy.array([pos] * k, dtype="int64")
                b, lab = block(k)
                asobj = g.random() < 0.3
                vals = make_obj(phased, P, b, lab) if asobj else b
                meth = "insert" if generic else "insert_" + axn
                desc = "%s(%r, <%d %s%s>%s)" % (meth, ix if not isinstance(ix, numpy.ndarray) else ix.tolist(), k, axn,
                                                 " as matrix object" if asobj else "", ", axis=%d" % axis if generic else "")
                kw = {} if asobj else lab
                out = src.insert(ix, vals, axis=axis, **kw) if generic else getattr(src, meth)(ix, vals, **kw)
                icls = "result of insert %s, %s (%s axis)" % (pcls, form, axn)
                if pos == size and form == "scalar index":
                    ctx.hook("derive: insert behind the last position with a scalar index")
            elif op == "adjoin":
                k = int(g.integers(1, 4)); b, lab = block(k)
                asobj = g.random() < 0.3
                vals = make_obj(phased, P, b, lab) if asobj else b
                meth = "adjoin" if generic else "adjoin_" + axn
                desc = "%s(<%d %s%s>%s)" % (meth, k, axn, " as matrix object" if asobj else "", ", axis=%d" % axis if generic else "")
                kw = {} if asobj else lab
                out = src.adjoin(vals, axis=axis, **kw) if generic else getattr(src, meth)(vals, **kw)
                icls = "result of adjoin (%s axis)" % axn
            elif op == "concat":
                others = []
                for _ in range(int(g.integers(1, 3))):
                    b, lab = block(int(g.integers(1, 4)))
                    keep = {f: getattr(src, f) for f in (VFIELDS if onT else TFIELDS) if getattr(src, f) is not None}
                    others.append(make_obj(phased, P, b, dict(lab, **keep)))
                mats = [src] + others
                if g.random() < 0.3:
                    mats = others[:1] + [src] + others[1:]
                meth = "concat" if generic else "concat_" + axn
                desc = "%s(%d matrices%s)" % (meth, len(mats), ", axis=%d" % axis if generic else "")
                out = type(src).concat(mats, axis=axis) if generic else getattr(type(src), meth)(mats)
                icls = "result of concat (%s axis)" % axn
            elif op == "copy":
                how = ["copy()", "deepcopy()", "copy.copy", "copy.deepcopy"][int(g.integers(4))]
                meth = "__copy__" if how in ("copy()", "copy.copy") else "__deepcopy__"
                desc = how
                out = {"copy()": lambda: src.copy(), "deepcopy()": lambda: src.deepcopy(), "copy.copy": lambda: _copy.copy(src),
                       "copy.deepcopy": lambda: _copy.deepcopy(src)}[how]()
                icls = "result of copy/deepcopy"
            else:   # in-place forms not driven by the history family: generic remove/append/incorp and incorp_*
                live = src.deepcopy()
                which = ["remove", "append", "incorp", "incorp_axis"][int(g.integers(4))]
                if which == "remove" and size < 2:
                    which = "append"
                if which == "remove":
                    ix = sel_indices(g, size); meth = "remove"; desc = "remove(%s, axis=%d) in place" % (ix.tolist() if isinstance(ix, numpy.ndarray) else ix, axis)
                    live.remove(ix, axis=axis)
                elif which == "append":
                    b, lab = block(int(g.integers(1, 4))); meth = "append"; desc = "append(<block>, axis=%d) in place" % axis
                    live.append(b, axis=axis, **lab)
                else:
                    where = g.random()
                    pos = 0 if where < 0.25 else (size if where < 0.60 else int(g.integers(0, size + 1)))
                    k = 1 if g.random() < 0.5 else int(g.integers(1, 4))
                    ix, form = index_forms(g, pos, size)
                    if form == "index sequence" and k > 1:
                        ix = [int(pos)] * k if isinstance(ix, list) else numpy.array([pos] * k, dtype="int64")
                    b, lab = block(k)
                    if which == "incorp":
                        meth = "incorp"; desc = "incorp(%r, <%d %s>, axis=%d) in place" % (ix if not isinstance(ix, numpy.ndarray) else ix.tolist(), k, axn, axis)
                        live.incorp(ix, b, axis=axis, **lab)
                    else:
                        meth = "incorp_" + axn; desc = "%s(%r, <%d %s>) in place" % (meth, ix if not isinstance(ix, numpy.ndarray) else ix.tolist(), k, axn)
                        getattr(live, meth)(ix, b, **lab)
                out = live
                icls = "object after in-place generic remove/append/incorp (%s axis)" % axn
        except Exception as e:
            ctx.raised("derive: " + meth, e)
            trace.append(desc + " [raised %s]" % type(e).__name__)
            continue
        trace.append(desc)
        ctx.hook("derive step: " + op)
        site = site_of(src, meth)
        w = dict(W, history=list(trace), got_type=type(out).__name__, got_ploidy=getattr(out, "ploidy", None),
                 got_mat=getattr(out, "mat", None))
        D = "C09.derived"
        ok = ctx.check(D, type(out) is type(src), site, "result is a genotype matrix of the source's class", icls, witness=w, coords=coords)
        if ok:
            ok = ctx.check(D, getattr(out, "ploidy", None) == P and (not phased or out.nphase == P), site,
                           "derived matrix reports the source's ploidy", icls,
                           what="%s: %s of a %s with ploidy %d returned a matrix reporting ploidy %r (all its frequencies, meh and genotype "
                                "classes are then computed for the wrong ploidy)" % (site, desc, cname, P, getattr(out, "ploidy", None)),
                           witness=w, coords=coords)
        if not ok:
            break
        if not raw_ok(out, P, phased):
            ctx.sumnote("derive stopped: operation returned something that is not a valid genotype matrix (not a C09 matter)")
            break
        judge_state(ctx, out, "%s [%s]" % (cname, icls), P, phased, icls, g, W, trace, coords, clause=D, fam="derive")
        src = out


# ------------------------------------------------------------------ C09.genotyping: every genotyping protocol
# Dense[Masked][Un]phasedGenotyping with masks present/absent and invert False/True: the projection holds the calls,
# labels and ploidy of the phased matrix restricted to the documented variant set (mask True, with invert=True mask False,
# all variants when there is no mask); its statistics are the textbook values of those calls; the masked phased and masked
# unphased projections agree with each other.
def one_gt(ctx, c):
    from pybrops.popgen.gmat.DensePhasedGenotypeMatrix import DensePhasedGenotypeMatrix
    from pybrops.popgen.gmat.DenseGenotypeMatrix import DenseGenotypeMatrix
    from pybrops.breed.prot.gt.DenseUnphasedGenotyping import DenseUnphasedGenotyping
    from pybrops.breed.prot.gt.DenseMaskedUnphasedGenotyping import DenseMaskedUnphasedGenotyping
    from pybrops.breed.prot.gt.DenseMaskedPhasedGenotyping import DenseMaskedPhasedGenotyping
    repo_code(ctx)
    g = ctx.rng("gt", c)
    P = 2 if g.random() < 0.55 else int(g.choice([1, 3, 4]))
    r = g.random()
    n = int(g.choice([1, 2, 3, 7, 49])) if r < 0.35 else int(g.integers(1, 25))
    m = int(g.integers(1, 13))
    has_mask = g.random() < 0.8
    tf = [f for f in TFIELDS if g.random() < 0.7]
    vf = [f for f in VFIELDS[:-1] if g.random() < 0.6] + (["vrnt_mask"] if has_mask else [])
    calls = gen_block(g, P, n, m, True)
    labels = dict(gen_tlabels(g, n, fields=tf), **gen_vlabels(g, m, fields=vf))
    coords = [c, "gt"]
    try:
        ph = make_obj(True, P, calls, labels)
        grouped = False
        if "vrnt_chrgrp" in labels and g.random() < 0.5:
            ph.group_vrnt(); grouped = True
            calls = ph.mat.copy(); labels = {f: getattr(ph, f).copy() for f in labels}
    except Exception as e:
        ctx.raised("gt: construction", e)
        return
    mask = labels.get("vrnt_mask")
    ctx.case("gt/ploidy %d/%s" % (P, "mask" if has_mask else "no mask"), P, calls, mask if mask is not None else "nomask")
    W = {"ploidy": P, "ntaxa": n, "nvrnt": m, "labels": tf + vf, "vrnt_mask": mask, "variants grouped": grouped, "phased calls": calls}
    if c % 97 == 0:
        ctx.sample({"family": "gt", "ploidy": P, "ntaxa": n, "nvrnt": m, "labels": tf + vf, "vrnt_mask": None if mask is None else mask.tolist(),
                    "calls": calls.tolist()})
    G = "C09.genotyping"
    protos = [("DenseUnphasedGenotyping", lambda: DenseUnphasedGenotyping(), False, None)]
    for inv in (False, True):
        protos.append(("DenseMaskedUnphasedGenotyping", (lambda inv=inv: DenseMaskedUnphasedGenotyping(invert=inv)), False, inv))
        protos.append(("DenseMaskedPhasedGenotyping", (lambda inv=inv: DenseMaskedPhasedGenotyping(invert=inv)), True, inv))
    results = {}
    for pname, mk, out_phased, inv in protos:
        if inv is None or mask is None:
            keep = numpy.arange(m)
            icls = "unmasked protocol" if inv is None else "no mask on the matrix, invert=%s" % inv
        else:
            keep = numpy.array([j for j in range(m) if bool(mask[j]) != inv], dtype="int64")
            icls = "mask present, invert=%s" % inv
        site = pname + ".genotype"
        if keep.size == 0:
            ctx.sumnote("genotyping requests that select no variant (not run)")
            continue
        ctx.hook("gt: %s, %s" % (pname, icls))
        w = dict(W, protocol=pname, invert=inv, documented_variant_set=keep)
        ctx.ok(G)
        try:
            proto = mk()
            how = g.random()
            if inv is not None and how < 0.25:       # invert chosen through the property after construction
                proto = type(proto)(invert=not inv); proto.invert = inv
            elif how < 0.45:                          # a protocol object that has already genotyped another matrix
                m2 = int(g.integers(1, 9)); n2 = int(g.integers(1, 6))
                proto.genotype(make_obj(True, P, gen_block(g, P, n2, m2, True), gen_vlabels(g, m2, fields=["vrnt_mask"])))
            out = proto.genotype(ph)
        except Exception as e:
            ctx.violation(G, site, "raised %s" % type(e).__name__, icls, what="%s (%s) raised %s: %s" % (site, icls, type(e).__name__, str(e)[:160]),
                          witness=w, coords=coords)
            continue
        ok = ctx.check(G, numpy.array_equal(ph.mat, calls) and all(same_labels(getattr(ph, f), labels[f]) for f in labels), site,
                       "leaves the phased matrix unchanged", icls, witness=w, coords=coords)
        want_t = DensePhasedGenotypeMatrix if out_phased else DenseGenotypeMatrix
        exp = calls[:, :, keep] if out_phased else calls[:, :, keep].sum(0, dtype="int8")
        w = dict(w, got_mat=getattr(out, "mat", None), expected_mat=exp)
        ok = ctx.check(G, type(out) is want_t, site, "result class", icls, witness=dict(w, got=type(out).__name__), coords=coords)
        if not ok:
            continue
        ok = ctx.check(G, out.ploidy == P, site, "ploidy preserved", icls, witness=dict(w, got=out.ploidy), coords=coords)
        ok &= ctx.check(G, isinstance(out.mat, numpy.ndarray) and out.mat.shape == exp.shape and numpy.array_equal(out.mat, exp), site,
                        "calls == phased calls restricted to the documented variant set" + ("" if out_phased else ", summed over copies"), icls,
                        what="%s (%s): the projection does not hold the calls of the documented variant set %s" % (site, icls, keep.tolist()),
                        witness=w, coords=coords)
        badf = [f for f in TFIELDS if not same_labels(getattr(out, f), labels.get(f))]
        badf += [f for f in VFIELDS if not same_labels(getattr(out, f), labels[f][keep] if f in labels else None)]
        ok &= ctx.check(G, not badf, site, "labels == phased labels restricted to the documented variant set", icls,
                        witness=dict(w, fields=badf, got={f: getattr(out, f) for f in badf}), coords=coords)
        # variant group metadata, when present, must describe the projection's own vrnt_chrgrp
        if getattr(out, "vrnt_chrgrp_name", None) is not None and out.vrnt_chrgrp is not None:
            cg = numpy.asarray(out.vrnt_chrgrp)
            try:
                names = numpy.asarray(out.vrnt_chrgrp_name).tolist(); st = numpy.asarray(out.vrnt_chrgrp_stix).tolist()
                sp = numpy.asarray(out.vrnt_chrgrp_spix).tolist(); ln = numpy.asarray(out.vrnt_chrgrp_len).tolist()
                good = sorted(names) == sorted(set(cg.tolist())) and all(
                    b - a == l and l > 0 and cg[a:b].tolist() == [nm] * l for nm, a, b, l in zip(names, st, sp, ln)) and sum(ln) == cg.size
            except Exception:
                good = False
            ctx.check(G, good, site, "variant group metadata describes the projection's own vrnt_chrgrp", icls,
                      witness=dict(w, vrnt_chrgrp=cg, name=out.vrnt_chrgrp_name, stix=out.vrnt_chrgrp_stix, spix=out.vrnt_chrgrp_spix,
                                   len=out.vrnt_chrgrp_len), coords=coords)
        if not ok or not raw_ok(out, P, out_phased):
            continue
        S = judge_state(ctx, out, "%s result (%s)" % (pname, icls), P, out_phased, icls, g, W, ["%s(invert=%s).genotype(phased)" % (pname, inv)],
                        coords, clause=G, fam="genotyping")
        results[(out_phased, inv)] = (S, site, icls)
    # masked phased vs masked unphased (same invert): identical answers
    for inv in (False, True):
        if (True, inv) in results and (False, inv) in results:
            SP, _, icls = results[(True, inv)]; SU, _, _ = results[(False, inv)]
            judge_projection(ctx, SP, SU, None, icls, icls, dict(W, invert=inv), coords)


# ------------------------------------------------------------------ C09.scale: large matrices
# The definitions hold "for matrices of any number of taxa, any number of markers".  Counts, products of counts and
# their sums over loci silently wrap when an implementation accumulates them in a narrow type; none of this shows below
# a few hundred taxa x a few dozen loci.  A small number of dedicated cases per run is sized so that the quantities an
# implementation may form cross 2**15 / 2**16 (16-bit counts), 2**24 (float32 integers), 2**31 / 2**32 (32-bit products
# and product sums):
#   "taxa x loci"  : 2400-6400 chromosome copies x hundreds to thousands of loci - sum over loci of c*(N-c) just above 2**31 or 2**32
#   "taxa 2**15"   : ploidy*ntaxa just above 2**15, 1-6 loci      "taxa 2**16": ntaxa itself just above 2**15 .. 2**16
#   "taxa product" : ntaxa > 2**16 and a single c*(N-c) above 2**31 (a locus at frequency 1/2), N**2 > 2**32
#   "loci"         : 2**15 .. 2**16+ loci x 1-30 taxa (locus indices / sums over loci of small terms)
#   "copies 2**24" : more than 2**24 chromosome copies at one locus (count == copies or copies - 1)
# Every statistic (default dtype and one requested dtype, narrow ones preferred) of the phased matrix and of its unphased
# projection is judged against oracle.LargeRef (int64 counts cross-checked by a second route, then exact integers).
L_CLASSES = ["taxa x loci, product sum above 2**31", "taxa x loci, product sum above 2**32", "copies above 2**15", "ntaxa above 2**15",
             "ntaxa above 2**16, one product above 2**31", "loci above 2**15", "loci above 2**16", "copies above 2**24"]
L_SCHEDULE = [0, 1, 2, 4, 5, 3, 1, 0, 6, 4, 7, 1,      # class of case c = L_SCHEDULE[c % 24]; every class in every run of >= 24
              0, 1, 2, 4, 5, 3, 1, 0, 6, 4, 2, 1]      # cases; the 2**24 class (tens of MB per array) once per 24 cases
L_COUNT_DT = ["int16", "uint16", "int32", "uint32", "float32", "int64", int, numpy.int32, "float64", "bool"]
L_HOOKS = [
    "large: sum over loci of count*(copies-count) >= 2**31", "large: sum over loci of count*(copies-count) >= 2**32",
    "large: one locus with count*(copies-count) >= 2**31", "large: copies**2 >= 2**32",
    "large: an allele count > 2**15", "large: an allele count > 2**16", "large: a genotype class count > 2**15",
    "large: ntaxa > 2**16", "large: nvrnt > 2**15", "large: nvrnt > 2**16", "large: an allele count > 2**24",
    "large: locus fixed at 1 with copies > 2**15", "large: non-diploid", "large: unphased subject via DenseUnphasedGenotyping",
    "large: unphased subject built directly",
]
HOOKS_REQUIRED += L_HOOKS


def gen_large(g, cls):
    """Phased int8 calls (P, n, m) of one size class; generated column-wise from float32 uniforms (memory)."""
    P = 2 if g.random() < 0.6 else int(g.choice([1, 3, 4, 6]))
    pats = None
    if cls in (0, 1):
        if P > 4:
            P = 4
        n = int(g.integers(2400, 6401)) // P; N = P * n          # 2400-6400 chromosome copies
        target = (2 ** 31 if cls == 0 else 2 ** 32) * float(g.uniform(1.08, 1.5))
        style = ["spread", "half", "mixed"][int(g.integers(3))]
        per = {"spread": 0.18, "half": 0.2495, "mixed": 0.15}[style] * N * N     # expected c*(N-c) per locus (slightly low)
        m = int(target / per) + 1
        if style == "spread":
            f = g.uniform(0.05, 0.95, m)
        elif style == "half":
            f = numpy.full(m, 0.5)
        else:
            f = g.uniform(0.05, 0.95, m); f[g.random(m) < 0.08] = 1.0; f[g.random(m) < 0.08] = 0.0
        mat = (g.random((P, n, m), dtype=numpy.float32) < f.astype(numpy.float32)).astype("int8")
        return P, n, m, mat, style
    if cls in (2, 3, 4, 7):
        if cls == 2:
            n = (2 ** 15) // P + int(g.integers(1, 3000))
        elif cls == 3:
            n = 2 ** 15 + int(g.integers(1, 8000))
        elif cls == 4:
            n = 2 ** 16 + int(g.integers(2, 12000))
        else:
            P = 2 if g.random() < 0.7 else 4
            n = (2 ** 24) // P + int(g.integers(1, 40000))
        m = 1 if cls == 7 else int(g.integers(2, 7))
        pats = [["half", "random", "fixed1", "fixed0", "singleton", "allbutone", "allhet", "homonly"][int(g.choice(8, p=[0.22, 0.22, 0.16, 0.08, 0.08, 0.08, 0.08, 0.08]))]
                for _ in range(m)]
        if cls == 7:      # a count above 2**24 (odd counts are not float32 numbers there)
            pats[0] = ["fixed1", "allbutone"][int(g.integers(2))]
        else:             # one fixed locus (count == copies, one genotype class holds every taxon); class 4: one locus at 1/2
            two = g.permutation(m)[:2]
            pats[int(two[0])] = "fixed1"
            if cls == 4:
                pats[int(two[1])] = "half"
        mat = numpy.empty((P, n, m), dtype="int8")
        for j, pat in enumerate(pats):
            if pat == "random":
                mat[:, :, j] = g.random((P, n), dtype=numpy.float32) < numpy.float32(g.uniform(0.3, 0.7))
            elif pat == "half":
                a = numpy.zeros(P * n, dtype="int8"); a[: (P * n) // 2] = 1; g.shuffle(a); mat[:, :, j] = a.reshape(P, n)
            elif pat == "allhet":
                mat[:, :, j] = 0; mat[: max(P // 2, 1), :, j] = 1
            elif pat == "homonly":
                mat[:, :, j] = (g.random(n, dtype=numpy.float32) < numpy.float32(0.5))[None, :]
            else:
                mat[:, :, j] = gen_locus(g, P, n, pat)
        return P, n, m, mat, ",".join(pats)
    # many loci, few taxa
    m = (2 ** 15 if cls == 5 else 2 ** 16) + int(g.integers(1, 5000))
    n = int(g.integers(1, 31))
    f = g.random(m); f[g.random(m) < 0.1] = 1.0; f[g.random(m) < 0.1] = 0.0
    mat = (g.random((P, n, m), dtype=numpy.float32) < f.astype(numpy.float32)).astype("int8")
    return P, n, m, mat, "random with fixed loci"


def representable(kind, want, exp):
    """Can ``want`` hold the statistic exactly?  (otherwise only dtype and shape are asserted, as for every lossy request)"""
    if kind == "freq":
        return want.kind == "f"
    if want.kind == "b":
        return kind == "flag"
    if kind == "flag":
        return True
    top = int(numpy.max(exp)) if numpy.size(exp) else 0
    if want.kind in "iu":
        return top <= numpy.iinfo(want).max
    return top <= 2 ** (numpy.finfo(want).nmant + 1)


def judge_large(ctx, S, L, g, W, coords):
    """Every statistic of one large subject against oracle.LargeRef (numpy comparisons; same relations as judge_default)."""
    X, icls = "C09.scale", S.icls
    P, n, m, N = L.P, L.n, L.m, L.N

    def chk(name, cond, site, rel, **wit):
        ok = ctx.check(X, bool(cond), site, rel, icls, witness=dict(W, subject=S.kind, **wit), coords=coords)
        if not ok:
            S.bad.add(name); S.reported.add(name)
        return ok

    def same_int(out, exp):
        return isinstance(out, numpy.ndarray) and out.shape == exp.shape and out.dtype.kind in "iub" and numpy.array_equal(out, exp)

    def follows(name, out):
        """``name`` deviates, the object's afreq is already reported, and ``out`` is exactly what follows from that afreq."""
        if "afreq" not in S.reported or not isinstance(S.res.get("afreq"), numpy.ndarray):
            return False
        p = S.res["afreq"]
        try:
            if name == "maf":
                good = fdiff(out, numpy.minimum(p, 1.0 - p)) <= 1e-15
            elif name == "afixed":
                good = same_int(out, (p == 0.0) | (p == 1.0))
            elif name == "apoly":
                good = same_int(out, (p > 0.0) & (p < 1.0))
            else:
                good = numpy.ndim(out) == 0 and abs(float(out) - P / m * float(numpy.sum(p * (1.0 - p)))) <= TOL * max(1.0, P)
        except Exception:
            good = False
        if good:
            S.bad.add(name); ctx.ok(X)
            ctx.sumnote("%s deviates only as a consequence of the reported afreq violation" % name)
        return good

    order = list(STATS)
    g.shuffle(order)
    order.sort(key=lambda s: 0 if s in ("afreq", "gtcount") else 1)
    for name in order:
        kind = KIND[name]
        exp = L.expected(name)
        site, out, ok = do_call(ctx, S, name, (), {}, "default dtype", W, coords)
        if ok:
            S.res[name] = out
            if kind == "count":
                good = chk(name, same_int(out, exp), site, {"tacount": "== per-taxon allele count", "acount": "== allele count",
                                                            "gtcount": "== genotype class counts (ploidy+1 classes, column sums ntaxa)"}[name],
                           got=out, expected=exp)
            elif kind == "flag":
                if not (same_int(out, exp) or follows(name, out)):
                    chk(name, False, site, "== (count == 0 or count == ploidy*n)" if name == "afixed" else "== (0 < count < ploidy*n)",
                        got=out, expected=exp, counts=L.c_np, copies=N)
                else:
                    ctx.ok(X)
            else:
                e = fdiff(out, exp)
                if name == "meh":
                    if P != 2:
                        e = min(e, fdiff(out, L.meh_alt))
                    if numpy.ndim(out) != 0:
                        e = float("inf")
                ctx.maxnote("large: %s |got-exact|" % name, e if e < 1e-3 else 0.0)
                if e > TOL and name in ("maf", "meh") and follows(name, out):
                    pass
                elif chk(name, e <= TOL, site, {"tafreq": "== per-taxon count / ploidy", "afreq": "== count / (ploidy*n)", "maf": "== min(p, 1-p)",
                                               "meh": "== ploidy/m * sum p(1-p)", "gtfreq": "== class count / ntaxa"}[name],
                         got=out, expected=exp, err=e, sum_of_count_times_copies_minus_count=L.S if name == "meh" else None):
                    a = numpy.asarray(out)
                    if name != "meh":
                        chk(name, numpy.all((a >= 0.0) & (a <= (0.5 if name == "maf" else 1.0))), site, "in [0,0.5]" if name == "maf" else "in [0,1]", got=out)
                    if name == "afreq":
                        chk(name, numpy.array_equal(a == 0.0, L.c_np == 0), site, "== 0.0 iff count == 0", got=out, counts=L.c_np, copies=N)
                        chk(name, numpy.array_equal(a == 1.0, L.c_np == N), site, "== 1.0 iff count == ploidy*n", got=out, counts=L.c_np, copies=N)
                    elif name == "tafreq":
                        chk(name, numpy.array_equal(a == 0.0, L.d == 0) and numpy.array_equal(a == 1.0, L.d == P), site,
                            "== 0.0 / 1.0 iff taxon count == 0 / ploidy", got=out)
                    elif name == "maf":
                        chk(name, numpy.array_equal(a == 0.0, L.fixed), site, "== 0.0 iff locus fixed", got=out, counts=L.c_np, copies=N)
        # one requested dtype, narrow types preferred for counts
        pool = {"count": L_COUNT_DT, "flag": FLAG_DT, "freq": FREQ_DT}[kind]
        dt = pool[int(g.integers(len(pool)))]
        want = numpy.dtype(dt)
        poskw = g.random() < 0.5
        site, out2, ok2 = do_call(ctx, S, name, (dt,) if poskw else (), {} if poskw else {"dtype": dt},
                                  "%s as %s" % (kind, dtname(dt)), dict(W, requested=dtspell(dt)), coords)
        if not ok2:
            continue
        w2 = dict(requested=dtspell(dt), got=out2, got_dtype=str(getattr(out2, "dtype", type(out2).__name__)))
        got_dt = getattr(out2, "dtype", None)
        if not ctx.check(X, got_dt is not None and numpy.dtype(got_dt) == want, site, "result dtype == requested dtype", icls,
                         witness=dict(W, subject=S.kind, **w2), coords=coords):
            continue
        ref = "definition"
        if name in S.bad and name in S.res:
            exp = numpy.asarray(S.res[name]); ref = "own default answer"
            ctx.sumnote("requested-dtype values judged against the object's own (reported) default answer")
        if not representable(kind, want, exp):
            ctx.sumnote("lossy dtype requests (only dtype and shape are asserted)")
            ctx.check(X, numpy.shape(out2) == numpy.shape(exp), site, "shape unchanged by requested dtype", icls,
                      witness=dict(W, subject=S.kind, **w2), coords=coords)
        elif kind in ("count", "flag"):
            ctx.check(X, numpy.shape(out2) == numpy.shape(exp) and numpy.array_equal(out2, numpy.asarray(exp).astype(want)), site,
                      "values == %s under requested dtype" % ref, icls, witness=dict(W, subject=S.kind, expected=exp, **w2), coords=coords)
        else:
            e = fdiff(out2, exp)
            if name == "meh" and P != 2 and ref == "definition":
                e = min(e, fdiff(out2, L.meh_alt))
            ctx.check(X, e <= (TOL if want.itemsize >= 8 else TOL32), site, "values == %s under requested dtype" % ref, icls,
                      witness=dict(W, subject=S.kind, expected=exp, err=e, **w2), coords=coords)
    if P == 2:
        for fmt in FORMATS:
            site, out, ok = do_call(ctx, S, "mat_asformat", (fmt,), {}, "format " + fmt, W, coords)
            if not ok:
                continue
            key = "mat_asformat" + fmt
            S.res[key] = out
            if fmt == "{0,1,2}":
                good = chk(key, same_int(out, L.d), site, "{0,1,2} == per-taxon allele count", format=fmt, got=out)
            elif fmt == "{-1,0,1}":
                good = chk(key, same_int(out, L.c101()), site, "{-1,0,1} == per-taxon allele count - 1", format=fmt, got=out)
            else:
                e = fdiff(out, L.cm())
                good = chk(key, e <= TOL, site, "{-1,m,1} == homozygotes -1/+1, heterozygotes locus mean", format=fmt, got=out, err=e)
    fx, po = S.res.get("afixed"), S.res.get("apoly")
    if fx is not None and po is not None:
        site = "%s~%s" % (site_of(S.obj, "afixed"), site_of(S.obj, "apoly"))
        try:
            comp = numpy.shape(fx) == numpy.shape(po) and bool(numpy.all(numpy.asarray(fx).astype(bool) == ~numpy.asarray(po).astype(bool)))
        except Exception:
            comp = False
        if not comp and "afreq" in S.bad and not (S.reported & {"afixed", "apoly"}):
            ctx.ok(X)
        else:
            ctx.check(X, comp, site, "afixed == not apoly", icls, witness=dict(W, subject=S.kind, afixed=fx, apoly=po, counts=L.c_np, copies=N), coords=coords)


def one_large(ctx, c):
    from pybrops.popgen.gmat.DensePhasedGenotypeMatrix import DensePhasedGenotypeMatrix
    from pybrops.popgen.gmat.DenseGenotypeMatrix import DenseGenotypeMatrix
    from pybrops.breed.prot.gt.DenseUnphasedGenotyping import DenseUnphasedGenotyping
    repo_code(ctx)
    g = ctx.rng("large", c)
    cls = L_SCHEDULE[c % len(L_SCHEDULE)]
    icls = "large matrix: " + L_CLASSES[cls]
    coords = [c, "large"]
    P, n, m, mat, style = gen_large(g, cls)
    N = P * n
    layout = "C"
    if g.random() < 0.15:
        mat = numpy.asfortranarray(mat); layout = "fortran"
    L = O.LargeRef(mat, P, True)
    ctx.case(icls + "/ploidy %d" % P, P, n, m, style, L.c_np)
    W = {"ploidy": P, "ntaxa": n, "nvrnt": m, "copies": N, "size_class": L_CLASSES[cls], "locus_style": style, "memory_layout": layout,
         "allele_counts": L.c_np, "sum over loci of count*(copies-count)": L.S}
    if c % 6 == 0:
        ctx.sample({"family": "large", "size_class": L_CLASSES[cls], "ploidy": P, "ntaxa": n, "nvrnt": m, "locus_style": style[:200],
                    "sum over loci of count*(copies-count)": L.S, "largest allele count": int(L.c_np.max())})
    cmax, gmax, pmax = int(L.c_np.max()), int(L.gt.max()), max(L.prod)
    for nm, cond in (("sum over loci of count*(copies-count) >= 2**31", L.S >= 2 ** 31), ("sum over loci of count*(copies-count) >= 2**32", L.S >= 2 ** 32),
                     ("one locus with count*(copies-count) >= 2**31", pmax >= 2 ** 31), ("copies**2 >= 2**32", N * N >= 2 ** 32),
                     ("an allele count > 2**15", cmax > 2 ** 15), ("an allele count > 2**16", cmax > 2 ** 16), ("a genotype class count > 2**15", gmax > 2 ** 15),
                     ("ntaxa > 2**16", n > 2 ** 16), ("nvrnt > 2**15", m > 2 ** 15), ("nvrnt > 2**16", m > 2 ** 16), ("an allele count > 2**24", cmax > 2 ** 24),
                     ("locus fixed at 1 with copies > 2**15", N > 2 ** 15 and cmax == N), ("non-diploid", P != 2)):
        if cond:
            ctx.hook("large: " + nm)
    try:
        ph = DensePhasedGenotypeMatrix(mat)
    except Exception as e:
        ctx.raised("DensePhasedGenotypeMatrix.__init__", e)
        return
    raw = mat.copy()
    dmat = mat.sum(0, dtype="int8")
    un = None
    via = (c % 2 == 0)
    if via:
        site = "DenseUnphasedGenotyping.genotype"
        ctx.ok("C09.returns")
        try:
            un = DenseUnphasedGenotyping().genotype(ph)
        except Exception as e:
            ctx.violation("C09.returns", site, "raised %s" % type(e).__name__, icls,
                          what="%s raised %s: %s" % (site, type(e).__name__, str(e)[:160]), witness=W, coords=coords)
        if un is not None:
            good = ctx.check("C09.scale", type(un) is DenseGenotypeMatrix and isinstance(un.mat, numpy.ndarray) and un.mat.shape == dmat.shape
                             and numpy.array_equal(un.mat, dmat) and un.ploidy == P, site,
                             "unphased calls == per-taxon sum over chromosome copies, ploidy preserved", icls,
                             witness=dict(W, got=getattr(un, "mat", None), got_ploidy=getattr(un, "ploidy", None)), coords=coords)
            if good:
                ctx.hook("large: unphased subject via DenseUnphasedGenotyping")
            else:
                un = None; via = False
    if un is None:
        try:
            un = DenseGenotypeMatrix(dmat.copy(), ploidy=P)
            ctx.hook("large: unphased subject built directly")
        except Exception as e:
            ctx.raised("DenseGenotypeMatrix.__init__", e)
    SP = Subject("DensePhasedGenotypeMatrix", ph, raw)
    SP.clause, SP.icls = "C09.scale", icls
    judge_large(ctx, SP, L, g, W, coords)
    if un is None:
        return
    SU = Subject("DenseGenotypeMatrix via DenseUnphasedGenotyping" if via else "DenseGenotypeMatrix built directly", un, dmat.copy())
    SU.clause, SU.icls = "C09.scale", icls
    judge_large(ctx, SU, L, g, W, coords)
    for name in STATS + ["mat_asformat" + f for f in FORMATS]:
        if name not in SP.res or name not in SU.res:
            continue
        a, b = SP.res[name], SU.res[name]
        meth = name if not name.startswith("mat_asformat") else "mat_asformat"
        site = "%s~%s" % (site_of(SP.obj, meth), site_of(SU.obj, meth))
        if name in FLOATS:
            ok = fdiff(a, b) <= TOL
        else:
            ok = numpy.shape(a) == numpy.shape(b) and numpy.array_equal(numpy.asarray(a), numpy.asarray(b))
        if not ok and (name in SP.bad or name in SU.bad):
            ctx.ok("C09.scale")
            ctx.sumnote("phased/unphased mismatch on %s explained by an already reported deviation from the definition" % name)
            continue
        ctx.check("C09.scale", ok, site, "phased == unphased projection (%s)" % ("values to 1e-9" if name in FLOATS else "exact"), icls,
                  what="%s: phased matrix and its unphased projection disagree on %s (%s)" % (site, name, icls),
                  witness=dict(W, phased=a, unphased=b, unphased_subject=SU.kind), coords=coords)


FAMILIES = {"mat": (one_case, 7500, 170000), "hist": (one_history, 1300, 16000),
            "derive": (one_derive, 1600, 24000), "gt": (one_gt, 700, 10000), "large": (one_large, 24, 192)}
QUICK_TOTAL, THOROUGH_TOTAL = FAMILIES["mat"][1], FAMILIES["mat"][2]


def run_shard(ctx):
    for name, (fn, q, t) in FAMILIES.items():
        for c in ctx.case_ids(q, t):
            fn(ctx, c)


def replay(ctx, coords):
    fam = coords[1] if len(coords) > 1 and coords[1] in FAMILIES else "mat"
    FAMILIES[fam][0](ctx, int(coords[0]))
