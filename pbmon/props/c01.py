"""C01 - Mendelian fidelity of the seven mating protocols."""
import numpy

from pbmon import boot  # noqa: F401
from pbmon.gen import pop
from pbmon.gen.advrng import ConstUniform
from pbmon.oracle import meiosis as MO
from pbmon.verdict import digest

PROPERTY = "C01"
NSHARDS = {"quick": 4, "thorough": 16}
CLAUSES = {
    "C01.mosaic": 2000, "C01.chain": 500, "C01.pedigree": 2000, "C01.depth": 300, "C01.founder.side": 300, "C01.founder.switch": 300,
    "C01.meta.count": 300, "C01.meta.names": 300, "C01.meta.family": 300, "C01.meta.counters": 300,
    "C01.meta.vrnt": 300, "C01.meta.parent_unchanged": 300, "C01.meta.args_unchanged": 300, "C01.dh.homozygous": 100,
    "C01.meta.results_stable": 300,
}
HOOKS_REQUIRED = ["mat_meiosis calls", "breeding cycles chained on one protocol object"]
RULE = ("seeded class-based mate() calls: 7 protocols x founders 1-9 taxa x 1-48 markers x 1-4 chromosomes; cross tables with "
        "selfs/repeated parents/single cross; scalar and per-cross array nmating/nprogeny (incl. 1 and per-cross 0); nself 0-4; "
        "xoprob all-zero/all-half/mixed exact 0 and 0.5/random/Haldane; allele codes unique-per-founder-haplotype/{0,1}/"
        "arbitrary int8; rng Generator/RandomState/constant-uniform adversarial generators; repeated calls on one protocol "
        "object.  Non-trivial: >1 marker and >=1 progeny; distinct = digest of all call arguments.")
ASSUME = ["side convention pinned from docstrings/current tree: cross-table column 0 (female / recurrent) -> chromosome copy 0, "
          "two-way male -> copy 1; three-way columns 1,2 (hybrid) -> copy 1; four-way columns 2,3 -> copy 0 and columns 0,1 -> copy 1",
          "progeny order is cross-major (all progeny of cross 0, then cross 1, ...), names <prefix><counter zero-filled to 7>",
          "progeny_counter + n < 10**7 in all workloads (lexicographic = numeric name order)",
          "the copy a gamete starts from is unconstrained (property does not fix it)"]

PROTOS = [
    ("SelfCross", 1, "sx"), ("TwoWayCross", 2, "2w"), ("TwoWayDHCross", 2, "dh"), ("ThreeWayCross", 3, "3w"),
    ("ThreeWayDHCross", 3, "dh"), ("FourWayCross", 4, "4w"), ("FourWayDHCross", 4, "dh"),
]


def proto_class(name):
    import importlib
    return getattr(importlib.import_module("pybrops.breed.prot.mate." + name), name)


def allowed_sides(name, xrow, nself):
    """Founder indices allowed on chromosome copy 0 / copy 1 of a progeny of cross ``xrow``."""
    x = [int(v) for v in xrow]
    allf = set(x)
    if name == "SelfCross":
        return allf, allf
    if name.endswith("DHCross") or nself > 0:
        return allf, allf
    if name == "TwoWayCross":
        return {x[0]}, {x[1]}
    if name == "ThreeWayCross":
        return {x[0]}, {x[1], x[2]}
    if name == "FourWayCross":
        return {x[2], x[3]}, {x[0], x[1]}
    raise KeyError(name)


def expected_depths(name, nself):
    """Gamete depth (number of meioses since a founder) of copy 0 / copy 1 of a progeny."""
    if name in ("SelfCross", "TwoWayCross"):
        return 1 + nself, 1 + nself
    if name == "TwoWayDHCross":
        return 2 + nself, 2 + nself
    if name == "ThreeWayCross":
        return (1, 2) if nself == 0 else (2 + nself, 2 + nself)
    if name == "ThreeWayDHCross":
        return 3 + nself, 3 + nself
    if name == "FourWayCross":
        return 2 + nself, 2 + nself
    if name == "FourWayDHCross":
        return 3 + nself, 3 + nself
    raise KeyError(name)


def pedigree_spec(name, xrow, nself):
    """Individual that is selfed/doubled to give the progeny, written from the protocol definitions."""
    x = [int(v) for v in xrow]
    F, I, S = MO.F, MO.I, MO.S
    if name == "SelfCross":
        return S(F(x[0]), 1 + nself), False
    if name == "TwoWayCross":
        return S(I(F(x[0]), F(x[1])), nself), False
    if name == "TwoWayDHCross":
        return S(I(F(x[0]), F(x[1])), nself), True
    if name in ("ThreeWayCross", "ThreeWayDHCross"):
        return S(I(F(x[0]), I(F(x[1]), F(x[2]))), nself), name.endswith("DHCross")
    if name in ("FourWayCross", "FourWayDHCross"):
        return S(I(I(F(x[2]), F(x[3])), I(F(x[0]), F(x[1]))), nself), name.endswith("DHCross")
    raise KeyError(name)


LOG = MO.MeiosisLog()


def gen_case(g):
    name, npar, prefix = PROTOS[int(g.integers(len(PROTOS)))]
    ntaxa = int(g.integers(1, 10)); nvrnt = int(g.integers(1, 49)) if g.random() < 0.8 else int(g.integers(1, 4))
    if g.random() < 0.004:
        nvrnt = int(g.choice([4097, 8193, 9000]))          # beyond internal block sizes of a vectorised meiosis
    nchr = int(g.integers(1, 5))
    codes = ["unique", "unique", "unique", "01", "int8"][int(g.integers(5))]
    xomode = ["zero", "half", "mixed", "mixed", "random", "haldane", "wide"][int(g.integers(7))]
    hap = g.random() < 0.15
    grouped = g.random() < 0.75
    pg = pop.make_pgmat(g, ntaxa, nvrnt, nchr, codes=codes, xomode=xomode, optional=g.random() < 0.8, hap=hap,
                        grouped=grouped, interleave=g.random() < 0.6)
    g3 = numpy.random.default_rng([int(g.integers(2 ** 31)), 77])
    if g3.random() < 0.3 and pg.mat.shape[0] > 1:
        # some parents are inbred lines (every chromosome copy equals copy 0), others stay heterozygous: "no meiosis needed" shortcuts
        inbred = numpy.flatnonzero(g3.random(ntaxa) < 0.5)
        pg.mat[1:, inbred, :] = pg.mat[0:1, inbred, :]
    ncross = 1 if g.random() < 0.2 else int(g.integers(1, 7))
    xmode = int(g.integers(4))
    if xmode == 0:
        xc = g.integers(0, ntaxa, (ncross, npar))
    elif xmode == 1:   # selfs / repeated parents
        xc = numpy.repeat(g.integers(0, ntaxa, (ncross, 1)), npar, axis=1)
    elif xmode == 2:   # same cross repeated
        xc = numpy.repeat(g.integers(0, ntaxa, (1, npar)), ncross, axis=0)
    else:
        xc = g.integers(0, ntaxa, (ncross, npar)); xc[:, -1] = xc[:, 0]
    xc = xc.astype("int64")
    lay = int(g.integers(5))
    if lay == 1:
        xc = numpy.asfortranarray(xc)                       # e.g. numpy.array([col0, col1, ...]).T
    elif lay == 2:
        big = numpy.zeros((ncross, 2 * npar), dtype="int64"); big[:, ::2] = xc; xc = big[:, ::2]      # non-contiguous view
    elif lay == 3:
        xc = xc.astype("int32")
    elif lay == 4 and g.random() < 0.7:
        # every integer dtype is a valid index array; narrow ones must not leak into the library's own index arithmetic
        xc = xc.astype(str(g.choice(["int8", "uint8", "int16", "uint16", "uint32"])))

    def counts():
        r = g.random()
        if r < 0.35:
            return int(g.integers(1, 4)), "scalar"
        if r < 0.9:
            return g.integers(1, 4, ncross).astype("int64"), "array"
        a = g.integers(0, 3, ncross).astype("int64")
        return a, "array-with-zero"
    nmating, mcls = counts(); nprogeny, pcls = counts()
    if g.random() < 0.03:
        # families whose running totals cross the limits of the 8-bit types (127 / 255 hybrids or progeny in one call), mostly
        # asked for through a cross table of such a narrow dtype
        nmating = g.integers(30, 131, ncross).astype("int64"); nprogeny = int(g.integers(1, 3)); mcls, pcls = "array-large", "scalar"
        r8 = g.random()
        if r8 < 0.7:
            xc = numpy.ascontiguousarray(xc).astype("int8" if r8 < 0.3 else "uint8" if r8 < 0.6 else "int16")
    if g.random() < 0.15:
        # count arrays in a narrower integer dtype (values themselves fit)
        dtc = str(g.choice(["int16", "uint16", "int32", "uint32", "uint8"]))
        if isinstance(nmating, numpy.ndarray) and nmating.max() < 200:
            nmating = nmating.astype(dtc)
        if isinstance(nprogeny, numpy.ndarray):
            nprogeny = nprogeny.astype(dtc)
    tot = int(numpy.sum(numpy.broadcast_to(nmating, (ncross,)).astype("int64") * numpy.broadcast_to(nprogeny, (ncross,)).astype("int64")))
    nself = int(g.choice([0, 0, 0, 1, 1, 2, 3, 4]))
    r = int(g.integers(10)); seed = int(g.integers(2 ** 31))
    if r < 5:
        rng = numpy.random.Generator(numpy.random.PCG64(seed)); rcls = "Generator"
    elif r < 7:
        rng = numpy.random.RandomState(seed); rcls = "RandomState"
    elif r == 9 and pg.nvrnt > 1:
        # a genuine PCG64 generator stepped back from a state whose output word is zero: the j-th uniform of the first meiosis
        # call is exactly 0.0 (double or single precision) - a crossover there is legitimate only where xoprob[j] > 0
        from pbmon.gen.advrng import crafted_generator
        rng = crafted_generator("zero", seed); j = int(g.integers(1, 3 * pg.nvrnt))
        rng.bit_generator.advance((1 << 128) - j); rcls = "crafted-zero-draw-at-offset"
    else:
        xo = pg.vrnt_xoprob
        pos = xo[xo > 0]
        v = [0.0, float(g.choice(xo)), float(numpy.nextafter(g.choice(xo), 1.0)), float(numpy.nextafter(g.choice(pos), 0.0)) if len(pos) else 0.0,
             0.25, float(numpy.nextafter(0.5, 0.0))][int(g.integers(6))]
        rng = ConstUniform(seed, v); rng.frac = v; rcls = "const-uniform"
    pc = int(g.choice([0, 0, 1, 7, 123, 99990, 9000000, 9999997, 9999999, 10000000, 99999998])); fc = int(g.choice([0, 0, 3, 10 ** 6]))
    return dict(name=name, npar=npar, prefix=prefix, pg=pg, xc=xc, nmating=nmating, nprogeny=nprogeny, nself=nself, rng=rng,
                rcls=rcls, pc=pc, fc=fc, codes=codes, xomode=xomode, tot=tot, cls=(mcls, pcls), hap=hap, grouped=grouped)


def check_call(ctx, name, prefix, proto, pg, xc, nmating, nprogeny, nself, codes, icls, coords, tot_expected):
    """Run one mate() call under the hook and judge it."""
    ncross = len(xc)
    # expectations come from snapshots taken BEFORE the call: a protocol that writes into the caller's arrays must not
    # be able to rewrite the specification it is judged against
    xc_live, nmating_live, nprogeny_live = xc, nmating, nprogeny
    xc = numpy.array(xc, copy=True)
    arg0 = (xc.copy(), numpy.array(nmating, copy=True), numpy.array(nprogeny, copy=True))
    nm = numpy.array(numpy.broadcast_to(nmating, (ncross,)), dtype=int)
    npg = numpy.array(numpy.broadcast_to(nprogeny, (ncross,)), dtype=int)
    founder = pg.mat
    before_mat = founder.copy()
    before_v = pop.snapshot(pg, pop.VRNT_FIELDS); before_t = pop.snapshot(pg, pop.TAXA_FIELDS)
    pc0, fc0 = proto.progeny_counter, proto.family_counter
    LOG.clear()
    site = name + ".mate"
    w = {"protocol": name, "xconfig": xc, "nmating": nmating, "nprogeny": nprogeny, "nself": nself,
         "ntaxa": pg.ntaxa, "nvrnt": pg.nvrnt, "xoprob": pg.vrnt_xoprob, "codes": codes}
    try:
        out = proto.mate(pg, xc_live, nmating_live, nprogeny_live, nself=nself)
    except Exception as e:
        if tot_expected == 0:
            ctx.raised(site + " (zero progeny requested)", e)
        else:
            ctx.raised(site, e)
            ctx.violation("C01.returns", site, "raised %s" % type(e).__name__, icls, what="%s raised %s: %s" % (site, type(e).__name__, str(e)[:100]),
                          witness=w, coords=coords)
        return None
    events = list(LOG.events)
    ctx.hook("mat_meiosis calls", len(events))
    xo = numpy.asarray(pg.vrnt_xoprob)
    # ---- C01.mosaic: every logged meiosis
    for (geno, sel, exo, gam) in events:
        P0 = geno[0][sel]; P1 = geno[1][sel]
        okrows = MO.mosaic_rows(P0, P1, gam, exo) if gam.shape[1] > 0 else numpy.ones(len(sel), bool)
        ctx.clauses["C01.mosaic"] += len(sel) - 1 if len(sel) else 0
        ctx.check("C01.mosaic", bool(okrows.all()) and numpy.array_equal(exo, xo) and gam.dtype == founder.dtype, "mat_meiosis",
                  "gamete is a mosaic of its parent's two copies switching only where xoprob>0", icls,
                  witness=dict(w, bad_rows=numpy.flatnonzero(~okrows)[:5], sel=sel), coords=coords)
    # ---- C01.meta
    N = int((nm * npg).sum())
    mat = out.mat
    ok = ctx.check("C01.meta.count", mat.ndim == 3 and mat.shape == (2, N, pg.nvrnt) and out.ntaxa == N, site,
                   "number of progeny == sum(nmating*nprogeny)", icls, witness=dict(w, got=mat.shape, expected=N), coords=coords)
    ctx.check("C01.meta.counters", proto.progeny_counter == pc0 + N and proto.family_counter == fc0 + ncross, site,
              "counters advance by the numbers produced", icls,
              witness=dict(w, pc=(pc0, proto.progeny_counter), fc=(fc0, proto.family_counter)), coords=coords)
    ctx.check("C01.meta.parent_unchanged", numpy.array_equal(founder, before_mat) and pg.mat is founder and
              all(pop.same(getattr(pg, f, None), before_v[f]) for f in pop.VRNT_FIELDS) and
              all(pop.same(getattr(pg, f, None), before_t[f]) for f in pop.TAXA_FIELDS), site,
              "parental matrix and metadata unchanged", icls, witness=w, coords=coords)
    ctx.check("C01.meta.args_unchanged", numpy.array_equal(numpy.asarray(xc_live), arg0[0]) and numpy.array_equal(numpy.asarray(nmating_live), arg0[1])
              and numpy.array_equal(numpy.asarray(nprogeny_live), arg0[2]), site, "cross configuration and count arrays passed by the caller are not modified", icls,
              witness=dict(w, nmating_after=nmating_live, nprogeny_after=nprogeny_live, xconfig_after=xc_live), coords=coords)
    badf = [f for f in pop.VRNT_FIELDS if not pop.same(getattr(out, f, None), before_v[f])]
    hapf = [f for f in badf if f in ("vrnt_hapalt", "vrnt_hapref")]
    other = [f for f in badf if f not in hapf]
    ctx.check("C01.meta.vrnt", not other, site, "marker metadata carried over", icls, witness=dict(w, fields=other), coords=coords)
    if before_v["vrnt_hapalt"] is not None or before_v["vrnt_hapref"] is not None:
        ctx.check("C01.meta.vrnt.hap", not hapf, "MatingProtocol.mate", "vrnt_hapalt/vrnt_hapref carried over", "parent has hapalt/hapref",
                  witness=dict(w, fields=hapf), coords=coords)
    if not ok:
        return out
    exp_names = [prefix + str(i).zfill(7) for i in range(pc0, pc0 + N)]
    names = [] if out.taxa is None else list(out.taxa)
    ctx.check("C01.meta.names", sorted(names) == sorted(exp_names) and len(set(names)) == N, site,
              "names are <prefix><counter> consecutive from the old counter", icls, witness=dict(w, names=names[:6], expected=exp_names[:6]), coords=coords)
    if sorted(names) != sorted(exp_names):
        return out
    # k-th expected progeny -> row
    row_of = {nm_: i for i, nm_ in enumerate(names)}
    rows = numpy.array([row_of[n_] for n_ in exp_names], dtype=int) if N else numpy.zeros(0, dtype=int)
    cross_of = numpy.repeat(numpy.arange(ncross), nm * npg)
    ctx.check("C01.meta.family", out.taxa_grp is not None and numpy.array_equal(numpy.asarray(out.taxa_grp)[rows], fc0 + cross_of), site,
              "family label == family_counter + cross index, per the counts", icls,
              witness=dict(w, taxa_grp=None if out.taxa_grp is None else numpy.asarray(out.taxa_grp)[rows], expected=fc0 + cross_of), coords=coords)
    R = mat[:, rows, :]
    isdh = name.endswith("DHCross")
    if isdh:
        ctx.check("C01.dh.homozygous", numpy.array_equal(R[0], R[1]), site, "doubled haploids homozygous at every locus", icls, witness=w, coords=coords)
    if N == 0:
        return out
    # ---- C01.chain / depth: returned copies are logged gametes derived from founders by logged meioses
    depths = MO.chain(events, before_mat)
    unexpl = [e for e, d in enumerate(depths) if not d]
    ctx.check("C01.chain", not unexpl, site, "every meiosis input is the founder matrix or a stack of earlier logged gametes", icls,
              witness=dict(w, events=unexpl), coords=coords)
    d_exp = expected_depths(name, nself)
    for ph in (0, 1):
        m = MO.matching_events(events, R[ph])
        ctx.check("C01.chain", bool(m), site, "each returned chromosome-copy layer equals a logged gamete matrix", icls,
                  witness=dict(w, phase=ph), coords=coords)
        if m and not unexpl:
            poss = set().union(*[depths[a] for a in m])
            ctx.check("C01.depth", d_exp[ph] in poss, site, "number of meioses between founders and progeny matches protocol and nself", icls,
                      witness=dict(w, phase=ph, possible=sorted(poss), expected=d_exp[ph]), coords=coords)
    # ---- C01.pedigree: every progeny is explained, through logged meioses, by the tree the protocol prescribes
    ped = MO.Pedigree(events, before_mat)
    badk = None
    for kk in range(N):
        spec, dh = pedigree_spec(name, xc[cross_of[kk]], nself)
        v0, v1 = R[0, kk], R[1, kk]
        good = (ped.gamete_of(v0, spec) and numpy.array_equal(v0, v1)) if dh else ped.individual(v0, v1, spec)
        if not good:
            badk = kk; break
    ctx.clauses["C01.pedigree"] += max(N - 1, 0)
    ctx.check("C01.pedigree", badk is None, site, "progeny derives from exactly the parents/intermediates its cross row assigns to each side", icls,
              witness=dict(w, progeny=badk, row=None if badk is None else xc[cross_of[badk]]), coords=coords)
    # ---- C01.founder (unique code per founder haplotype): which founders may appear on which side; where codes may change
    if codes == "unique":
        n = pg.ntaxa
        F = R.astype(int) % n  # founder index of every allele
        badside = None
        for c in range(ncross):
            a0, a1 = allowed_sides(name, xc[c], nself)
            sel = numpy.flatnonzero(cross_of == c)
            if len(sel) == 0:
                continue
            if not numpy.isin(F[0][sel], list(a0)).all() or not numpy.isin(F[1][sel], list(a1)).all():
                badside = c; break
        ctx.check("C01.founder.side", badside is None, site, "each chromosome copy carries only haplotypes of the parents assigned to that side", icls,
                  witness=dict(w, cross=badside, row=None if badside is None else xc[badside]), coords=coords)
        if R.shape[2] > 1:
            chg = (R[:, :, 1:] != R[:, :, :-1]).any(axis=(0, 1))
            badpos = numpy.flatnonzero(chg & ~(xo[1:] > 0)) + 1
            ctx.check("C01.founder.switch", len(badpos) == 0, site, "founder haplotype changes only where xoprob>0", icls,
                      witness=dict(w, positions=badpos), coords=coords)
    return out


def one_case(ctx, c):
    g = ctx.rng("mate", c)
    k = gen_case(g)
    LOG.install()
    name = k["name"]
    icls = "%s/%s%s" % ("nself>0" if k["nself"] else "nself=0", k["rcls"], "" if k["grouped"] else "/ungrouped parent")
    if k["xc"].dtype.itemsize < 4 or k["xc"].dtype.kind == "u":
        icls += "/narrow or unsigned cross-table dtype"
    if k["tot"] > 127:
        icls += "/more than 127 progeny"
        ctx.sumnote("calls producing more than 127 progeny")
    ctx.sumnote("cross tables of dtype %s" % k["xc"].dtype)
    coords = [c, "mate"]
    pg = k["pg"]
    ctx.case("%s/%s/%s/xo=%s/counts=%s,%s/%s" % (name, k["codes"], k["rcls"], k["xomode"], k["cls"][0], k["cls"][1], "grouped" if k["grouped"] else "ungrouped parent"),
             name, pg.mat, pg.vrnt_xoprob, k["xc"], k["nmating"], k["nprogeny"], k["nself"], k["pc"], trivial=(pg.nvrnt < 2 or k["tot"] == 0))
    if c % 53 == 0:
        ctx.sample({"protocol": name, "ntaxa": pg.ntaxa, "nvrnt": pg.nvrnt, "xconfig": k["xc"].tolist(),
                    "nmating": numpy.asarray(k["nmating"]).tolist(), "nprogeny": numpy.asarray(k["nprogeny"]).tolist(), "nself": k["nself"],
                    "codes": k["codes"], "xoprob": k["xomode"], "rng": k["rcls"]})
    if g.random() < 0.4:   # documented positional order of every protocol constructor: (progeny_counter, family_counter, rng)
        proto = proto_class(name)(k["pc"], k["fc"], k["rng"]); icls += "/positional constructor arguments"
    else:
        proto = proto_class(name)(progeny_counter=k["pc"], family_counter=k["fc"], rng=k["rng"])
    ctx.check("C01.meta.counters", proto.progeny_counter == k["pc"] and proto.family_counter == k["fc"], name + ".__init__",
              "constructor sets the progeny and family counters it was given", icls,
              witness={"protocol": name, "given": [k["pc"], k["fc"]], "got": [proto.progeny_counter, proto.family_counter]}, coords=coords)
    out = check_call(ctx, name, k["prefix"], proto, pg, k["xc"], k["nmating"], k["nprogeny"], k["nself"], k["codes"], icls, coords, k["tot"])
    if out is not None and g.random() < 0.3 and k["tot"] > 0:
        # counter continuity and ownership of results: later calls on the same long-lived protocol object (same shapes, then
        # the progeny as the next cycle's parents) must leave the progeny handed out earlier exactly as they were
        held = [(out, out.mat.copy(), pop.snapshot(out, pop.TAXA_FIELDS), pop.snapshot(out, pop.VRNT_FIELDS), "first call")]
        ctx.check("C01.meta.results_stable", not numpy.shares_memory(out.mat, pg.mat), name + ".mate",
                  "progeny genotypes share no memory with the parents' genotypes", icls, coords=coords)
        out2 = check_call(ctx, name, k["prefix"], proto, pg, k["xc"], k["nmating"], k["nprogeny"], k["nself"], k["codes"], icls + "/second call", coords, k["tot"])
        if out2 is not None:
            held.append((out2, out2.mat.copy(), pop.snapshot(out2, pop.TAXA_FIELDS), pop.snapshot(out2, pop.VRNT_FIELDS), "second call"))
            if out2.ntaxa > int(numpy.max(k["xc"])) and g.random() < 0.6:
                # next breeding cycle: the progeny are the parents (same cross table, same counts -> same output shape)
                ctx.hook("breeding cycles chained on one protocol object")
                check_call(ctx, name, k["prefix"], proto, out2, k["xc"], k["nmating"], k["nprogeny"], k["nself"], "progeny of an earlier call", icls + "/next cycle on progeny", coords, k["tot"])
        for o_, m0, t0, v0, tag in held:
            same = numpy.array_equal(o_.mat, m0) and all(pop.same(getattr(o_, f, None), t0[f]) for f in pop.TAXA_FIELDS) and \
                all(pop.same(getattr(o_, f, None), v0[f]) for f in pop.VRNT_FIELDS)
            ctx.check("C01.meta.results_stable", same, name + ".mate", "progeny returned by an earlier call are not changed by later calls on the same protocol object",
                      icls, what="%s: the progeny matrix returned by the %s changed after a later mate() call on the same protocol object" % (name, tag),
                      witness={"protocol": name, "xconfig": k["xc"], "nmating": k["nmating"], "nprogeny": k["nprogeny"], "nself": k["nself"], "which": tag}, coords=coords)
    if isinstance(k["rng"], ConstUniform):
        ctx.hook("constant uniform() interceptions", k["rng"].ncalls)


def run_shard(ctx):
    for c in ctx.case_ids(5000, 120000):
        one_case(ctx, c)


def replay(ctx, coords):
    one_case(ctx, int(coords[0]))
