"""C04 - genomic-model predictions are linear, label-preserving and self-consistent; fitted rrBLUP solves its own equations.

Two case families: ``model`` (a model with given coefficients on one population presented in three input forms, its taxon
permutation, a marker partition, a call history on the living model object and rounds of coefficient updates on it and on copies of it) and ``fit`` (rrBLUP training sets through every
entry point; a recording wrapper on the module-level solver supplies the ridge parameter)."""
import numpy

from pbmon import boot  # noqa: F401
from pbmon import hooks
from pbmon.gen.pop import same
from pbmon.oracle import linmodel as O

PROPERTY = "C04"
NSHARDS = {"quick": 4, "thorough": 16}
CLAUSES = {
    "C04.value": 10000,            # per-taxon values of gebv/gegv/predict/*_numpy/TrueBreedingValue == intercept + dosage*a (+ het*d)
    "C04.forms.input": 20000,      # phased matrix == unphased projection == raw dosage array (every output)
    "C04.forms.perm": 15000,       # taxon permutation permutes rows and labels together, leaves population summaries alone
    "C04.forms.split": 4000,       # marker partition: partial predictions / genic variances add up, tables concatenate
    "C04.forms.labels": 20000,    # optional taxa / variant label arrays (incl. vrnt_mask) change no statistic: labelled == unlabelled twin
    "C04.forms.derived": 8000,   # inputs made by select/delete/adjoin/insert/concat/copy/remove/append: ploidy kept, every statistic right
    "C04.returns": 2000,          # arrays in any memory representation of the same values are accepted (no exception) ...
    "C04.labels": 15000,           # taxa, taxa_grp of the input and trait of the model on every output matrix
    "C04.stats.var": 7000,        # var_A, var_G (population variance of the values), var_a (genic)
    "C04.stats.bulmer": 4000,      # var_A / var_a, NaN exactly when the genic variance is zero
    "C04.stats.score": 1000,       # R^2
    "C04.stats.counts": 20000,     # facount ... dapoly, nafixed, napoly (exact)
    "C04.history": 300000,         # results stay valid while the model lives on: unchanged by later calls, no aliasing, caller overwriting them harmless
    "C04.history.update": 200000,  # coefficients replaced (any subset, setters / in place, repeatedly, on the model or a copy): every entry point follows
    "C04.rrblup.entry": 100,      # fit(objects) == fit_numpy(raw arrays held by the objects), record by record
    "C04.rrblup.trace": 100,       # the model's effects are the solver's output for the training data
    "C04.rrblup.intercept": 150,
    "C04.rrblup.mono": 50,
    "C04.rrblup.criterion": 150,
    "C04.rrblup.normaleq": 100,
}
HOOKS_REQUIRED = ["rrBLUP_ML0"]
RULE = ("model cases: seeded class-based genotype arrays (1-120 taxa incl. 49/98/103, plus a rare large-population class of 4097/5000/8192/9192 taxa x 1-6 markers; 1-60 markers, ploidy 1/2/4; classes random, "
        "some/all loci fixed, all-one, all-zero, rare allele, clones, all-heterozygous) x effect classes (gaussian, small integers "
        "with exact zeros and -0.0, all positive/negative/zero, single non-zero, non-zero only on fixed loci, 1e4 / 1e-4 magnitudes, "
        "per-trait mixtures; 1-4 traits; 1-3 fixed effects; additive and additive+dominance models, optional u_misc) presented as "
        "phased matrix, unphased projection and raw dosage array (int8/int64/float64), with and without taxa/taxa_grp/trait labels; "
        "half of the cases carry random subsets (or all) of the optional variant labels chrgrp/phypos/name/genpos/xoprob/hapgrp/hapalt/"
        "hapref and a vrnt_mask (all True, mixed, all False), and the labelled matrix is also compared with its unlabelled twin; "
        "in 35% of the cases every array handed over (coefficients, intercepts, genotype calls/dosages, covariates, responses; training "
        "sets of fit_numpy) is in another memory representation of the same values: non-native byte order, Fortran order, strided / "
        "offset view of a larger buffer, negative strides, read-only, zero-stride broadcast, ndarray subclass; "
        "responses for R^2 as array, from_numpy object, or constructor-built object whose location/scale are not the mean/sd "
        "of its rows (raw values with location 0 / scale 1, arbitrary location+scale); "
        "one taxon permutation and one random marker partition (1-4 parts) per case; two inputs per case derived from the phased or "
        "unphased matrix by the library's own operations (copy, deepcopy, select/delete/adjoin/insert/concat by taxa or markers, generic "
        "axis forms, in-place remove/append on a copy, select-parts-then-concat, chained selects; all ploidies) and judged on the raw "
        "calls they must hold; then a history on the same model object: "
        "the *_numpy entry points (gebv/gegv/predict/var_A/var_G/var_a/bulmer/score) called 5-6 times with same-shaped inputs of "
        "different content (one buffer rewritten in place, permutation, allele complement, other dtype), another shape, the first "
        "input again, all ~150 raw outputs of the case kept and re-judged at the end, aliasing tests, caller overwriting the "
        "outputs; then 2-3 update rounds on the living model: a random non-empty subset of beta/u_a/u_d/u_misc replaced in random "
        "order through the setters or in place (new effects gaussian, small integers, with exact zeros, all negative, all zero), in 30% "
        "of the rounds after a copy (copy.copy/copy.deepcopy/.copy()/.deepcopy()) was taken and either the copy or the original "
        "goes on living, and after every round all ~30 entry points (gebv/gegv/predict/score and their _numpy forms, var_A/var_G/"
        "var_a/bulmer and _numpy forms, the twelve allele tables) judged against the coefficients the model now holds, the model left "
        "behind against the ones it was left with.  fit cases: 8-120 records x 2-60 markers "
        "(n > p, n barely > p, n <= p; monomorphic and duplicated columns, rare alleles, {-1,0,1} coding) x responses (signal+noise, "
        "pure noise, near-noiseless, constant trait, 1e6 offset, 1e-3 and 1e4 scale), 1-3 traits; entry points fit_numpy, fit(objects), fit(array, matrix), "
        "fit(matrix, array); object responses built by from_numpy or the constructor (location 0/scale 1, arbitrary); record labels "
        "shared by position: unique (sorted / unsorted), replicated names (2-3 records per line, contiguous or scattered, optionally "
        "identical genotypes per line), one name for all, absent on either or both objects; optional taxa_grp.  "
        "Non-trivial: >= 2 taxa and >= 1 marker; distinct = digest of genotype calls, effects and labels (or training set).")
ASSUME = [
    "the value carried by a returned breeding-value matrix is its unscale() (stored matrix is centred/scaled by construction)",
    "intercept of a model with q fixed effects = beta[0] + sum(beta[1:])/q (anchored contrast [1,1/q,...]); q=1 in 70% of cases",
    "genetic variances are population variances (divisor n); genic variance = ploidy^2 * sum a^2 p(1-p) (anchored definition)",
    "favourable/deleterious/neutral status of a marker is decided by the sign of its additive effect, also in dominance models",
    "a raw dosage array handed to a dominance model is diploid-coded (the array API has no ploidy channel); additive quantities "
    "that take ploidy= get it passed",
    "normal equations are those of the raw polymorphic genotype columns and centred response with ridge = varE/varU as returned "
    "by the module-level solver (recorded through a harness wrapper); 'solves' = relative residual <= 1e-5",
]
ASSUME += [
    "records of a response object and a genotype object handed to fit() correspond by position (the workload always gives both the "
    "same order; differently ordered label sets are not generated because the property does not say which pairing is meant)",
    "an output handed to the caller belongs to the caller: it keeps its value while the model is used further and shares no memory "
    "with the model's coefficient arrays, with the input or with another output (label arrays are exempt: they are passed by reference)",
    "a model whose coefficient arrays are replaced through the setters or edited in place is the model with the new coefficients",
    "a copy (shallow or deep) of a model is a model with the same coefficients; updating one of the two through the setters, or in "
    "place after a deep copy, leaves the other one's answers alone (a shallow copy edited in place is not judged: it may share arrays)",
]
TRUSTED = ["pbmon.oracle.linmodel", "numpy.einsum"]

NS = [1, 2, 3, 5, 8, 13, 49, 98, 103, 120]
PS = [1, 2, 3, 5, 10, 30, 60]
GCLS = ["random", "random", "some-fixed", "some-fixed", "all-fixed", "all-one", "all-zero", "rare", "clones", "all-het"]
UCLS = ["gauss", "gauss-zeros", "ints", "positive", "negative", "zero", "one-nonzero", "on-fixed", "large", "small", "mix"]


# ---------------------------------------------------------------- small helpers
def defsite(obj, mname):
    for k in type(obj).__mro__:
        if mname in vars(k):
            return "%s.%s" % (k.__name__, mname)
    return "%s.%s" % (type(obj).__name__, mname)


def fclose(a, b, t):
    """Same shape, NaN pattern identical, finite entries within absolute tolerance t; returns (ok, worst/t)."""
    try:
        a = numpy.asarray(a, dtype=float); b = numpy.asarray(b, dtype=float)
    except Exception:
        return False, float("inf")
    if a.shape != b.shape:
        return False, float("inf")
    if a.size == 0:
        return True, 0.0
    na, nb = numpy.isnan(a), numpy.isnan(b)
    if not numpy.array_equal(na, nb):
        return False, float("inf")
    d = numpy.abs(numpy.where(na, 0.0, a) - numpy.where(nb, 0.0, b))
    tt = numpy.broadcast_to(numpy.asarray(t, dtype=float), d.shape)
    ok = bool(numpy.all(d <= tt))  # inf-inf = nan -> False
    with numpy.errstate(all="ignore"):
        w = float(numpy.max(d / tt)) if ok else float("inf")
    return ok, w


def exact(a, b):
    a = numpy.asarray(a); b = numpy.asarray(b)
    return a.shape == b.shape and bool(numpy.array_equal(a, b))


def brief(x):
    if isinstance(x, Exception):
        return "raised %s: %s" % (type(x).__name__, str(x)[:100])
    try:
        a = numpy.asarray(x)
        return {"shape": list(a.shape), "head": a.ravel()[:12].tolist()}
    except Exception:
        return repr(x)[:120]


# ---------------------------------------------------------------- generators
def gen_effects(g, ucls, p, t, fixed):
    def one(cls, k):
        if cls == "gauss":
            return g.normal(size=(p, k))
        if cls == "gauss-zeros":
            u = g.normal(size=(p, k)); u[g.random((p, k)) < 0.3] = 0.0; u[g.random((p, k)) < 0.05] = -0.0; return u
        if cls == "ints":
            return g.integers(-2, 3, (p, k)).astype(float)
        if cls == "positive":
            return numpy.abs(g.normal(size=(p, k))) + 1e-3
        if cls == "negative":
            return -numpy.abs(g.normal(size=(p, k))) - 1e-3
        if cls == "zero":
            return numpy.zeros((p, k))
        if cls == "one-nonzero":
            u = numpy.zeros((p, k)); u[int(g.integers(p)), :] = g.choice([-1.5, 2.0, 0.25], k); return u
        if cls == "on-fixed":
            return g.normal(size=(p, k)) * fixed[:, None]
        if cls == "large":
            return g.normal(size=(p, k)) * 1e4
        if cls == "small":
            return g.normal(size=(p, k)) * 1e-4
        raise ValueError(cls)
    if ucls == "mix":
        return numpy.concatenate([one(str(g.choice(UCLS[:-1])), 1) for _ in range(t)], axis=1)
    return one(ucls, t)


BIGN = [4097, 5000, 8192, 9192]   # rare large-population class: more taxa than any plausible internal block size


def gen_geno(g, big=None):
    n = int(g.choice(NS)) if g.random() < 0.45 else int(g.integers(1, 41))
    p = int(g.choice(PS)) if g.random() < 0.4 else int(g.integers(1, 25))
    if big is not None:
        n = int(big); p = int(g.integers(1, 7))
    ploidy = int(g.choice([2, 2, 2, 2, 2, 2, 1, 4]))
    gcls = str(g.choice(GCLS))
    f = g.uniform(0, 1, p)
    if gcls == "some-fixed":
        m = g.random(p) < 0.4
        if p > 1 and not m.any():
            m[int(g.integers(p))] = True
        f[m] = g.integers(0, 2, int(m.sum()))
    elif gcls == "all-fixed":
        f = g.integers(0, 2, p).astype(float)
    elif gcls == "all-one":
        f[:] = 1.0
    elif gcls == "all-zero":
        f[:] = 0.0
    elif gcls == "rare":
        f[:] = 0.03
    mat = (g.random((ploidy, n, p)) < f[None, None, :]).astype("int8")
    if gcls == "clones":
        mat[:] = mat[:, :1, :]
    elif gcls == "all-het":
        mat[:] = 0; mat[0] = 1
    return n, p, ploidy, gcls, mat


def mk_phased(mat, taxa, taxa_grp, vmeta, keep=False):
    from pybrops.popgen.gmat.DensePhasedGenotypeMatrix import DensePhasedGenotypeMatrix
    return DensePhasedGenotypeMatrix(mat if keep else mat.copy(), taxa=None if taxa is None else taxa.copy(),
                                     taxa_grp=None if taxa_grp is None else taxa_grp.copy(), **vmeta)


def mk_unphased(dos, ploidy, taxa, taxa_grp, vmeta, keep=False):
    from pybrops.popgen.gmat.DenseGenotypeMatrix import DenseGenotypeMatrix
    return DenseGenotypeMatrix(dos if keep else dos.astype("int8"), taxa=None if taxa is None else taxa.copy(),
                               taxa_grp=None if taxa_grp is None else taxa_grp.copy(), ploidy=int(ploidy), **vmeta)


def sub_vmeta(vmeta, idx):
    return {k: v[idx].copy() for k, v in vmeta.items()}


REPRS = ["non-native byte order", "Fortran order", "strided view of a larger buffer", "negative-stride view", "read-only",
         "offset view of a larger buffer", "zero-stride broadcast view", "ndarray subclass view"]


class _SubArray(numpy.ndarray):
    """A do-nothing ndarray subclass (stands for memmap-like wrappers)."""


def represent(g, a, rcls):
    """The same values in another in-memory representation numpy treats as equal; always a new object."""
    a = numpy.asarray(a)
    if rcls == "native":
        r = a.copy()
    elif rcls == "non-native byte order":
        r = a.astype(a.dtype.newbyteorder("S")) if a.dtype.itemsize > 1 else numpy.ascontiguousarray(a[..., ::-1])[..., ::-1]
    elif rcls == "Fortran order":
        r = numpy.asfortranarray(a.copy())
    elif rcls == "strided view of a larger buffer":
        big = numpy.zeros(tuple(2 * d + 1 for d in a.shape), dtype=a.dtype)
        r = big[tuple(slice(1, 2 * d + 1, 2) for d in a.shape)]
        r[...] = a
    elif rcls == "negative-stride view":
        r = a[::-1].copy()[::-1] if a.ndim == 1 or g.random() < 0.5 else a[..., ::-1].copy()[..., ::-1]
    elif rcls == "read-only":
        r = a.copy(); r.flags.writeable = False
    elif rcls == "offset view of a larger buffer":
        big = numpy.zeros((a.shape[0] + 5,) + a.shape[1:], dtype=a.dtype)
        r = big[3:3 + a.shape[0]]
        r[...] = a
    elif rcls == "zero-stride broadcast view":
        if a.ndim >= 1 and a.shape[0] > 1 and bool((a == a[:1]).all()):
            r = numpy.broadcast_to(a[:1].copy(), a.shape)
        else:
            r = a.copy(); r.flags.writeable = False
    elif rcls == "ndarray subclass view":
        r = a.copy().view(_SubArray)
    else:
        raise ValueError(rcls)
    assert r.shape == a.shape and numpy.array_equal(r, a, equal_nan=(a.dtype.kind == "f"))
    return r


def mk_model(kind, beta, u_misc, u_a, u_d, trait, R=None):
    R = R or (lambda a: a.copy())
    if kind == "A":
        from pybrops.model.gmod.DenseAdditiveLinearGenomicModel import DenseAdditiveLinearGenomicModel as M
        return M(beta=R(beta), u_misc=None if u_misc is None else R(u_misc), u_a=R(u_a),
                 trait=None if trait is None else trait.copy())
    from pybrops.model.gmod.DenseAdditiveDominanceLinearGenomicModel import DenseAdditiveDominanceLinearGenomicModel as M
    return M(beta=R(beta), u_misc=None if u_misc is None else R(u_misc), u_a=R(u_a),
             u_d=None if u_d is None else R(u_d), trait=None if trait is None else trait.copy())


PTFORMS = ["array", "array", "object/from_numpy", "object/raw values, location 0, scale 1", "object/arbitrary location+scale"]


def mk_pheno(ptform, Y, taxa, taxa_grp, trait, loc, sc):
    """Response as a DenseBreedingValueMatrix: standardised on its own taxa (from_numpy) or constructor-built with a
    location/scale that are not the mean/sd of the rows it holds."""
    from pybrops.popgen.bvmat.DenseBreedingValueMatrix import DenseBreedingValueMatrix
    kw = dict(taxa=None if taxa is None else taxa.copy(), taxa_grp=None if taxa_grp is None else taxa_grp.copy(),
              trait=None if trait is None else trait.copy())
    if ptform == "object/from_numpy":
        return DenseBreedingValueMatrix.from_numpy(Y.copy(), **kw)
    if ptform == "object/raw values, location 0, scale 1":
        return DenseBreedingValueMatrix(mat=Y.copy(), location=0.0, scale=1.0, **kw)
    return DenseBreedingValueMatrix(mat=(Y - loc[None, :]) / sc[None, :], location=loc.copy(), scale=sc.copy(), **kw)


TABLES = ["facount", "fafreq", "faavail", "fafixed", "fapoly", "dacount", "dafreq", "daavail", "dafixed", "dapoly",
          "nafixed", "napoly"]
ROWS = ["gebv", "gegv", "predict", "tbv"]
POPS = ["var_A", "var_G", "var_a", "bulmer", "score"]


class Held:
    """An output of the library that the caller keeps while the same model goes on being used."""

    def __init__(self, name, fname, raw):
        self.name, self.fname, self.raw = name, fname, raw
        self.isbv = hasattr(raw, "unscale")
        self.snap = self.value().copy()

    def value(self):
        return numpy.array(self.raw.unscale() if self.isbv else self.raw)

    def arrays(self):
        """The ndarray storage behind the output (for aliasing tests and for the caller's later in-place use)."""
        if self.isbv:
            return [a for a in (self.raw.mat, self.raw.location, self.raw.scale) if isinstance(a, numpy.ndarray)]
        return [self.raw] if isinstance(self.raw, numpy.ndarray) else []

    def intact(self):
        v = self.value()
        return v.shape == self.snap.shape and bool(numpy.array_equal(v, self.snap, equal_nan=(v.dtype.kind == "f")))


def overlaps(a, b):
    if not (isinstance(a, numpy.ndarray) and isinstance(b, numpy.ndarray)) or a.size == 0 or b.size == 0:
        return False
    try:
        return bool(numpy.shares_memory(a, b, max_work=100000))
    except Exception:
        return bool(numpy.may_share_memory(a, b))


KEEP_REPR = [False]


def collect(model, F, fname, ploidy, dom_ok, X, Y, has_misc, held=None):
    """Call every observable of the model on one input form; returns {name: value | Exception}.  For matrix-valued
    outputs the value is (unscale(), taxa, taxa_grp, trait).  The raw returned objects are appended to ``held``."""
    from pybrops.breed.prot.bv.TrueBreedingValue import TrueBreedingValue
    isarr = isinstance(F, numpy.ndarray)
    out = {}
    if KEEP_REPR[0]:    # arrays carry a deliberate memory representation: hand them over untouched
        class _AsIs:
            def __init__(self, a):
                self.a = a

            def copy(self):
                return self.a
        X = _AsIs(X) if isinstance(X, numpy.ndarray) else X
        Fc = _AsIs(F) if isarr else F
    else:
        Fc = F

    def run(name, fn):
        try:
            out[name] = fn()
            if held is not None and not isinstance(out[name], tuple):
                held.append(Held(name, fname, out[name]))
        except Exception as e:  # judged by the caller (equivalence policy)
            out[name] = e

    def bv(o):
        if held is not None:
            held.append(Held(o_name[0], fname, o))
        return (numpy.array(o.unscale(), dtype=float), o.taxa, o.taxa_grp, o.trait)

    o_name = [None]
    _run = run

    def run(name, fn):  # noqa: F811  (remember which output a breeding-value matrix belongs to)
        o_name[0] = name
        _run(name, fn)

    kw = {"ploidy": int(ploidy)} if isarr else {}
    run("gebv", lambda: bv(model.gebv(Fc.copy() if isarr else F)))
    run("tbv", lambda: bv(TrueBreedingValue(model).estimate(None, Fc.copy() if isarr else F)))
    run("var_A", lambda: model.var_A(F))
    run("var_a", lambda: model.var_a(F, **kw))
    run("bulmer", lambda: model.bulmer(F, **kw))
    if dom_ok:
        run("gegv", lambda: bv(model.gegv(Fc.copy() if isarr else F)))
        run("var_G", lambda: model.var_G(F))
        if not has_misc:
            run("predict", lambda: bv(model.predict(X.copy(), Fc.copy() if isarr else F)))
            if Y is not None:
                run("score", lambda: model.score(Y, X.copy(), F))
    if not isarr:
        for nm in TABLES:
            run(nm, (lambda nm=nm: getattr(model, nm)(F)))
    return out


DERIVE_OPS = ["copy", "deepcopy", "select_taxa", "select_vrnt", "delete_taxa", "delete_vrnt", "select(axis=taxa)",
              "select(axis=vrnt)", "delete(axis=taxa)", "delete(axis=vrnt)", "adjoin_taxa", "adjoin_vrnt", "insert_taxa", "insert_vrnt",
              "concat_taxa", "concat_vrnt", "concat(axis=taxa)", "concat(axis=vrnt)", "select_vrnt parts + concat_vrnt",
              "select_taxa parts + concat_taxa", "remove_vrnt on a copy", "remove_taxa on a copy", "append_taxa on a copy",
              "append_vrnt on a copy", "select_vrnt of select_taxa"]


def derive(g, op, F, form, mat, taxa, taxa_grp, vmeta, ploidy):
    """Obtain a genotype matrix from ``F`` with one of the library's own operations.  Returns (D, rows, cols, matT, matV):
    the derived object and what it must contain, as row/column indices into [mat | matT] (taxa) and [mat | matV] (markers)."""
    import copy as _copy
    _, n, p = mat.shape
    n2 = int(g.integers(1, 4)); p2 = int(g.integers(1, 4))
    matT = g.integers(0, 2, (ploidy, n2, p)).astype("int8")
    matV = g.integers(0, 2, (ploidy, n, p2)).astype("int8")
    taxaT = None if taxa is None else numpy.array(["x%03d" % i for i in range(n2)], dtype=object)
    grpT = None if taxa_grp is None else g.integers(0, 3, n2).astype("int64")
    gen = {"vrnt_chrgrp": lambda: numpy.full(p2, 9, dtype="int64"), "vrnt_phypos": lambda: numpy.arange(1, p2 + 1, dtype="int64"),
           "vrnt_name": lambda: numpy.array(["v%d" % i for i in range(p2)], dtype=object),
           "vrnt_genpos": lambda: 100.0 + numpy.arange(p2, dtype=float), "vrnt_xoprob": lambda: numpy.full(p2, 0.25),
           "vrnt_hapgrp": lambda: numpy.full(p2, 7, dtype="int64"), "vrnt_hapalt": lambda: numpy.array(["A"] * p2, dtype=object),
           "vrnt_hapref": lambda: numpy.array(["T"] * p2, dtype=object), "vrnt_mask": lambda: g.random(p2) < 0.5}
    vmetaV = {k: gen[k]() for k in vmeta}

    def mk(m3, tx, gr, vm):
        return mk_phased(m3, tx, gr, vm) if form == "phased" else mk_unphased(O.dosage(m3), ploidy, tx, gr, vm)

    allr, allc = numpy.arange(n), numpy.arange(p)
    tax, vax = F.taxa_axis, F.vrnt_axis
    sub = lambda k: numpy.sort(g.choice(k, int(g.integers(1, k + 1)), replace=False)) if g.random() < 0.7 else g.integers(0, k, int(g.integers(1, k + 2)))
    if op == "copy":
        return _copy.copy(F) if g.random() < 0.5 else F.copy(), allr, allc, matT, matV
    if op == "deepcopy":
        return _copy.deepcopy(F) if g.random() < 0.5 else F.deepcopy(), allr, allc, matT, matV
    if op in ("select_taxa", "select(axis=taxa)"):
        ix = sub(n)
        return (F.select_taxa(ix) if op == "select_taxa" else F.select(ix, axis=tax)), ix, allc, matT, matV
    if op in ("select_vrnt", "select(axis=vrnt)"):
        ix = sub(p)
        return (F.select_vrnt(ix) if op == "select_vrnt" else F.select(ix, axis=vax)), allr, ix, matT, matV
    if op in ("delete_taxa", "delete(axis=taxa)", "remove_taxa on a copy"):
        if n < 2:
            return None
        ix = numpy.unique(g.integers(0, n, int(g.integers(1, n))))
        if len(ix) == n:
            ix = ix[:-1]
        keep = numpy.setdiff1d(allr, ix)
        if op == "remove_taxa on a copy":
            D = F.deepcopy(); D.remove_taxa(ix)
        else:
            D = F.delete_taxa(ix) if op == "delete_taxa" else F.delete(ix, axis=tax)
        return D, keep, allc, matT, matV
    if op in ("delete_vrnt", "delete(axis=vrnt)", "remove_vrnt on a copy"):
        if p < 2:
            return None
        ix = numpy.unique(g.integers(0, p, int(g.integers(1, p))))
        if len(ix) == p:
            ix = ix[:-1]
        keep = numpy.setdiff1d(allc, ix)
        if op == "remove_vrnt on a copy":
            D = F.deepcopy(); D.remove_vrnt(ix)
        else:
            D = F.delete_vrnt(ix) if op == "delete_vrnt" else F.delete(ix, axis=vax)
        return D, allr, keep, matT, matV
    FT = mk(matT, taxaT, grpT, vmeta)
    FV = mk(matV, taxa, taxa_grp, vmetaV)
    if op in ("adjoin_taxa", "append_taxa on a copy"):
        if op == "adjoin_taxa":
            D = F.adjoin_taxa(FT)
        else:
            D = F.deepcopy(); D.append_taxa(FT)
        return D, numpy.r_[allr, n + numpy.arange(n2)], allc, matT, matV
    if op in ("adjoin_vrnt", "append_vrnt on a copy"):
        if op == "adjoin_vrnt":
            D = F.adjoin_vrnt(FV)
        else:
            D = F.deepcopy(); D.append_vrnt(FV)
        return D, allr, numpy.r_[allc, p + numpy.arange(p2)], matT, matV
    if op == "insert_taxa":
        pos = int(g.integers(0, n + 1))
        return F.insert_taxa(pos, FT), numpy.r_[allr[:pos], n + numpy.arange(n2), allr[pos:]], allc, matT, matV
    if op == "insert_vrnt":
        pos = int(g.integers(0, p + 1))
        return F.insert_vrnt(pos, FV), allr, numpy.r_[allc[:pos], p + numpy.arange(p2), allc[pos:]], matT, matV
    if op in ("concat_taxa", "concat(axis=taxa)"):
        first = g.random() < 0.5
        mats = [F, FT] if first else [FT, F]
        D = type(F).concat_taxa(mats) if op == "concat_taxa" else type(F).concat(mats, axis=tax)
        return D, (numpy.r_[allr, n + numpy.arange(n2)] if first else numpy.r_[n + numpy.arange(n2), allr]), allc, matT, matV
    if op in ("concat_vrnt", "concat(axis=vrnt)"):
        first = g.random() < 0.5
        mats = [F, FV] if first else [FV, F]
        D = type(F).concat_vrnt(mats) if op == "concat_vrnt" else type(F).concat(mats, axis=vax)
        return D, allr, (numpy.r_[allc, p + numpy.arange(p2)] if first else numpy.r_[p + numpy.arange(p2), allc]), matT, matV
    if op == "select_vrnt parts + concat_vrnt":
        k = int(min(p, g.integers(1, 4)))
        assign = g.permutation(numpy.r_[numpy.arange(k), g.integers(0, k, p - k)])
        idxs = [numpy.flatnonzero(assign == j) for j in range(k)]
        return type(F).concat_vrnt([F.select_vrnt(ix) for ix in idxs]), allr, numpy.concatenate(idxs), matT, matV
    if op == "select_taxa parts + concat_taxa":
        k = int(min(n, g.integers(1, 4)))
        assign = g.permutation(numpy.r_[numpy.arange(k), g.integers(0, k, n - k)])
        idxs = [numpy.flatnonzero(assign == j) for j in range(k)]
        return type(F).concat_taxa([F.select_taxa(ix) for ix in idxs]), numpy.concatenate(idxs), allc, matT, matV
    if op == "select_vrnt of select_taxa":
        ir, ic = sub(n), sub(p)
        return F.select_taxa(ir).select_vrnt(ic), ir, ic, matT, matV
    raise ValueError(op)


def derived_inputs(ctx, g, coords, wit0, kind, ploidy, mat, taxa, taxa_grp, vmeta, beta, u_a, u_d, trait, forms, nops):
    """Genotype inputs obtained through the library's own matrix operations (marker parts, taxon subsets, copies, unions) must
    give the same answers as the raw calls they contain: the statement's 'irrespective of how the markers are split into parts'
    for parts made by the library, for every ploidy and both matrix classes."""
    _, n, p = mat.shape
    t = u_a.shape[1]
    for _ in range(nops):
        op = str(g.choice(DERIVE_OPS))
        form = "phased" if g.random() < 0.4 else "unphased"
        F = forms[form]
        pcl = "%s/%s" % (form, "diploid" if ploidy == 2 else "ploidy 1 or 4")
        site = defsite(F, op.split(" ")[0].split("(")[0])
        try:
            r = derive(g, op, F, form, mat, taxa, taxa_grp, vmeta, ploidy)
        except Exception as e:
            ctx.raised("%s.%s" % (type(F).__name__, op), e); continue
        if r is None:
            continue
        D, rows, cols, matT, matV = r
        uV = g.normal(size=(matV.shape[2], t))
        dV = g.normal(size=(matV.shape[2], t))
        emat = numpy.concatenate([mat, matT], axis=1)[:, rows, :] if numpy.max(rows, initial=0) >= n else mat[:, rows, :]
        if numpy.max(cols, initial=0) >= p:
            emat = numpy.concatenate([mat, matV], axis=2)[:, rows, :][:, :, cols]
        else:
            emat = emat[:, :, cols]
        ua = numpy.concatenate([u_a, uV], axis=0)[cols]
        ud = None if kind == "A" else numpy.concatenate([numpy.zeros((p, t)) if u_d is None else u_d, dV], axis=0)[cols]
        w = dict(wit0, operation=op, form=form, rows=brief(rows), cols=brief(cols))
        okp = getattr(D, "ploidy", None) == ploidy and getattr(D, "ntaxa", None) == emat.shape[1] and getattr(D, "nvrnt", None) == emat.shape[2]
        ctx.check("C04.forms.derived", bool(okp), site, "derived matrix keeps ploidy and has the expected shape", pcl,
                  witness=dict(w, ploidy=ploidy, derived_ploidy=brief(getattr(D, "ploidy", None)),
                               derived_shape=brief(numpy.shape(getattr(D, "mat", None))), expected_shape=list(emat.shape)), coords=coords)
        if not okp:
            continue   # the operation itself is the finding; statistics on a mis-shaped / mis-ploidied matrix would only repeat it
        try:
            M = mk_model(kind, beta, None, ua, ud, trait)
        except Exception as e:
            ctx.raised("construct model for derived input", e); continue
        ne = emat.shape[1]
        dos = O.dosage(emat)
        cnt = O.allele_count(dos)
        het = O.hetind(dos, ploidy)
        b0 = O.intercept(beta)
        eb = O.marker_part(dos, ua)
        eg = eb if kind == "A" else O.marker_part(dos, ua, het, ud)
        S = O.value_scale(beta, ua, ud, ploidy); S2 = S * S
        va, vz = O.genic_var(ua, cnt, ne, ploidy)
        vA = O.popvar(eb)
        with numpy.errstate(all="ignore"):
            bul = numpy.where(vz, numpy.nan, vA / numpy.where(vz, 1.0, va))
            bt = numpy.where(vz, 1.0, O.tol(S2) * (1.0 + numpy.abs(bul)) / numpy.where(vz, 1.0, va))
        tabs = O.allele_tables(ua, cnt, ne, ploidy)
        floats = [("gebv", lambda: M.gebv(D).unscale(), eb + b0[None, :], O.tol(S)), ("gegv", lambda: M.gegv(D).unscale(), eg + b0[None, :], O.tol(S)),
                  ("var_A", lambda: M.var_A(D), vA, O.tol(S2)), ("var_G", lambda: M.var_G(D), O.popvar(eg), O.tol(S2)),
                  ("var_a", lambda: M.var_a(D), va, O.tol(S2)), ("bulmer", lambda: M.bulmer(D), bul, bt),
                  ("fafreq", lambda: M.fafreq(D), tabs["fafreq"], O.tol(1.0)), ("dafreq", lambda: M.dafreq(D), tabs["dafreq"], O.tol(1.0))]
        groups = {"predicted values": ["gebv", "gegv"], "variances and Bulmer ratio": ["var_A", "var_G", "var_a", "bulmer"],
                  "allele counts, frequencies and flags": ["fafreq", "dafreq"] + [nm for nm in TABLES if nm not in ("fafreq", "dafreq")]}
        bad = {k: [] for k in groups}
        seen = {k: 0 for k in groups}
        grp_of = {nm: k for k, v in groups.items() for nm in v}
        for nm, fn, e, tl in floats:
            try:
                got = fn()
            except Exception as ex:
                ctx.raised("%s on derived input" % defsite(M, nm), ex); continue
            seen[grp_of[nm]] += 1
            if not fclose(got, e, tl)[0]:
                bad[grp_of[nm]].append({"output": nm, "got": brief(got), "expected": brief(e)})
        for nm in TABLES:
            if nm in ("fafreq", "dafreq"):
                continue
            try:
                got = getattr(M, nm)(D)
            except Exception as ex:
                ctx.raised("%s on derived input" % defsite(M, nm), ex); continue
            seen[grp_of[nm]] += 1
            if not exact(got, tabs[nm]):
                bad[grp_of[nm]].append({"output": nm, "got": brief(got), "expected": brief(tabs[nm])})
        for k in groups:
            if seen[k]:
                ctx.check("C04.forms.derived", not bad[k], site, "%s on the derived matrix == definitions on the raw calls it holds" % k, pcl,
                          witness=dict(w, failing=bad[k][:6]), coords=coords)
        # labels travel with the rows through the operation and through the model
        try:
            etaxa = None if taxa is None else numpy.concatenate([taxa, numpy.array(["x%03d" % i for i in range(matT.shape[1])], dtype=object)])[rows]
            out = M.gebv(D)
            ctx.check("C04.labels", same(out.taxa, D.taxa) and (taxa is None or same(out.taxa, etaxa)), site,
                      "output taxa == taxa of the rows the derived matrix holds", "taxa labels %s" % ("absent" if taxa is None else "present"),
                      witness=dict(w, got=brief(out.taxa), expected=brief(etaxa)), coords=coords)
        except Exception as ex:
            ctx.raised("gebv on derived input", ex)


# ---------------------------------------------------------------- model family
def case_model(ctx, c):
    g = ctx.rng("model", c)
    coords = [c, "model"]
    big = BIGN[(c // BIG_EVERY) % len(BIGN)] if c % BIG_EVERY == BIG_EVERY - 1 else None
    n, p, ploidy, gcls, mat = gen_geno(g, big)
    dos = O.dosage(mat)
    count = O.allele_count(dos)
    tot = ploidy * n
    fixed = (count == 0) | (count == tot)
    t = int(g.choice([1, 1, 2, 3, 4])) if big is None else int(g.choice([1, 2]))
    q = int(g.choice([1, 1, 1, 1, 1, 1, 1, 2, 2, 3]))
    kind = "AD" if g.random() < 0.45 else "A"
    ucls = str(g.choice(UCLS))
    u_a = gen_effects(g, ucls, p, t, fixed)
    u_d = None
    dcls = "-"
    if kind == "AD":
        dcls = str(g.choice(["gauss", "gauss-zeros", "ints", "zero", "none", "large"]))
        u_d = None if dcls == "none" else gen_effects(g, dcls, p, t, fixed)
    bcls = str(g.choice(["gauss", "gauss", "zero", "ints", "offset"]))
    beta = {"gauss": lambda: g.normal(size=(q, t)) * 10, "zero": lambda: numpy.zeros((q, t)),
            "ints": lambda: g.integers(-3, 4, (q, t)).astype(float), "offset": lambda: g.normal(size=(q, t)) + 1e3}[bcls]()
    has_misc = g.random() < 0.1
    u_misc = g.normal(size=(int(g.integers(1, 4)), t)) if has_misc else None
    trait = None if g.random() < 0.3 else numpy.array(["trait%d" % i for i in range(t)], dtype=object)
    lab = int(g.integers(0, 4))  # 0 none, 1 taxa only, 2 both, 3 both with duplicated names
    taxa = None if lab == 0 else numpy.array(["t%03d" % (i // 2 if lab == 3 else i) for i in g.permutation(n)], dtype=object)
    taxa_grp = None if lab < 2 else g.integers(0, 3, n).astype("int64")
    vmeta = {}
    if g.random() < 0.3:
        vmeta = {"vrnt_chrgrp": numpy.sort(g.integers(1, 4, p)).astype("int64"),
                 "vrnt_phypos": numpy.arange(1, p + 1, dtype="int64") * 7,
                 "vrnt_name": numpy.array(["m%d" % i for i in range(p)], dtype=object)}
    # every optional variant label array (own random stream): none of them may change a statistic or a prediction
    gl = ctx.rng("vlab", c)
    mkcls = "no vrnt_mask"
    if gl.random() < 0.5:
        opt = {"vrnt_chrgrp": lambda: numpy.sort(gl.integers(1, 4, p)).astype("int64"),
               "vrnt_phypos": lambda: numpy.arange(1, p + 1, dtype="int64") * 7,
               "vrnt_name": lambda: numpy.array(["m%d" % i for i in range(p)], dtype=object),
               "vrnt_genpos": lambda: numpy.cumsum(gl.uniform(0.001, 0.3, p)),
               "vrnt_xoprob": lambda: gl.uniform(0, 0.5, p),
               "vrnt_hapgrp": lambda: numpy.sort(gl.integers(0, 4, p)).astype("int64"),
               "vrnt_hapalt": lambda: numpy.array([str(gl.choice(["A", "C"])) for _ in range(p)], dtype=object),
               "vrnt_hapref": lambda: numpy.array([str(gl.choice(["G", "T"])) for _ in range(p)], dtype=object)}
        full = gl.random() < 0.4
        for k, mkv in opt.items():
            if k not in vmeta and (full or gl.random() < 0.35):
                vmeta[k] = mkv()
        mk_ = str(gl.choice(["none", "all-True", "mixed", "mixed", "all-False"]))
        if mk_ != "none":
            msk = numpy.ones(p, dtype=bool) if mk_ == "all-True" else (numpy.zeros(p, dtype=bool) if mk_ == "all-False" else gl.random(p) < 0.5)
            if mk_ == "mixed" and p > 1 and (msk.all() or not msk.any()):
                msk[0] = not msk[1]
            vmeta["vrnt_mask"] = msk
            mkcls = "vrnt_mask all True" if bool(msk.all()) else "vrnt_mask with False entries"
    adt = str(g.choice(["int8", "int64", "float64"]))
    mcls = "additive" if kind == "A" else "additive+dominance"
    icls_in = mcls if kind == "A" else "%s/%s" % (mcls, "diploid" if ploidy == 2 else "ploidy 1 or 4")
    if big is not None:
        icls_in += "/more than 4096 taxa"
    ctx.case("model:%s/%s/%s" % (mcls, gcls, ucls), mat, u_a, u_d, beta, u_misc, repr(trait), repr(taxa), repr(taxa_grp), adt,
             trivial=(n < 2))
    if c % 101 == 0:
        ctx.sample({"family": "model", "case": c, "ntaxa": n, "nmarker": p, "ploidy": ploidy, "genotype_class": gcls,
                    "model": mcls, "effect_class": ucls, "dominance_class": dcls, "ntrait": t, "nfixed": q,
                    "u_a": u_a[:6].tolist(), "beta": beta.tolist(), "dosage_head": dos[:4, :6].tolist(),
                    "labels": ["none", "taxa", "taxa+grp", "taxa(dup)+grp"][lab], "array_dtype": adt})
    # memory representation of every array handed to the library (own random stream: leaves the case content as it was)
    gr = ctx.rng("repr", c)
    rcls = str(gr.choice(REPRS)) if gr.random() < 0.35 else "native"
    KEEP_REPR[0] = rcls != "native"
    R = (lambda a: represent(gr, a, rcls))
    wit_r = {"case": c, "array_representation": rcls}
    # (representation and label classes are carried by the keys of C04.returns / C04.forms.labels and by every witness, not by
    #  the input class of the oracle clauses: one defect must not fan out into one key per representation)

    def build(what, make_repr, make_native, site):
        """Construct with the chosen representation; a representation that is refused while native arrays of the same values
        are accepted is a violation (the case then goes on with the native object)."""
        if rcls == "native":
            return make_native()
        try:
            obj = make_repr()
            ctx.ok("C04.returns")
            return obj
        except Exception as e:
            obj = make_native()   # raises as well -> not a matter of representation (caught by the caller)
            ctx.raised("%s[%s]" % (site, rcls), e)
            ctx.violation("C04.returns", site, "accepts every in-memory representation of the same values (raised %s)" % type(e).__name__,
                          rcls, what="%s raised %s: %s" % (site, type(e).__name__, str(e)[:160]), witness=dict(wit_r, object=what), coords=coords)
            ctx.ok("C04.returns")
            return obj
    try:
        model = build("model coefficients", lambda: mk_model(kind, beta, u_misc, u_a, u_d, trait, R),
                      lambda: mk_model(kind, beta, u_misc, u_a, u_d, trait),
                      ("DenseAdditiveLinearGenomicModel" if kind == "A" else "DenseAdditiveDominanceLinearGenomicModel") + ".__init__")
        pg = build("phased calls", lambda: mk_phased(R(mat), taxa, taxa_grp, vmeta, keep=True), lambda: mk_phased(mat, taxa, taxa_grp, vmeta),
                   "DensePhasedGenotypeMatrix.__init__")
        ug = build("dosages", lambda: mk_unphased(R(dos.astype("int8")), ploidy, taxa, taxa_grp, vmeta, keep=True),
                   lambda: mk_unphased(dos, ploidy, taxa, taxa_grp, vmeta), "DenseGenotypeMatrix.__init__")
    except Exception as e:
        ctx.raised("construct model/genotype matrix", e)
        return
    arr = R(dos.astype(adt)) if rcls != "native" else dos.astype(adt)
    forms = {"phased": pg, "unphased": ug, "array": arr}
    u_d_eff = None if kind == "A" else (numpy.zeros((p, t)) if u_d is None else u_d)
    het = O.hetind(dos, ploidy)
    # covariates / responses for predict and score
    X = numpy.concatenate([numpy.ones((n, 1)), g.normal(size=(n, q - 1))], axis=1)
    if rcls != "native":
        X = R(X)
    # ---------------- oracle
    b0 = O.intercept(beta)
    bvpart = O.marker_part(dos, u_a)
    gvpart = bvpart if kind == "A" else O.marker_part(dos, u_a, het, u_d_eff)
    S = O.value_scale(beta, u_a, u_d_eff, ploidy)
    SX = O.value_scale(beta, u_a, u_d_eff, ploidy, X)
    exp = {"gebv": bvpart + b0[None, :], "gegv": gvpart + b0[None, :], "tbv": bvpart + b0[None, :],
           "predict": X @ beta + gvpart}
    ycls = str(g.choice(["exact", "noisy", "unrelated"]))
    Y = {"exact": exp["predict"].copy(), "noisy": exp["predict"] + g.normal(size=(n, t)) * (0.1 * S + 0.1),
         "unrelated": g.normal(size=(n, t)) * 5 + 3}[ycls]
    sse, sst = O.rsq(Y, exp["predict"])
    score_ok = n >= 2 and bool(numpy.all(sst > 1e-6 * (numpy.abs(Y).max() + 1.0) ** 2))
    # the response reaches score() as a plain array or as a breeding-value matrix object; an object need not be centred on
    # its own taxa (constructor-built: raw values with location 0 / scale 1, or location/scale of some base population)
    ptform = str(g.choice(PTFORMS)) if score_ok else "array"
    ploc = g.normal(size=t) * 3 + 1.0
    psc = g.uniform(0.5, 3.0, t)
    if ptform == "object/arbitrary location+scale":
        Y = psc[None, :] * ((Y - ploc[None, :]) / psc[None, :]) + ploc[None, :]   # the values the object stands for
        sse, sst = O.rsq(Y, exp["predict"])
    Yobj = Y if rcls == "native" else R(Y)
    if ptform != "array":
        try:
            Yobj = mk_pheno(ptform, Y, taxa, taxa_grp, trait, ploc, psc)
        except Exception as e:
            ctx.raised("construct DenseBreedingValueMatrix", e); Yobj = Y; ptform = "array"
    S2 = S * S
    vA, vG = O.popvar(bvpart), O.popvar(gvpart)
    va, vazero = O.genic_var(u_a, count, n, ploidy)
    with numpy.errstate(all="ignore"):
        bul = numpy.where(vazero, numpy.nan, vA / numpy.where(vazero, 1.0, va))
        bultol = numpy.where(vazero, 1.0, O.tol(S2) * (1.0 + numpy.abs(bul)) / numpy.where(vazero, 1.0, va))
        r2 = 1.0 - sse / sst if score_ok else None
        SY2 = (float(numpy.abs(Y).max()) + SX) ** 2
        r2tol = (O.tol(SY2 * n) * (1.0 + numpy.abs(r2)) / sst) if score_ok else None
    exp.update({"var_A": vA, "var_G": vG, "var_a": va, "bulmer": bul, "score": r2})
    tabs = O.allele_tables(u_a, count, n, ploidy)
    ftol = {"gebv": O.tol(S), "gegv": O.tol(S), "tbv": O.tol(S), "predict": O.tol(SX), "var_A": O.tol(S2), "var_G": O.tol(S2),
            "var_a": O.tol(S2), "bulmer": bultol, "score": r2tol, "fafreq": O.tol(1.0), "dafreq": O.tol(1.0)}
    zcls = "genic variance zero" if bool(vazero.any()) else "genic variance positive"
    wit0 = {"case": c, "ntaxa": n, "nmarker": p, "ploidy": ploidy, "genotype_class": gcls, "effect_class": ucls,
            "dominance_class": dcls, "nfixed": q, "ntrait": t, "ploidy_x_ntaxa": tot, "array_representation": rcls}

    def judge(name, fname, got, site):
        """Compare one collected output with the oracle; returns True when the output is usable for cross-form checks."""
        icls = "%s/%s" % (icls_in, "array" if fname == "array" else "genotype matrix")
        if name in ROWS:
            vals, otaxa, ogrp, otrait = got
            ok, w = fclose(vals, exp[name], ftol[name])
            ctx.check("C04.value", ok, site, "per-taxon value == intercept + dosage*effects", icls,
                      witness=dict(wit0, output=name, form=fname, got=brief(vals), expected=brief(exp[name])), coords=coords)
            ctx.maxnote("value slack (|diff|/tol)", w if ok else 0.0)
            if fname != "array":
                ctx.check("C04.labels", same(otaxa, taxa) and same(ogrp, taxa_grp), site, "output taxa/taxa_grp == input's",
                          "taxa labels %s" % ["absent", "present", "present", "present"][lab],
                          witness=dict(wit0, output=name, form=fname, got_taxa=brief(otaxa), taxa=brief(taxa),
                                       got_grp=brief(ogrp), taxa_grp=brief(taxa_grp)), coords=coords)
            ctx.check("C04.labels", same(otrait, trait), site, "output trait == model's", "trait labels %s" % ("absent" if trait is None else "present"),
                      witness=dict(wit0, output=name, form=fname, got=brief(otrait), trait=brief(trait)), coords=coords)
        elif name in ("var_A", "var_G", "var_a"):
            ok, w = fclose(got, exp[name], ftol[name])
            ctx.check("C04.stats.var", ok, site, "== definition", icls,
                      witness=dict(wit0, output=name, form=fname, got=brief(got), expected=brief(exp[name])), coords=coords)
            ctx.maxnote("variance slack (|diff|/tol)", w if ok else 0.0)
        elif name == "bulmer":
            gotf = numpy.asarray(got, dtype=float)
            okshape = gotf.shape == bul.shape
            nanok = okshape and numpy.array_equal(numpy.isnan(gotf), vazero)
            ctx.check("C04.stats.bulmer", bool(nanok), site, "NaN exactly when the genic variance is zero",
                      "%s/%s" % (zcls, "array" if fname == "array" else "genotype matrix"),
                      witness=dict(wit0, form=fname, got=brief(got), expected=brief(bul), genic=brief(va)), coords=coords)
            if nanok:
                ok, w = fclose(gotf, bul, bultol)
                ctx.check("C04.stats.bulmer", ok, site, "== var_A / var_a", icls,
                          witness=dict(wit0, form=fname, got=brief(got), expected=brief(bul)), coords=coords)
                ctx.maxnote("bulmer slack (|diff|/tol)", w if ok else 0.0)
        elif name == "score":
            ok, w = fclose(got, r2, r2tol)
            ctx.check("C04.stats.score", ok, site, "== 1 - SSE/SST", icls + "/response " + ptform,
                      witness=dict(wit0, form=fname, got=brief(got), expected=brief(r2), response_class=ycls), coords=coords)
            ctx.maxnote("score slack (|diff|/tol)", w if ok else 0.0)
        elif name in TABLES:
            e = tabs[name]
            if name in ("fafreq", "dafreq"):
                ok, _ = fclose(got, e, ftol[name])
            else:
                ok = exact(got, e)
            ctx.check("C04.stats.counts", ok, site, "== definition on raw genotypes", "%s/%s" % (mcls, "genotype matrix"),
                      witness=dict(wit0, output=name, form=fname, got=brief(got), expected=brief(e), acount=brief(count),
                                   u_a=brief(u_a)), coords=coords)

    # ---------------- drive every form
    res = {}
    twin = [None]
    held = []   # every raw output is kept until the end of the case and re-judged there (C04.history)
    for fname, F in forms.items():
        dom_ok = not (fname == "array" and kind == "AD" and ploidy != 2)
        res[fname] = collect(model, F, fname, ploidy, dom_ok, X, Yobj if score_ok else None, has_misc, held)
    names = sorted(set().union(*[set(r) for r in res.values()]))
    for name in names:
        have = {f: res[f][name] for f in res if name in res[f]}
        ok_forms = [f for f, v in have.items() if not isinstance(v, Exception)]
        bad_forms = [f for f, v in have.items() if isinstance(v, Exception)]
        site = defsite(model, "gebv" if name == "tbv" else name)
        if name == "tbv":
            site = "TrueBreedingValue.estimate"
        for f in bad_forms:
            ctx.raised("%s(%s)" % (site, "array" if f == "array" else "genotype matrix"), have[f])
        if rcls != "native":
            if bad_forms and not ok_forms:
                if twin[0] is None:
                    try:
                        KEEP_REPR[0] = False
                        twin[0] = collect(mk_model(kind, beta, u_misc, u_a, u_d, trait), mk_phased(mat, taxa, taxa_grp, vmeta), "phased",
                                          ploidy, True, numpy.array(X), None if not score_ok else numpy.array(Y), has_misc)
                    except Exception:
                        twin[0] = {}
                    finally:
                        KEEP_REPR[0] = True
                if name in twin[0] and not isinstance(twin[0][name], Exception):
                    ctx.violation("C04.returns", site, "accepts every in-memory representation of the same values (raised %s)"
                                  % type(have[bad_forms[0]]).__name__, rcls, witness=dict(wit0, output=name, raised=brief(have[bad_forms[0]])),
                                  coords=coords)
            ctx.ok("C04.returns")
        if ok_forms and bad_forms:  # equivalence policy: one form raising while another succeeds
            ctx.violation("C04.forms.input", site, "raises for one input form, succeeds for another",
                          "%s/%s raises" % (icls_in, "array" if "array" in bad_forms else "genotype matrix"),
                          witness=dict(wit0, output=name, raised={f: brief(have[f]) for f in bad_forms}), coords=coords)
            ctx.ok("C04.forms.input")
        for f in ok_forms:
            judge(name, f, have[f], site)
        # cross-form agreement (library output against library output)
        if "phased" in ok_forms:
            ref = have["phased"]
            for f in ok_forms:
                if f == "phased":
                    continue
                a = ref[0] if name in ROWS else ref
                b = have[f][0] if name in ROWS else have[f]
                if name in TABLES and name not in ("fafreq", "dafreq"):
                    ok = exact(a, b)
                else:
                    ok, _ = fclose(b, a, ftol[name])
                ctx.check("C04.forms.input", ok, site, "%s form == phased form" % f, zcls if name == "bulmer" else icls_in,
                          witness=dict(wit0, output=name, phased=brief(a), other=brief(b)), coords=coords)
    # ---------------- optional labels change nothing: the labelled matrix against its unlabelled twin (bare calls only)
    if vmeta or taxa is not None:
        tform = "phased" if gl.random() < 0.4 else "unphased"
        lcl = "%s/%s, %s" % (tform, mkcls, "other optional variant labels" if [k for k in vmeta if k != "vrnt_mask"] else "no other variant labels")
        try:
            bare = mk_phased(mat, None, None, {}) if tform == "phased" else mk_unphased(dos, ploidy, None, None, {})
            rb = collect(model, bare, tform + "/unlabelled twin", ploidy, True, X, Yobj if score_ok else None, has_misc, held)
        except Exception as e:
            ctx.raised("construct unlabelled twin", e); rb = {}
        for name, gb in rb.items():
            ref = res[tform].get(name)
            site = "TrueBreedingValue.estimate" if name == "tbv" else defsite(model, name)
            if ref is None or (isinstance(ref, Exception) and isinstance(gb, Exception)):
                continue
            if isinstance(ref, Exception) or isinstance(gb, Exception):
                ctx.violation("C04.forms.labels", site, "raises with or without optional labels only", lcl,
                              witness=dict(wit0, output=name, labelled=brief(ref), unlabelled=brief(gb)), coords=coords)
                ctx.ok("C04.forms.labels"); continue
            a_ = ref[0] if name in ROWS else ref
            b_ = gb[0] if name in ROWS else gb
            if name in TABLES and name not in ("fafreq", "dafreq"):
                ok = exact(a_, b_)
            else:
                ok, _ = fclose(a_, b_, ftol[name])
            ctx.check("C04.forms.labels", ok, site, "labelled matrix == its unlabelled twin", lcl,
                      witness=dict(wit0, output=name, labels=sorted(vmeta), labelled=brief(a_), unlabelled=brief(b_)), coords=coords)
    # ---------------- *_numpy entry points (raw arrays only)
    Zf = dos.astype(float)
    Zmisc = g.normal(size=(n, u_misc.shape[0])) if has_misc else numpy.zeros((n, 0))
    misc = Zmisc @ u_misc if has_misc else 0.0
    npcalls = [("gebv_numpy", lambda: model.gebv_numpy(arr.copy()), bvpart, O.tol(S))]
    if kind == "A":
        npcalls.append(("gegv_numpy", lambda: model.gegv_numpy(arr.copy()), bvpart, O.tol(S)))
        npcalls.append(("predict_numpy", lambda: model.predict_numpy(X.copy(), numpy.concatenate([Zmisc, Zf], axis=1)),
                        X @ beta + misc + bvpart, O.tol(SX + numpy.abs(misc).max() if has_misc else SX)))
    else:
        ZD = numpy.concatenate([Zf, het.astype(float)], axis=1)
        npcalls.append(("gegv_numpy", lambda: model.gegv_numpy(ZD.copy()), gvpart, O.tol(S)))
        npcalls.append(("predict_numpy", lambda: model.predict_numpy(X.copy(), numpy.concatenate([Zmisc, ZD], axis=1)),
                        X @ beta + misc + gvpart, O.tol(SX + numpy.abs(misc).max() if has_misc else SX)))
    for nm, fn, e, tl in npcalls:
        site = defsite(model, nm)
        try:
            got = fn()
        except Exception as ex:
            ctx.raised(site, ex); continue
        ok, w = fclose(got, e, tl)
        ctx.check("C04.value", ok, site, "per-taxon value == design-matrix row * effects", icls_in + "/array",
                  witness=dict(wit0, output=nm, got=brief(got), expected=brief(e)), coords=coords)
    # ---------------- taxon permutation
    perm = g.permutation(n)
    pform = "phased" if g.random() < 0.5 else "unphased"
    ptaxa = None if taxa is None else taxa[perm]
    pgrp = None if taxa_grp is None else taxa_grp[perm]
    try:
        Fp = mk_phased(mat[:, perm, :], ptaxa, pgrp, vmeta) if pform == "phased" else mk_unphased(dos[perm], ploidy, ptaxa, pgrp, vmeta)
        Yp = None
        if score_ok:
            Yp = Y[perm]
            if ptform != "array":
                Yp = mk_pheno(ptform, Y[perm], ptaxa, pgrp, trait, ploc, psc)
        rp = collect(model, Fp, pform + "/permuted", ploidy, True, X[perm], Yp, has_misc, held)
    except Exception as e:
        ctx.raised("construct permuted genotype matrix", e); rp = {}
    for name, gotp in rp.items():
        ref = res[pform].get(name)
        site = "TrueBreedingValue.estimate" if name == "tbv" else defsite(model, name)
        if isinstance(ref, Exception) and isinstance(gotp, Exception):
            continue
        if isinstance(ref, Exception) or isinstance(gotp, Exception) or ref is None:
            ctx.violation("C04.forms.perm", site, "raises for one taxon order, succeeds for another", icls_in,
                          witness=dict(wit0, output=name, original=brief(ref), permuted=brief(gotp)), coords=coords)
            ctx.ok("C04.forms.perm"); continue
        if name in ROWS:
            ok, _ = fclose(gotp[0], ref[0][perm] if numpy.shape(ref[0])[:1] == (n,) else ref[0], ftol[name])
            ok = ok and same(gotp[1], ptaxa) and same(gotp[2], pgrp)
            rel = "rows and labels permute together"
        elif name in TABLES and name not in ("fafreq", "dafreq"):
            ok = exact(gotp, ref); rel = "population table invariant to taxon order"
        else:
            ok, _ = fclose(gotp, ref, ftol[name]); rel = "population summary invariant to taxon order"
        ctx.check("C04.forms.perm", ok, site, rel, icls_in,
                  witness=dict(wit0, output=name, form=pform, original=brief(ref[0] if name in ROWS else ref),
                               permuted=brief(gotp[0] if name in ROWS else gotp), perm=brief(perm)), coords=coords)
    # ---------------- marker partition
    k = int(min(p, g.integers(1, 5)))
    if p >= 1:
        assign = g.permutation(numpy.r_[numpy.arange(k), g.integers(0, k, p - k)])
        contiguous = g.random() < 0.4
        if contiguous:
            assign = numpy.sort(assign)
        sform = "phased" if g.random() < 0.5 else "unphased"
        tot_gebv = numpy.zeros((n, t)); tot_gegv = numpy.zeros((n, t)); tot_np = numpy.zeros((n, t)); tot_va = numpy.zeros(t)
        tabparts = {nm: numpy.full((p, t), -7, dtype=float) for nm in TABLES}
        fail = None
        for j in range(k):
            idx = numpy.flatnonzero(assign == j)
            bj = beta if j == 0 else numpy.zeros_like(beta)
            try:
                mj = mk_model(kind, bj, None, u_a[idx], None if u_d is None else u_d[idx], trait)
                Fj = (mk_phased(mat[:, :, idx], taxa, taxa_grp, sub_vmeta(vmeta, idx)) if sform == "phased"
                      else mk_unphased(dos[:, idx], ploidy, taxa, taxa_grp, sub_vmeta(vmeta, idx)))
                tot_gebv += mj.gebv(Fj).unscale()
                tot_gegv += mj.gegv(Fj).unscale()
                tot_np += mj.gebv_numpy(arr[:, idx].copy())
                tot_va += mj.var_a(Fj)
                for nm in TABLES:
                    tabparts[nm][idx] = numpy.asarray(getattr(mj, nm)(Fj), dtype=float)
            except Exception as e:
                fail = e; break
        whole = res[sform]
        needed = ["gebv", "gegv", "var_a"] + TABLES
        whole_bad = [nm for nm in needed if isinstance(whole.get(nm), Exception) or whole.get(nm) is None]
        site = defsite(model, "gebv")
        scls = "%s/%s" % (icls_in, "single part" if k == 1 else "several parts")
        if fail is not None and whole_bad:
            ctx.raised("partitioned prediction", fail)
        elif fail is not None or whole_bad:
            ctx.violation("C04.forms.split", site, "raises for parts or whole only", scls,
                          witness=dict(wit0, parts=k, part_error=brief(fail) if fail is not None else None, whole_failed=whole_bad),
                          coords=coords)
            ctx.ok("C04.forms.split")
        else:
            w = dict(wit0, parts=k, form=sform, assignment=brief(assign))
            ok, _ = fclose(tot_gebv, whole["gebv"][0], O.tol(S) * (k + 1))
            ctx.check("C04.forms.split", ok, site, "sum of partial breeding values == whole", scls,
                      witness=dict(w, summed=brief(tot_gebv), whole=brief(whole["gebv"][0])), coords=coords)
            ok, _ = fclose(tot_gegv, whole["gegv"][0], O.tol(S) * (k + 1))
            ctx.check("C04.forms.split", ok, defsite(model, "gegv"), "sum of partial genotypic values == whole", scls,
                      witness=dict(w, summed=brief(tot_gegv), whole=brief(whole["gegv"][0])), coords=coords)
            ok, _ = fclose(tot_np, bvpart, O.tol(S) * (k + 1))
            ctx.check("C04.forms.split", ok, defsite(model, "gebv_numpy"), "sum of partial marker scores == whole", scls,
                      witness=dict(w, summed=brief(tot_np), whole=brief(bvpart)), coords=coords)
            ok, _ = fclose(tot_va, whole["var_a"], O.tol(S2) * (k + 1))
            ctx.check("C04.forms.split", ok, defsite(model, "var_a"), "genic variance additive over marker parts", scls,
                      witness=dict(w, summed=brief(tot_va), whole=brief(whole["var_a"])), coords=coords)
            okall = all(fclose(tabparts[nm], numpy.asarray(whole[nm], dtype=float), 1e-12)[0] for nm in TABLES)
            ctx.check("C04.forms.split", okall, defsite(model, "facount"), "allele tables of the parts concatenate to the whole", scls,
                      witness=w, coords=coords)
    # ---------------- inputs made by the library's own operations (parts, subsets, copies, unions)
    if big is None or c % 2:
        derived_inputs(ctx, g, coords, wit0, kind, ploidy, mat, taxa, taxa_grp, vmeta, beta, u_a, u_d, trait,
                       {"phased": pg, "unphased": ug}, 2 if big is None else 1)
    # ---------------- history: one long-lived model queried again and again through the array entry points
    # same-shaped inputs with different contents (taxon permutation, allele complement, one buffer rewritten in place), a
    # different shape in between, then the first input again; every result is kept and judged when it is returned and again
    # after all later calls.
    hdt = str(g.choice([adt, adt, "float64", "int8"]))
    m2 = max(1, n // 2)
    buf = dos.astype(hdt)
    ident = numpy.arange(n)
    steps = [("first", dos, buf, False, ident), ("same buffer rewritten in place", dos[perm], buf, True, perm),
             ("same shape, other population", ploidy - dos, None, False, ident), ("other shape", dos[:m2], None, False, ident[:m2]),
             ("first again", dos, None, False, ident)]
    if g.random() < 0.3:
        steps.insert(3, ("same shape, other dtype", dos[perm], "float64" if hdt != "float64" else "int64", False, perm))
    hist = []

    def design(D, dt):
        Z = numpy.asarray(D).astype(dt)
        if kind == "A":
            return Z, Z
        return Z, numpy.concatenate([Z, O.hetind(D, ploidy).astype(Z.dtype)], axis=1)

    for label, D, where, inplace, rows in steps:
        dt = where if isinstance(where, str) else hdt
        if inplace:
            buf[...] = D.astype(hdt)
            Za = buf
            Zg = Za if kind == "A" else numpy.concatenate([Za, O.hetind(D, ploidy).astype(Za.dtype)], axis=1)
        elif where is buf:
            Za, Zg = design(D, dt)
            buf = Za
        else:
            Za, Zg = design(D, dt)
        eb = O.marker_part(D, u_a)
        eg = eb if kind == "A" else O.marker_part(D, u_a, O.hetind(D, ploidy), u_d_eff)
        Xs = X[rows]
        calls = [("gebv_numpy", lambda: model.gebv_numpy(Za), eb, O.tol(S)), ("gegv_numpy", lambda: model.gegv_numpy(Zg), eg, O.tol(S))]
        if not has_misc:
            calls.append(("predict_numpy", lambda: model.predict_numpy(Xs, Zg.astype(float)), Xs @ beta + eg, O.tol(SX)))
        if D.shape[0] == n and label != "same shape, other population":   # population summaries of the same population
            cnt = O.allele_count(D)
            pfreq = cnt / float(tot)
            calls += [("var_A_numpy", lambda: model.var_A_numpy(Za), vA, O.tol(S2)),
                      ("var_G_numpy", lambda: model.var_G_numpy(Zg), vG, O.tol(S2)),
                      ("var_a_numpy", lambda: model.var_a_numpy(pfreq, ploidy), va, O.tol(S2)),
                      ("bulmer_numpy", lambda: model.bulmer_numpy(Za, pfreq, ploidy), bul, bultol)]
            if score_ok and not has_misc:
                Ys = Y[rows]
                calls.append(("score_numpy", lambda: model.score_numpy(Ys, Xs, Zg.astype(float)), r2, r2tol))
        for nm, fn, e, tl in calls:
            site = defsite(model, nm)
            try:
                got = fn()
            except Exception as ex:
                ctx.raised(site, ex); continue
            ok, _ = fclose(got, e, tl)
            cl = "C04.value" if nm in ("gebv_numpy", "gegv_numpy", "predict_numpy") else (
                "C04.stats.bulmer" if nm == "bulmer_numpy" else "C04.stats.score" if nm == "score_numpy" else "C04.stats.var")
            ctx.check(cl, ok, site, "== definition (array entry point, repeated use of one model)", icls_in + "/array",
                      witness=dict(wit0, output=nm, step=label, dtype=str(Za.dtype), got=brief(got), expected=brief(e)), coords=coords)
            h = Held(nm, "history:" + label, got)
            h.inputs = [Za, Zg]
            hist.append(h)
    # (1) every result handed out earlier still has the value it had when it was returned
    params = [("beta", model.beta), ("u_a", model.u_a), ("u_misc", model.u_misc)] + ([("u_d", model.u_d)] if kind == "AD" else [])
    inputs = [pg.mat, ug.mat, arr, X] + ([Y] if isinstance(Y, numpy.ndarray) else [])
    for h in held + hist:
        site = "TrueBreedingValue.estimate" if h.name == "tbv" else defsite(model, h.name)
        hcls = "array entry point" if h.fname.startswith("history") else ("array" if h.fname == "array" else "genotype matrix")
        ctx.check("C04.history", h.intact(), site, "result returned earlier is unchanged by later calls on the same model", hcls,
                  witness=dict(wit0, output=h.name, obtained_in=h.fname, now=brief(h.value()), when_returned=brief(h.snap)), coords=coords)
        # (2) a result is the caller's: it is not a view of the model's coefficients, of an input, or of another result
        arrs = h.arrays()
        if arrs:
            al = [pn for pn, pa in params for a in arrs if overlaps(a, pa)]
            ctx.check("C04.history", not al, site, "result shares no memory with the model's coefficient arrays", hcls,
                      witness=dict(wit0, output=h.name, obtained_in=h.fname, aliases=al), coords=coords)
            ali = any(overlaps(a, b) for a in arrs for b in inputs + getattr(h, "inputs", []))
            ctx.check("C04.history", not ali, site, "result shares no memory with the input it was computed from", hcls,
                      witness=dict(wit0, output=h.name, obtained_in=h.fname), coords=coords)
    for i, h in enumerate(hist):
        for h2 in hist[i + 1:]:
            if h2.name == h.name and any(overlaps(a, b) for a in h.arrays() for b in h2.arrays()):
                ctx.violation("C04.history", defsite(model, h.name), "two results of the same entry point share memory", "array entry point",
                              witness=dict(wit0, output=h.name, first=h.fname, second=h2.fname), coords=coords)
                break
    # the inputs must not have been modified by any of the calls (otherwise the comparisons above are meaningless)
    def untouched():
        return (numpy.array_equal(pg.mat, mat) and numpy.array_equal(ug.mat, dos) and numpy.array_equal(arr, dos.astype(adt))
                and numpy.array_equal(model.u_a, u_a) and numpy.array_equal(model.beta, beta)
                and (kind == "A" or numpy.array_equal(model.u_d, u_d_eff))
                and (u_misc is None or numpy.array_equal(model.u_misc, u_misc)))
    if not untouched():
        ctx.violation("C04.value", type(model).__name__, "model parameters and genotype inputs unchanged by prediction", icls_in,
                      witness=wit0, coords=coords)
        return
    # (3) the caller overwrites the results it was given; the model and the inputs are unaffected and answer as before
    for h in held + hist:
        for a in h.arrays():
            if a.flags.writeable and a.size:
                try:
                    a[...] = 77 if a.dtype.kind in "iu" else (True if a.dtype.kind == "b" else -12345.678)
                except Exception:
                    pass
    fresh_ok = untouched()
    try:
        f1 = model.gebv_numpy(arr.copy()); f2 = numpy.array(model.gebv(pg).unscale()); f3 = model.var_A(ug)
        fresh_ok = (fresh_ok and fclose(f1, bvpart, O.tol(S))[0] and fclose(f2, exp["gebv"], O.tol(S))[0] and fclose(f3, vA, O.tol(S2))[0])
    except Exception as ex:
        ctx.raised("fresh prediction after results were overwritten", ex)
    ctx.check("C04.history", fresh_ok, defsite(model, "gebv_numpy"),
              "model, inputs and fresh predictions unaffected when the caller overwrites earlier results", icls_in, witness=wit0, coords=coords)
    # (4) coefficients replaced on the living model - or on a copy of it that goes on living - again and again: after every
    # round each entry point answers for the coefficients the model holds *now*.  A round replaces a random non-empty subset of
    # beta / u_a / u_d / u_misc, in random order, through the setters or by editing the arrays in place; every entry point was
    # used before each round (above / by the previous round), so an answer put together from remembered pieces shows.
    import copy as _copy
    cur = {"beta": beta, "u_a": u_a, "u_d": u_d_eff, "u_misc": u_misc}
    live = model
    lineage = "constructed model"
    pnames = ["beta", "u_a"] + (["u_d"] if kind == "AD" else []) + (["u_misc"] if has_misc else [])
    ZDn = Zf if kind == "A" else ZD

    def judge_all(obj, co, rel, icls, wx):
        b, ua, ud, um = co["beta"], co["u_a"], co["u_d"], co["u_misc"]
        b0n = O.intercept(b)
        ebn = O.marker_part(dos, ua)
        egn = ebn if kind == "A" else O.marker_part(dos, ua, het, ud)
        Sn = O.value_scale(b, ua, ud, ploidy); SXn = O.value_scale(b, ua, ud, ploidy, X); Sn2 = Sn * Sn
        miscn = Zmisc @ um if has_misc else 0.0
        mx = float(numpy.abs(miscn).max()) if has_misc else 0.0
        tn = O.allele_tables(ua, count, n, ploidy)
        van, vzn = O.genic_var(ua, count, n, ploidy)
        vAn, vGn = O.popvar(ebn), O.popvar(egn)
        with numpy.errstate(all="ignore"):
            buln = numpy.where(vzn, numpy.nan, vAn / numpy.where(vzn, 1.0, van))
            btn = numpy.where(vzn, 1.0, O.tol(Sn2) * (1.0 + numpy.abs(buln)) / numpy.where(vzn, 1.0, van))
        F = pg if g.random() < 0.5 else ug
        pfreq = count / float(tot)
        predn = X @ b + egn
        calls = [("gebv_numpy", lambda: obj.gebv_numpy(arr.copy()), ebn, O.tol(Sn)),
                 ("gegv_numpy", lambda: obj.gegv_numpy(arr.copy() if kind == "A" else ZD.copy()), egn, O.tol(Sn)),
                 ("predict_numpy", lambda: obj.predict_numpy(X.copy(), numpy.concatenate([Zmisc, ZDn], axis=1)), predn + miscn, O.tol(SXn + mx)),
                 ("gebv", lambda: obj.gebv(F).unscale(), ebn + b0n[None, :], O.tol(Sn)),
                 ("gegv", lambda: obj.gegv(F).unscale(), egn + b0n[None, :], O.tol(Sn)),
                 ("var_A", lambda: obj.var_A(F), vAn, O.tol(Sn2)), ("var_G", lambda: obj.var_G(F), vGn, O.tol(Sn2)),
                 ("var_a", lambda: obj.var_a(F), van, O.tol(Sn2)), ("bulmer", lambda: obj.bulmer(F), buln, btn),
                 ("var_A_numpy", lambda: obj.var_A_numpy(arr.copy()), vAn, O.tol(Sn2)),
                 ("var_G_numpy", lambda: obj.var_G_numpy(arr.copy() if kind == "A" else ZD.copy()), vGn, O.tol(Sn2)),
                 ("var_a_numpy", lambda: obj.var_a_numpy(pfreq, ploidy), van, O.tol(Sn2)),
                 ("bulmer_numpy", lambda: obj.bulmer_numpy(arr.copy(), pfreq, ploidy), buln, btn)]
        if not has_misc:
            calls.append(("predict", lambda: obj.predict(X.copy(), F).unscale(), predn, O.tol(SXn)))
            if score_ok:
                sse_n, sst_n = O.rsq(Y, predn)
                with numpy.errstate(all="ignore"):
                    r2n = 1.0 - sse_n / sst_n
                    r2t = O.tol((float(numpy.abs(Y).max()) + SXn) ** 2 * n) * (1.0 + numpy.abs(r2n)) / sst_n
                calls.append(("score", lambda: obj.score(Yobj, X.copy(), F), r2n, r2t))
                calls.append(("score_numpy", lambda: obj.score_numpy(numpy.array(Y), X.copy(), ZDn.copy()), r2n, r2t))
        for nm in TABLES:
            calls.append((nm, (lambda nm=nm: getattr(obj, nm)(F)), tn[nm], O.tol(1.0) if nm in ("fafreq", "dafreq") else None))
        for nm, fn, e, tl in calls:
            site = defsite(obj, nm)
            try:
                got = fn()
            except Exception as ex:
                ctx.raised("%s after coefficient update" % site, ex); continue
            ok = exact(got, e) if tl is None else fclose(got, e, tl)[0]
            ctx.check("C04.history.update", ok, site, rel, icls,
                      witness=dict(wit0, output=nm, got=brief(got), expected=brief(e), **wx), coords=coords)

    def assign(obj, nm, val, how):
        if how == "in place":
            getattr(obj, nm)[...] = val
            return
        if rcls != "native":
            try:
                setattr(obj, nm, R(val))
            except Exception as e:
                setattr(obj, nm, val.copy())   # native arrays are accepted
                ctx.raised("%s[%s]" % (defsite(obj, nm), rcls), e)
                ctx.violation("C04.returns", defsite(obj, nm) + " setter", "accepts every in-memory representation of the same values "
                              "(raised %s)" % type(e).__name__, rcls, witness=dict(wit0, raised=brief(e)), coords=coords)
            ctx.ok("C04.returns")
        else:
            setattr(obj, nm, val.copy())

    nround = 2 + int(g.random() < 0.35)
    try:
        for rd in range(nround):
            # now and then a copy of the model is taken first; either the copy or the original goes on living and is updated,
            # the other one is left behind and must go on answering for the coefficients it was left with
            behind = None
            if g.random() < 0.3:
                cop = str(g.choice(["copy.copy", "copy.deepcopy", "copy()", "deepcopy()"]))
                C = {"copy.copy": lambda: _copy.copy(live), "copy.deepcopy": lambda: _copy.deepcopy(live),
                     "copy()": lambda: live.copy(), "deepcopy()": lambda: live.deepcopy()}[cop]()
                deep = "deep" in cop
                old = dict(cur)
                if g.random() < 0.5:
                    behind = (live, "original after its copy was updated", old, deep); live = C; lineage = "copy of a model"
                else:
                    behind = (C, "copy after its original was updated", old, deep)
            pick = [nm for nm in pnames if g.random() < 0.5] or [str(g.choice(pnames))]
            pick = [pick[i] for i in g.permutation(len(pick))]
            how = str(g.choice(["setter", "in place"]))
            if not all(getattr(live, nm).flags.writeable for nm in pick):
                how = "setter"      # the caller cannot edit read-only coefficient arrays in place
            new = {}
            for nm in pick:
                if nm == "beta":
                    new[nm] = g.normal(size=(q, t)) * 5
                elif nm == "u_misc":
                    new[nm] = g.normal(size=u_misc.shape)
                else:
                    new[nm] = gen_effects(g, str(g.choice(["gauss", "ints", "gauss-zeros", "negative", "zero"])), p, t, fixed)
            for nm in pick:
                assign(live, nm, new[nm], how)
            cur = dict(cur, **new)
            ucl = "coefficients replaced through the %s" % ("setters" if how == "setter" else "arrays in place")   # lineage: witness only
            wx = {"round": rd, "replaced": list(pick), "how": how, "model_is": lineage}
            judge_all(live, cur, "answers follow the model's current coefficients after an update", ucl, wx)
            if behind is not None and (behind[3] or how == "setter"):   # a shallow copy may share its arrays with the original
                judge_all(behind[0], behind[2], "answers of the model left behind are those of the coefficients it was left with",
                          behind[1], dict(wx, copied_by=cop))
    except Exception as ex:
        ctx.raised("coefficient update on a living model", ex)


# ---------------------------------------------------------------- fit family
_REC = []
_INSTALLED = [False]


def install_hook(ctx):
    if _INSTALLED[0]:
        return
    import pybrops.model.gmod.rrBLUPModel0 as M
    orig = M.rrBLUP_ML0
    assert boot.under_repo(orig), "rrBLUP_ML0 is not the working tree's"

    def on_call(a, k, r):
        y = a[0] if len(a) > 0 else k.get("y")
        Z = a[1] if len(a) > 1 else k.get("Z")
        _REC.append((numpy.array(y, dtype=float, copy=True), numpy.array(Z, dtype=float, copy=True), r))
    hooks.rebind(orig, hooks.recording(orig, "rrBLUP_ML0", on_call))
    _INSTALLED[0] = True


def gen_training(g):
    regime = str(g.choice(["n>p", "n>p", "n barely > p", "n<=p"]))
    if regime == "n>p":
        p = int(g.integers(2, 41)); n = int(g.integers(max(8, p + 4), 121))
    elif regime == "n barely > p":
        p = int(g.integers(7, 61)); n = p + int(g.integers(1, 4))
    else:
        n = int(g.integers(8, 61)); p = int(g.integers(n, 61)) if n < 60 else 60
    zcls = str(g.choice(["random", "random", "monomorphic columns", "monomorphic columns", "duplicated columns", "rare", "-1/0/1 coding"]))
    f = g.uniform(0.05, 0.95, p)
    if zcls == "rare":
        f[:] = 0.05
    Z = (g.random((2, n, p)) < f[None, None, :]).sum(0).astype("int64")
    if zcls == "monomorphic columns":
        m = g.random(p) < 0.3
        m[int(g.integers(p))] = True
        if m.all():
            m[int(g.integers(p))] = False
        Z[:, m] = g.integers(0, 3, int(m.sum()))[None, :]
    elif zcls == "duplicated columns":
        for _ in range(max(1, p // 4)):
            a, b = g.integers(0, p, 2)
            Z[:, a] = Z[:, b]
    elif zcls == "-1/0/1 coding":
        Z = Z - 1
    # the property quantifies over training sets with at least one polymorphic marker
    if not numpy.any(Z != Z[0], axis=0).any():
        Z[: n // 2, 0] = Z[0, 0] + 1
    t = int(g.choice([1, 1, 2, 3]))
    ycls = str(g.choice(["signal+noise", "signal+noise", "pure noise", "near-noiseless", "constant trait", "offset 1e6",
                         "scale 1e-3", "scale 1e4"]))
    u = g.normal(size=(p, t)) * (g.random((p, 1)) < 0.5)
    sig = Z @ u
    e = g.normal(size=(n, t))
    sd = float(sig.std()) + 1e-9
    if ycls == "signal+noise":
        Y = sig + e * sd * float(g.choice([0.3, 1.0, 3.0])) + float(g.normal()) * 10
    elif ycls == "pure noise":
        Y = e * 2 + 5
    elif ycls == "near-noiseless":
        Y = sig + e * sd * 1e-4
    elif ycls == "constant trait":
        Y = sig + e * sd; Y[:, int(g.integers(t))] = float(g.choice([0.0, 3.5, -2.0]))
    elif ycls == "offset 1e6":
        Y = sig + e * sd + 1e6
    elif ycls == "scale 1e-3":
        Y = (sig + e * sd) * 1e-3 / sd
    else:
        Y = (sig + e * sd) * 1e4 / sd
    return regime, zcls, ycls, n, p, t, Z, Y


def case_fit(ctx, c):
    from pybrops.model.gmod.rrBLUPModel0 import rrBLUPModel0
    install_hook(ctx)
    g = ctx.rng("fit", c)
    coords = [c, "fit"]
    regime, zcls, ycls, n, p, t, Z, Y = gen_training(g)
    poly = numpy.any(Z != Z[0], axis=0)
    ppoly = int(poly.sum())
    coded012 = zcls != "-1/0/1 coding"
    entry = "numpy"
    if coded012 and ycls != "constant trait" and g.random() < 0.5:
        entry = str(g.choice(["objects/unphased", "objects/phased", "objects/unphased", "objects/phased",
                              "response array + genotype matrix", "response matrix + genotype array"]))
    # labels of the records when they travel in objects: rows of the two objects correspond by position (shared order)
    lcls = "-"
    taxa = None
    if entry != "numpy":
        lcls = str(g.choice(["unique names", "unique names, unsorted", "replicated names", "replicated names", "replicated lines",
                             "one name for all", "no names", "names on genotypes only", "names on responses only"]))
        if lcls in ("replicated names", "replicated lines"):
            r = int(g.choice([2, 3]))
            line = numpy.arange(n) // r
            if g.random() < 0.6:
                line = line[g.permutation(n)]          # replicates scattered over the records
            if lcls == "replicated lines" and len(set(line.tolist())) >= 4:
                first = {}
                for i, l in enumerate(line.tolist()):
                    first.setdefault(l, i)
                Z = Z[[first[l] for l in line.tolist()]]   # replicated records of a line carry the line's genotype
                if not numpy.any(Z != Z[0], axis=0).any():
                    Z[: n // 2, 0] = Z[0, 0] + 1 if Z[0, 0] < 2 else 0
                poly = numpy.any(Z != Z[0], axis=0); ppoly = int(poly.sum())
            taxa = numpy.array(["L%03d" % l for l in line], dtype=object)
        elif lcls == "one name for all":
            taxa = numpy.array(["same"] * n, dtype=object)
        elif lcls == "unique names, unsorted":
            taxa = numpy.array(["r%03d" % i for i in g.permutation(n)], dtype=object)
        else:
            taxa = numpy.array(["r%03d" % i for i in range(n)], dtype=object)
    ptform = str(g.choice(PTFORMS[2:]))
    grp = g.integers(0, 3, n).astype("int64") if g.random() < 0.3 else None
    zdt = str(g.choice(["int8", "int64", "float64"]))
    trait = None if g.random() < 0.4 else numpy.array(["y%d" % i for i in range(t)], dtype=object)
    ctx.case("fit:%s/%s/%s/%s" % (regime, zcls, ycls, entry.split("/")[0]), Z, Y, zdt, entry, lcls, ptform)
    if c % 23 == 0:
        ctx.sample({"family": "fit", "case": c, "nrecords": n, "nmarker": p, "npolymorphic": ppoly, "ntrait": t, "regime": regime,
                    "genotype_class": zcls, "response_class": ycls, "entry": entry, "record_labels": lcls, "response_container": ptform if entry != "numpy" else "array",
                    "Z_head": Z[:4, :8].tolist(), "Y_head": Y[:4].tolist()})
    Ytrain = Y
    gr = ctx.rng("repr", c)
    rcls = str(gr.choice(REPRS)) if (entry == "numpy" and gr.random() < 0.35) else "native"
    del _REC[:]
    try:
        if entry == "numpy":
            if rcls == "native":
                m = rrBLUPModel0.fit_numpy(Y.copy(), None, Z.astype(zdt), trait=trait)
            else:
                try:
                    m = rrBLUPModel0.fit_numpy(represent(gr, Y, rcls), None, represent(gr, Z.astype(zdt), rcls), trait=trait)
                    ctx.ok("C04.returns")
                except Exception as e:
                    del _REC[:]
                    m = rrBLUPModel0.fit_numpy(Y.copy(), None, Z.astype(zdt), trait=trait)   # native arrays are accepted
                    ctx.raised("rrBLUPModel0.fit_numpy[%s]" % rcls, e)
                    ctx.violation("C04.returns", "rrBLUPModel0.fit_numpy", "accepts every in-memory representation of the same values "
                                  "(raised %s)" % type(e).__name__, rcls, what="fit_numpy raised %s: %s" % (type(e).__name__, str(e)[:160]),
                                  witness={"case": c, "array_representation": rcls, "dtype": zdt}, coords=coords)
                    ctx.ok("C04.returns")
        else:
            ytaxa = None if lcls in ("no names", "names on genotypes only") else taxa
            ztaxa = None if lcls in ("no names", "names on responses only") else taxa
            if entry == "response array + genotype matrix":
                pt = Y.copy()
            else:
                loc = g.normal(size=t) + float(Y.mean()); sc = g.uniform(0.5, 3.0, t) * (float(Y.std()) + 1e-6)
                pt = mk_pheno(ptform, Y, ytaxa, None if ytaxa is None else grp, trait, loc, sc)
                Ytrain = numpy.array(pt.unscale(), dtype=float)  # what the object hands to the model as training response
            if entry == "response matrix + genotype array":
                gt = Z.astype(zdt)
            elif entry == "objects/phased" or (entry.startswith("response array") and g.random() < 0.5):
                ph = numpy.zeros((2, n, p), dtype="int8")
                ph[0] = Z >= 1; ph[1] = Z >= 2
                gt = mk_phased(ph, ztaxa, None if ztaxa is None else grp, {})
            else:
                gt = mk_unphased(Z, 2, ztaxa, None if ztaxa is None else grp, {})
            m = rrBLUPModel0.fit(pt, None, gt, trait=trait)
    except Exception as e:
        ctx.raised("rrBLUPModel0.fit[%s]" % ycls, e)
        return
    rec = list(_REC)
    ctx.hook("rrBLUP_ML0", len(rec))
    ctx.check("C04.labels", same(m.trait, trait), "rrBLUPModel0.fit" if entry != "numpy" else "rrBLUPModel0.fit_numpy",
              "fitted model carries the trait labels it was given", "trait labels %s" % ("absent" if trait is None else "present"),
              witness={"case": c, "got": brief(m.trait), "trait": brief(trait)}, coords=coords)
    if entry != "numpy":
        # the object entry point is the array entry point applied to the arrays the objects hold, record by record
        del _REC[:]
        try:
            mref = rrBLUPModel0.fit_numpy(Ytrain.copy(), None, Z.astype("int8"), trait=trait)
            ctx.hook("rrBLUP_ML0", len(_REC))
            sy = float(numpy.abs(Ytrain).max())
            okb, _ = fclose(m.beta, mref.beta, O.tol(sy))
            oku, _ = fclose(m.u_a, mref.u_a, O.tol(max(float(numpy.abs(mref.u_a).max()), 1e-300)))
            ecl = "%s/%s" % (entry.split("/")[0] if entry.startswith("objects") else entry, lcls)
            ctx.check("C04.rrblup.entry", okb, "rrBLUPModel0.fit", "intercept == that of fit_numpy on the same records", ecl,
                      witness={"case": c, "nrecords": n, "entry": entry, "labels": lcls, "container": ptform, "got": brief(m.beta),
                               "fit_numpy": brief(mref.beta), "taxa": brief(taxa)}, coords=coords)
            ctx.check("C04.rrblup.entry", oku, "rrBLUPModel0.fit", "marker effects == those of fit_numpy on the same records", ecl,
                      witness={"case": c, "nrecords": n, "entry": entry, "labels": lcls, "container": ptform, "got": brief(m.u_a),
                               "fit_numpy": brief(mref.u_a), "taxa": brief(taxa)}, coords=coords)
        except Exception as e:
            ctx.raised("rrBLUPModel0.fit_numpy[reference for object entry]", e)
    rcls = "n > polymorphic markers" if n > ppoly else "n <= polymorphic markers"
    scls = "small response scale" if ycls == "scale 1e-3" else "unit or larger response scale"
    ecls = "numpy entry point" if entry == "numpy" else "object entry point/%s" % lcls
    wit0 = {"case": c, "nrecords": n, "nmarker": p, "npolymorphic": ppoly, "ntrait": t, "genotype_class": zcls,
            "response_class": ycls, "entry": entry, "record_labels": lcls, "dtype": zdt}
    site = "rrBLUPModel0.fit_numpy"
    beta = numpy.asarray(m.beta, dtype=float); ua = numpy.asarray(m.u_a, dtype=float)
    shape_ok = beta.shape == (1, t) and ua.shape == (p, t)
    Zp = Z[:, poly].astype(float)
    trace_ok = shape_ok and len(rec) == t and all(
        numpy.array_equal(rec[i][0], Ytrain[:, i]) and numpy.array_equal(rec[i][1], Zp)
        and numpy.array_equal(numpy.asarray(rec[i][2]["uhat"], dtype=float), ua[poly, i]) for i in range(t))
    ctx.check("C04.rrblup.trace", trace_ok, site, "model effects are the solver's output for the training columns", ecls,
              witness=dict(wit0, beta_shape=list(beta.shape), u_a_shape=list(ua.shape), solver_calls=len(rec)), coords=coords)
    if not shape_ok:
        return
    ymax = float(numpy.abs(Ytrain).max())
    for i in range(t):
        y = Ytrain[:, i]
        mean = float(y.sum() / n)
        ctx.check("C04.rrblup.intercept", abs(beta[0, i] - mean) <= O.tol(ymax), site, "intercept == training mean", ecls,
                  witness=dict(wit0, trait=i, intercept=float(beta[0, i]), mean=mean), coords=coords)
        if ppoly < p:
            ctx.check("C04.rrblup.mono", bool(numpy.all(ua[~poly, i] == 0.0)), site, "monomorphic marker has effect exactly 0", "monomorphic column present",
                      witness=dict(wit0, trait=i, effects=brief(ua[~poly, i])), coords=coords)
        lam = None
        if trace_ok:
            try:
                lam = float(rec[i][2]["varE"]) / float(rec[i][2]["varU"])
            except Exception:
                lam = float("nan")
        if lam is None:
            continue
        rep = O.ridge_report(y, Zp, ua[poly, i], lam)
        lamok = lam == lam and 0.0 < lam < float("inf")
        ok = lamok and rep["crit_u"] <= rep["crit_0"] + O.tol(rep["crit_0"])
        ctx.check("C04.rrblup.criterion", bool(ok), site, "penalised criterion at the solution <= at the all-zero solution", rcls,
                  witness=dict(wit0, trait=i, ridge=lam, criterion=rep["crit_u"], at_zero=rep["crit_0"]), coords=coords)
        if n > ppoly:
            bound = 1e-5 * rep["normb"] + 1e-12 * max(1.0, ymax)
            ok = lamok and rep["res"] <= bound
            ctx.check("C04.rrblup.normaleq", bool(ok), site, "relative residual of (Z'Z + ridge I) u = Z'y_c <= 1e-5", rcls + "/" + scls,
                      witness=dict(wit0, trait=i, ridge=lam, residual=rep["res"], norm_rhs=rep["normb"],
                                   relative=rep["res"] / rep["normb"] if rep["normb"] > 0 else None), coords=coords)
            if ok and rep["normb"] > 0:
                ctx.maxnote("normal-equation relative residual", rep["res"] / rep["normb"])
            ctx.sumnote("fits with n > polymorphic markers")
        else:
            ctx.sumnote("fits with n <= polymorphic markers")
    # the fitted model predicts like any other additive model
    try:
        got = numpy.asarray(m.gebv(Z.astype("int8")).unscale(), dtype=float)
        e = O.marker_part(Z, ua) + beta[0][None, :]
        Sf = O.value_scale(beta, ua, None, max(1, int(numpy.abs(Z).max())))
        ok, _ = fclose(got, e, O.tol(Sf))
        ctx.check("C04.value", ok, defsite(m, "gebv"), "per-taxon value == intercept + dosage*effects", "fitted rrBLUP/array",
                  witness=dict(wit0, got=brief(got), expected=brief(e)), coords=coords)
    except Exception as ex:
        ctx.raised("rrBLUPModel0.gebv", ex)
    # ... and scores like one, whatever the container of the response
    try:
        pf = str(g.choice(PTFORMS[2:]))
        Ys = Ytrain + g.normal(size=Ytrain.shape) * (float(numpy.abs(Ytrain).std()) + 1e-6)
        loc = g.normal(size=t) + float(Ys.mean()); sc = g.uniform(0.5, 3.0, t) * (float(Ys.std()) + 1e-6)
        if pf == "object/arbitrary location+scale":
            Ys = sc[None, :] * ((Ys - loc[None, :]) / sc[None, :]) + loc[None, :]
        pred = O.marker_part(Z, ua) + beta[0][None, :]
        sse, sst = O.rsq(Ys, pred)
        if numpy.all(sst > 1e-6 * (numpy.abs(Ys).max() + 1.0) ** 2):
            got = m.score(mk_pheno(pf, Ys, None, None, trait, loc, sc), numpy.ones((n, 1)), Z.astype("int8"))
            r2 = 1.0 - sse / sst
            tl = O.tol((float(numpy.abs(Ys).max()) + Sf) ** 2 * n) * (1.0 + numpy.abs(r2)) / sst
            ok, _ = fclose(got, r2, tl)
            ctx.check("C04.stats.score", ok, defsite(m, "score"), "== 1 - SSE/SST", "fitted rrBLUP/array/response " + pf,
                      witness=dict(wit0, got=brief(got), expected=brief(r2)), coords=coords)
    except Exception as ex:
        ctx.raised("rrBLUPModel0.score", ex)


BIG_EVERY = 160   # every 160th model case is a large-population case (25 per quick run, each size >= 6 times)
FAMILIES = {"model": (case_model, 4000, 60000), "fit": (case_fit, 400, 4000)}


def run_shard(ctx):
    for name, (fn, q, t) in FAMILIES.items():
        for c in ctx.case_ids(q, t):
            fn(ctx, c)


def replay(ctx, coords):
    FAMILIES[coords[1]][0](ctx, int(coords[0]))
