"""C19 - Pareto filter, dominance predicate, distance-to-preference-vector transformations."""
import itertools

import numpy

from pbmon import boot  # noqa: F401

PROPERTY = "C19"
NSHARDS = {"quick": 4, "thorough": 16}
CLAUSES = {
    "C19.pareto.sound": 500, "C19.pareto.complete": 500, "C19.pareto.forms": 500,
    "C19.pareto.order": 300, "C19.pareto.rescale": 300, "C19.pareto.pure": 500, "C19.dist.rescale": 300,
    "C19.dominates.table": 500,
    "C19.dist.definition": 300, "C19.dist.translation": 300, "C19.dist.finite": 100,
}
RULE = ("seeded class-based point sets: 1-60 points, 1-4 objectives, integer lattices (duplicates and ties in single "
        "coordinates), gaussian, collinear fronts, single point, constant column; weights from {-2.5,-1,1,2.5}; preference "
        "vectors >= 0 non-zero (axis-aligned, all-ones, random).  Non-trivial: >= 2 points; distinct = digest of the inputs.")
ASSUME = ["is_pareto_efficient maximises the weighted objectives (fmat * wt), as its docstring states",
          "dominates(obj1,cv1,obj2,cv2) minimises objectives; a point is feasible when cv <= 0",
          "distance transformation semantics are the docstrings': weight the objectives (sign vector), scale each objective "
          "to [0,1] over the front (a constant objective scales to 0), distance = norm of the residual of the orthogonal "
          "projection onto the line spanned by the preference vector"]
TOL = 1e-9


# ---------------------------------------------------------------- oracles
def dominates_max(a, b):
    """a dominates b when maximising: >= everywhere, > somewhere (pure python on floats)."""
    ge = True; gt = False
    for x, y in zip(a, b):
        if x < y:
            ge = False; break
        if x > y:
            gt = True
    return ge and gt


def ref_distance(mat, sign_wt, vec):
    """Geometric definition, computed point by point without numpy broadcasting tricks."""
    m = numpy.array(mat, dtype=float) * numpy.asarray(sign_wt, dtype=float)[None, :]
    lo = m.min(0); hi = m.max(0)
    out = []
    v = numpy.asarray(vec, dtype=float)
    vv = float(sum(x * x for x in v))
    for row in m:
        s = [(0.0 if hi[j] == lo[j] else (row[j] - lo[j]) / (hi[j] - lo[j])) for j in range(len(row))]
        t = sum(s[j] * v[j] for j in range(len(s))) / vv
        out.append(sum((s[j] - t * v[j]) ** 2 for j in range(len(s))) ** 0.5)
    return numpy.array(out)


# ---------------------------------------------------------------- generators
def gen_points(g):
    cls = ["lattice", "gauss", "collinear", "single", "constcol", "dups", "tinyrange"][int(g.integers(0, 7))]
    d = int(g.integers(1, 5))
    n = int(g.integers(1, 61)) if g.random() < 0.3 else int(g.integers(1, 14))
    if cls == "lattice":
        F = g.integers(0, 4, (n, d)).astype(float)
    elif cls == "gauss":
        F = g.normal(size=(n, d))
    elif cls == "collinear":
        t = g.integers(0, 6, n).astype(float); dirn = g.choice([-1.0, 1.0, 0.5], d); F = t[:, None] * dirn[None, :] + g.integers(0, 3, d)
    elif cls == "single":
        n = 1; F = g.normal(size=(1, d))
    elif cls == "constcol":
        F = g.integers(0, 4, (n, d)).astype(float); F[:, int(g.integers(d))] = float(g.integers(-2, 3))
    elif cls == "tinyrange":   # one objective with a real but tiny spread (1e-9 .. 1e-12 of the others)
        F = g.integers(0, 5, (n, d)).astype(float); F[:, int(g.integers(d))] *= float(g.choice([1e-9, 1e-10, 1e-12]))
    else:
        base = g.normal(size=(max(1, n // 3), d)); F = base[g.integers(0, len(base), n)]
    if cls in ("gauss", "dups", "tinyrange") and n >= 2 and g.random() < 0.3:
        # last-place twins: a point that differs from another one by a single unit in the last place of one coordinate
        k_ = int(g.integers(1, max(2, n // 2)))
        for _ in range(k_):
            i_, j_ = int(g.integers(n)), int(g.integers(n)); c_ = int(g.integers(d))
            if abs(F[j_, c_]) < 1e-200:
                continue      # next to zero the neighbour is subnormal: rescaling by a power of two would no longer be exact
            F[i_] = F[j_]; F[i_, c_] = numpy.nextafter(F[j_, c_], numpy.inf if g.random() < 0.5 else -numpy.inf)
        cls += "/points one unit in the last place apart"
    wt = g.choice([-2.5, -1.0, 1.0, 2.5, 0.5], d)
    # integer-valued point sets are also handed over in the integer / single-precision dtypes a caller may hold them in
    if numpy.all(F == numpy.floor(F)) and numpy.abs(F).max() < 15 and g.random() < 0.4:
        dts = ["int8", "int16", "int32", "int64", "float32"] + (["uint8", "uint16", "uint32", "uint64"] if F.min() >= 0 else [])
        dt = str(g.choice(dts))
        F = F.astype(dt); cls += "/" + ("unsigned integer points" if dt.startswith("u") else "signed integer points" if dt.startswith("i") else "float32 points")
    return cls, F, wt


def case_pareto(ctx, c):
    from pybrops.core.util.pareto import is_pareto_efficient
    g = ctx.rng("pareto", c)
    cls, F, wt = gen_points(g)
    n, d = F.shape
    coords = [c, "pareto"]
    ctx.case("pareto:" + cls, F, wt, trivial=n < 2)
    if c % 211 == 0:
        ctx.sample({"fn": "is_pareto_efficient", "class": cls, "fmat": F.tolist(), "wt": wt.tolist()})
    site = "is_pareto_efficient"
    Fcall = F.copy(); wcall = wt.copy()      # one caller-owned array handed to both calls (float64, as a caller would)
    try:
        m = is_pareto_efficient(Fcall, wcall, True)
        ix = is_pareto_efficient(Fcall, wcall, False)
    except Exception as e:
        ctx.raised(site, e)
        ctx.violation("C19.pareto.returns", site, "raised %s" % type(e).__name__, cls, witness={"F": F, "wt": wt}, coords=coords)
        return
    w = {"fmat": F, "wt": wt, "mask": m, "index": ix}
    ctx.check("C19.pareto.pure", numpy.array_equal(Fcall, F) and numpy.array_equal(wcall, wt), site, "the caller's point and weight arrays are not modified", cls,
              witness=dict(w, fmat_after=Fcall), coords=coords)
    Fw = (F.astype(float) * wt[None, :]).tolist()
    ctx.check("C19.pareto.forms", m.dtype == bool and m.shape == (n,) and numpy.array_equal(numpy.flatnonzero(m), numpy.sort(ix))
              and len(set(numpy.asarray(ix).tolist())) == len(ix), site, "mask form == index form", cls, witness=w, coords=coords)
    marked = [i for i in range(n) if m[i]]
    # sound: marked => no point dominates it
    bad = next(((i, j) for i in marked for j in range(n) if j != i and dominates_max(Fw[j], Fw[i])), None)
    ctx.check("C19.pareto.sound", bad is None, site, "marked point is not dominated", cls, witness=dict(w, pair=bad), coords=coords)
    # complete: unmarked => equalled or dominated by a marked one
    bad = next((i for i in range(n) if not m[i] and not any(all(x >= y for x, y in zip(Fw[j], Fw[i])) for j in marked)), None)
    ctx.check("C19.pareto.complete", bad is None, site, "unmarked point equalled or dominated by a marked one", cls,
              witness=dict(w, point=bad), coords=coords)
    eff = {tuple(Fw[i]) for i in marked}
    # order invariance
    perm = g.permutation(n)
    try:
        m2 = is_pareto_efficient(F[perm].copy(), wt.copy(), True)
        eff2 = {tuple(r) for r in (F[perm][m2].astype(float) * wt[None, :]).tolist()}
        ctx.check("C19.pareto.order", eff2 == eff, site, "efficient set invariant to point order", cls,
                  witness=dict(w, perm=perm), coords=coords)
    except Exception as e:
        ctx.violation("C19.pareto.returns", site, "raised %s" % type(e).__name__, cls + "/permuted", witness=w, coords=coords)
    # positive rescaling of one objective (power of two: exact in floating point)
    j = int(g.integers(d)); s = float(g.choice([0.5, 2.0, 8.0, 0.125]))
    if F.dtype.kind in "iu":
        s = float(g.choice([2, 4, 8]))       # stays exact and in range of every integer dtype used (|F| < 15)
    F3 = F.copy(); F3[:, j] = (F3[:, j] * s).astype(F.dtype)
    try:
        m3 = is_pareto_efficient(F3, wt.copy(), True)
        ctx.check("C19.pareto.rescale", {tuple(Fw[i]) for i in range(n) if m3[i]} == eff, site,
                  "efficient set invariant to positive rescaling of an objective", cls, witness=dict(w, column=j, factor=s), coords=coords)
    except Exception as e:
        ctx.violation("C19.pareto.returns", site, "raised %s" % type(e).__name__, cls + "/rescaled", witness=w, coords=coords)


def case_dominates(ctx, c):
    from pybrops.opt.algo.pymoo_addon import dominates
    g = ctx.rng("dom", c)
    d = int(g.integers(1, 5))
    lat = g.random() < 0.7
    o1 = g.integers(0, 3, d).astype(float) if lat else g.normal(size=d)
    o2 = o1.copy() if g.random() < 0.2 else (g.integers(0, 3, d).astype(float) if lat else g.normal(size=d))
    ocls = ""
    if not lat and g.random() < 0.3:
        # strict improvements that a scalarisation (e.g. the sum of the objectives) cannot see: one unit in the last place, or
        # objectives of wildly different magnitude
        o2 = o1.copy(); j_ = int(g.integers(d))
        if g.random() < 0.5 and abs(o1[j_]) > 1e-200:
            o2[j_] = numpy.nextafter(o1[j_], numpy.inf if g.random() < 0.5 else -numpy.inf); ocls = "/one unit in the last place apart"
        elif d >= 2:
            o1 = o1.copy(); k_ = (j_ + 1) % d
            o1[k_] = o2[k_] = float(g.choice([1e17, -1e17, 3e18])); o2[j_] = o1[j_] + float(g.choice([1.0, -1.0])); ocls = "/objectives of very different magnitude"
    if lat and g.random() < 0.4:
        dt = str(g.choice(["int8", "int32", "int64", "uint8", "uint16", "uint32", "uint64", "float32"]))
        o1 = o1.astype(dt); o2 = o2.astype(dt)
        ocls = "/" + ("unsigned integer objectives" if dt.startswith("u") else "signed integer objectives" if dt.startswith("i") else "float32 objectives")
    cvs = [-1.0, 0.0, 0.0, 1e-300, 0.5, 0.5, 2.0]
    cv1 = float(g.choice(cvs)); cv2 = float(g.choice(cvs))
    f1, f2 = cv1 <= 0.0, cv2 <= 0.0
    if f1 and f2:
        exp = all(x <= y for x, y in zip(o1, o2)) and any(x < y for x, y in zip(o1, o2)); cls = "both feasible"
    elif f1 != f2:
        exp = f1; cls = "feasible vs infeasible"
    else:
        exp = cv1 < cv2; cls = "both infeasible"
    exp = bool(exp); cls += ocls
    ctx.case("dominates:" + cls, o1, o2, cv1, cv2)
    if c % 211 == 0:
        ctx.sample({"fn": "dominates", "obj1": o1.tolist(), "cv1": cv1, "obj2": o2.tolist(), "cv2": cv2, "expected": exp})
    try:
        got = bool(dominates(o1, cv1, o2, cv2))
    except Exception as e:
        ctx.violation("C19.dominates.returns", "dominates", "raised %s" % type(e).__name__, cls, witness=[o1, cv1, o2, cv2], coords=[c, "dom"])
        return
    ctx.check("C19.dominates.table", got == exp, "pymoo_addon.dominates", "== definition", cls,
              witness={"obj1": o1, "cv1": cv1, "obj2": o2, "cv2": cv2, "got": got, "expected": exp}, coords=[c, "dom"])


def _dist_fns():
    from pybrops.core.util.trans import trans_ndpt_pseudo_dist
    from pybrops.breed.prot.sel.prob.trans import trans_ndpt_to_vec_dist as t_prob
    from pybrops.breed.prot.sel.transfn import trans_ndpt_to_vec_dist as t_fn
    # (name, callable(mat, sign_wt, vec))
    return [
        ("core.util.trans.trans_ndpt_pseudo_dist", lambda M, s, v: trans_ndpt_pseudo_dist(M, s, v)),
        ("sel.prob.trans.trans_ndpt_to_vec_dist", lambda M, s, v: t_prob(M, obj_wt=s, vec_wt=v)),
        ("sel.transfn.trans_ndpt_to_vec_dist", lambda M, s, v: t_fn(M, objfn_wt=s, wt=v)),
    ]


def case_dist(ctx, c):
    g = ctx.rng("dist", c)
    cls, F, _ = gen_points(g)
    n, d = F.shape
    sign = g.choice([-1.0, 1.0], d)
    vm = int(g.integers(0, 5))
    if vm == 4:       # pseudo-weight convention: non-negative components summing to exactly one (not unit length)
        parts = [[1.0], [0.5, 0.5], [0.25, 0.75], [0.2, 0.3, 0.5], [0.25, 0.25, 0.25, 0.25], [0.5, 0.0, 0.5], [0.125, 0.875]]
        cand = [q for q in parts if len(q) <= d]
        q = list(cand[int(g.integers(len(cand)))]); q = q + [0.0] * (d - len(q))
        vec = numpy.array(q)[g.permutation(d)]
    elif vm == 0:
        vec = numpy.ones(d)
    elif vm == 1:
        vec = numpy.zeros(d); vec[int(g.integers(d))] = float(g.choice([1.0, 3.0]))
    elif vm == 2:
        vec = g.uniform(0, 1, d) * (g.random(d) < 0.7); vec[int(g.integers(d))] += 0.25
    else:
        vec = g.integers(0, 4, d).astype(float); vec[int(g.integers(d))] += 1.0
    const = bool(numpy.any(F.max(0) == F.min(0)))
    symm = bool(numpy.all(sign == sign[0])) and bool(numpy.all(vec == vec[0]))
    icls = ("constant objective" if const else "no constant objective") + ("/uniform sign and vector" if symm else "/mixed signs or vector")
    coords = [c, "dist"]
    ctx.case("dist:%s/%s" % (cls, icls), F, sign, vec, trivial=n < 2)
    if c % 211 == 0:
        ctx.sample({"fn": "distance transformations", "class": cls, "front": F.tolist(), "sign_wt": sign.tolist(), "vec": vec.tolist()})
    exp = ref_distance(F, sign, vec)
    shift = g.integers(-5, 6, d).astype(float)  # integer shifts: exact on the lattice classes
    rngcol = F.max(0) - F.min(0)
    shift[(rngcol > 0) & (rngcol < 1e-6)] = 0.0   # adding O(1) to a column of spread 1e-9 is not an exact translation in floating point
    for name, fn in _dist_fns():
        try:
            got = numpy.asarray(fn(F.copy(), sign.copy(), vec.copy()), dtype=float)
        except Exception as e:
            ctx.violation("C19.dist.returns", name, "raised %s" % type(e).__name__, icls, witness={"F": F, "sign": sign, "vec": vec}, coords=coords)
            continue
        w = {"front": F, "sign_wt": sign, "vec": vec, "got": got, "expected": exp}
        fin = bool(numpy.all(numpy.isfinite(got)))
        if const:
            ctx.check("C19.dist.finite", fin, name, "finite when an objective is constant", icls, witness=w, coords=coords)
        if not fin:
            if not const:
                ctx.check("C19.dist.definition", False, name, "finite", icls, witness=w, coords=coords)
            continue
        err = float(numpy.max(numpy.abs(got - exp))) if got.shape == exp.shape else float("inf")
        ctx.maxnote("dist |got-expected|", err if err < 1e-6 else 0.0)
        ctx.check("C19.dist.definition", err <= TOL, name, "== geometric definition", icls, witness=dict(w, err=err), coords=coords)
        # positive rescaling of one objective (power of two): the front is min-max scaled, so distances must not change
        jj = int(g.integers(d)); sc = float(g.choice([2.0 ** -30, 2.0 ** -10, 8.0, 2.0 ** 20]))
        F4 = F.astype(float); F4[:, jj] *= sc       # harness arithmetic stays outside the guarded call
        try:
            got4 = numpy.asarray(fn(F4, sign.copy(), vec.copy()), dtype=float)
            err4 = float(numpy.max(numpy.abs(got4 - got))) if numpy.all(numpy.isfinite(got4)) else float("inf")
            ctx.check("C19.dist.rescale", err4 <= TOL, name, "invariant to positive rescaling of an objective", icls,
                      witness=dict(w, column=jj, factor=sc, got_rescaled=got4), coords=coords)
        except Exception as e:
            ctx.violation("C19.dist.returns", name, "raised %s" % type(e).__name__, icls + "/rescaled", witness=w, coords=coords)
        try:
            got2 = numpy.asarray(fn(F + shift[None, :], sign.copy(), vec.copy()), dtype=float)
            err2 = float(numpy.max(numpy.abs(got2 - got))) if numpy.all(numpy.isfinite(got2)) else float("inf")
            ctx.check("C19.dist.translation", err2 <= TOL, name, "invariant to translation of the front", icls,
                      witness=dict(w, shift=shift, got_shifted=got2), coords=coords)
        except Exception as e:
            ctx.violation("C19.dist.returns", name, "raised %s" % type(e).__name__, icls + "/translated", witness=w, coords=coords)


FAMILIES = {"pareto": (case_pareto, 6000, 150000), "dom": (case_dominates, 6000, 100000), "dist": (case_dist, 3000, 60000)}


def run_shard(ctx):
    for name, (fn, q, t) in FAMILIES.items():
        for c in ctx.case_ids(q, t):
            fn(ctx, c)


def replay(ctx, coords):
    FAMILIES[coords[1]][0](ctx, int(coords[0]))
