"""C06 - optimisers return feasible solutions with truthful objective values."""
import copy
import importlib
import inspect
import itertools

import numpy

from pbmon import boot  # noqa: F401
from pbmon.verdict import digest

PROPERTY = "C06"
NSHARDS = {"quick": 8, "thorough": 16}
CLAUSES = {"C06.feasible": 300, "C06.truthful": 300, "C06.front": 60, "C06.pure": 100, "C06.sorting": 40, "C06.localopt": 40}
RULE = ("every optimiser class of pybrops.opt.algo (16 classes incl. the four memetic variants) run on EBV selection problems in the "
        "matching encoding with harness-supplied objective/constraint transformations: separable, non-separable (pairwise penalty), "
        "tied/plateau values, active inequality constraints, 1-3 objectives; candidate set sizes >= subset size (including equal and "
        "size+1); ngen 3-30, pop_size 8-40; generators Generator/RandomState/default.  Non-trivial: >= 2 candidates; distinct = digest of "
        "(class, hyper-parameters, problem data).  The three function-based optimisers (Unconstrained* set GA, NSGA-II set GA, "
        "steepest-ascent set hill-climber; optimize(objfn, k, sspace, objfn_wt)) are run on additive / pairwise objectives where "
        "repeating a member pays, k 1-6, 1-14 spare candidates.")
ASSUME = ["an optimiser that raises returns no solution: counted under 'raised', not a violation (property constrains returned solutions)",
          "dominance for the front clause is Pareto dominance of the reported weighted objectives among feasible members, smaller total "
          "violation among infeasible ones, feasible beats infeasible",
          "hill-climber local optimality is lexicographic in (total constraint violation, summed weighted objective), the order the "
          "library documents",
          "GA trajectories are not replayable bit-for-bit (pymoo draws its own entropy, see C08); the witness holds the returned solution"]
TOL = 1e-9

SUBSET_ALGOS = ["SortingSubsetOptimizationAlgorithm", "SteepestDescentSubsetHillClimber", "SortingSteepestDescentSubsetHillClimber",
                "SubsetGeneticAlgorithm", "NSGA2SubsetGeneticAlgorithm", "NSGA3SubsetGeneticAlgorithm",
                "NSGA2MemeticSubsetGeneticAlgorithm:NSGA2SteepestDescentSubsetGeneticAlgorithm",
                "NSGA2MemeticSubsetGeneticAlgorithm:NSGA2StochasticDescentSubsetGeneticAlgorithm",
                "NSGA2MemeticSubsetGeneticAlgorithm:NSGA2MutatorASubsetGeneticAlgorithm",
                "NSGA2MemeticSubsetGeneticAlgorithm:NSGA2MutatorBSubsetGeneticAlgorithm"]
OTHER_ALGOS = [("RealGeneticAlgorithm", "Real"), ("IntegerGeneticAlgorithm", "Integer"), ("BinaryGeneticAlgorithm", "Binary"),
               ("NSGA2RealGeneticAlgorithm", "Real"), ("NSGA2IntegerGeneticAlgorithm", "Integer"), ("NSGA2BinaryGeneticAlgorithm", "Binary")]
ALGOS = [(a, "Subset") for a in SUBSET_ALGOS] + OTHER_ALGOS
SINGLE = {"SortingSubsetOptimizationAlgorithm", "SteepestDescentSubsetHillClimber", "SortingSteepestDescentSubsetHillClimber",
          "SubsetGeneticAlgorithm", "RealGeneticAlgorithm", "IntegerGeneticAlgorithm", "BinaryGeneticAlgorithm"}
BOUNDS = {"Real": (0.0, 1.0), "Integer": (0, 3), "Binary": (0, 1)}


def algo_class(spec):
    mod, _, cls = spec.partition(":")
    m = importlib.import_module("pybrops.opt.algo." + mod)
    return getattr(m, cls or mod)


def short(spec):
    return spec.split(":")[-1]


# ---------------------------------------------------------------- problems
class Trans:
    """Picklable/deep-copyable transformation functions handed to the library's problem classes."""

    def __init__(self, kind, nout, K=None, thr=0.0, enc="Subset"):
        self.kind, self.nout, self.K, self.thr, self.enc = kind, nout, K, thr, enc

    def contrib(self, x):
        if self.enc == "Subset":
            c = numpy.zeros(self.K.shape[-1] if self.K is not None else int(numpy.max(x)) + 1)
            numpy.add.at(c, numpy.asarray(x, dtype=int), 1.0)
            return c
        return numpy.asarray(x, dtype=float)

    def __call__(self, x, latent, **kw):
        if self.kind == "head":          # first nout latent values
            return latent[: self.nout]
        if self.kind == "pairwise":      # non-separable: latent gain plus pairwise penalty between chosen members
            c = self.contrib(x)
            pen = float(c @ self.K @ c)
            out = numpy.array(latent[: self.nout], dtype=float)
            out[0] = out[0] + pen
            return out
        if self.kind == "cons":          # inequality violation: amount by which the last latent value exceeds a threshold
            return numpy.array([max(0.0, float(latent[-1]) - self.thr)])
        if self.kind == "cons-signed":   # g(x) <= 0 convention: negative slack when satisfied, different for every decision
            return numpy.array([float(latent[-1]) - self.thr])
        if self.kind == "groups":        # several constraint components: members allowed per group (often jointly infeasible)
            c = self.contrib(x)
            return numpy.maximum(self.K @ c - self.thr, 0.0)
        if self.kind == "slots":         # position-dependent: the member in slot j counts with weight K[j] (roles such as female/male)
            xi = numpy.asarray(x, dtype=int)
            out = numpy.array(latent[: self.nout], dtype=float)
            out[0] = out[0] + float(numpy.sum(self.K[: len(xi)] * self.thr[xi]))
            return out
        if self.kind == "plateau":       # coarse rounding -> many ties
            return numpy.round(latent[: self.nout], 0)
        raise KeyError(self.kind)


def make_problem(g, enc, nobj, n, k, allow_signed=False):
    P = importlib.import_module("pybrops.breed.prot.sel.prob.EstimatedBreedingValueSelectionProblem")
    cls = getattr(P, "EstimatedBreedingValue%sSelectionProblem" % enc)
    ntrait = max(nobj, int(g.integers(1, 4)))
    nrow = n + (int(g.integers(1, 6)) if enc == "Subset" and g.random() < 0.5 else 0)     # candidate set may be a proper subset of the rows
    rows = numpy.sort(g.choice(nrow, n, replace=False)).astype("int64")
    ebv = g.normal(size=(nrow, ntrait))
    dcls = str(g.choice(["plain", "ties", "pairwise", "plateau", "constrained", "constrained", "multi-constraint", "multi-constraint", "positional", "unattainable"]))
    if dcls == "positional" and enc != "Subset":
        dcls = "pairwise"
    if dcls == "unattainable":
        dcls = "constrained"; huge = True
    else:
        huge = False
    if dcls == "ties":
        ebv = numpy.round(ebv)
    K = None
    if dcls == "pairwise":
        A = g.normal(size=(nrow, nrow)); K = 0.3 * (A @ A.T) / nrow
        obj_trans = Trans("pairwise", nobj, K=K, enc=enc)
    elif dcls == "positional":
        obj_trans = Trans("slots", nobj, K=g.choice([1.0, 0.5, 2.0, -1.0], 16), thr=g.normal(size=nrow))
    elif dcls == "plateau":
        obj_trans = Trans("plateau", nobj)
    else:
        obj_trans = Trans("head", nobj)
    kw = {}
    if dcls == "constrained":
        thr = float(numpy.quantile(-ebv[:, -1], 0.5)) * (1.0 if enc == "Subset" else 0.3)
        kw = dict(nineqcv=1, ineqcv_wt=numpy.array([1.0]), ineqcv_trans=Trans("cons", 1, thr=thr))
        if allow_signed and not huge and g.random() < 0.4:
            kw = dict(nineqcv=1, ineqcv_wt=numpy.array([1.0]), ineqcv_trans=Trans("cons-signed", 1, thr=thr))
            dcls += "/signed constraint values (g <= 0 convention)"
        if huge:     # a budget nobody can meet: every decision violates by about 1e6, neighbouring decisions differ by units
            kw = dict(nineqcv=1, ineqcv_wt=numpy.array([1.0]), ineqcv_trans=Trans("cons", 1, thr=thr - 1e6))
            dcls += "/unattainable threshold (violations ~1e6)"
    if dcls == "multi-constraint":
        ng = int(g.integers(2, 4))
        memb = g.integers(0, ng, nrow)
        Gm = numpy.stack([(memb == j).astype(float) for j in range(ng)])
        cap = float(g.choice([0.0, 1.0])) if enc != "Real" else 0.2
        kw = dict(nineqcv=ng, ineqcv_wt=g.choice([1.0, 1.0, 2.0], ng), ineqcv_trans=Trans("groups", ng, K=Gm, thr=cap, enc=enc))
        if g.random() < 0.5:
            ebv = numpy.round(ebv)      # ties in the objective make equal-violation exchanges frequent
    wt = g.choice([1.0, 1.0, 2.0, -1.0], nobj) if g.random() < 0.3 else numpy.ones(nobj)
    if enc == "Subset":
        space = rows
        nobounds = g.random() < 0.3     # the bounds of a subset problem are optional: left undefined (None) by the caller
        prob = cls(ebv=ebv, ndecn=k, decn_space=space, decn_space_lower=None if nobounds else numpy.repeat(int(rows.min()), k),
                   decn_space_upper=None if nobounds else numpy.repeat(int(rows.max()), k),
                   nobj=nobj, obj_wt=wt, obj_trans=obj_trans, **kw)
        if nobounds:
            dcls += "/bounds left undefined"
    else:
        lo, up = BOUNDS[enc]
        ds = numpy.stack([numpy.repeat(lo, n), numpy.repeat(up, n)])
        prob = cls(ebv=ebv, ndecn=n, decn_space=ds, decn_space_lower=numpy.repeat(lo, n), decn_space_upper=numpy.repeat(up, n),
                   nobj=nobj, obj_wt=wt, obj_trans=obj_trans, **kw)
        if enc in ("Integer", "Real") and g.random() < 0.3:      # tighten the bounds afterwards through the public setters
            nlo = numpy.repeat(1 if enc == "Integer" else 0.25, n); nup = numpy.repeat(2 if enc == "Integer" else 0.5, n)
            prob.decn_space_lower = nlo; prob.decn_space_upper = nup; prob.decn_space = numpy.stack([nlo, nup])
            dcls += "/bounds changed through setters"
        elif enc in ("Integer", "Real") and g.random() < 0.35:
            # per-variable ranges anywhere on the number line: entirely negative, straddling zero, degenerate (lower == upper)
            if enc == "Integer":
                nlo = g.integers(-9, 5, n); nup = nlo + g.integers(0, 6, n)
            else:
                nlo = numpy.round(g.uniform(-3, 2, n), 2); nup = nlo + numpy.round(g.uniform(0, 2, n), 2)
            prob.decn_space_lower = nlo; prob.decn_space_upper = nup; prob.decn_space = numpy.stack([nlo, nup])
            dcls += "/negative and mixed-sign ranges"
    return prob, dcls, ebv


def prob_digest(prob):
    parts = []
    for k_, v in sorted(vars(prob).items()):
        if isinstance(v, numpy.ndarray):
            parts.append((k_, v.shape, str(v.dtype), v.tobytes()))
        elif isinstance(v, (int, float, str, type(None))):
            parts.append((k_, v))
        elif isinstance(v, Trans):
            parts.append((k_, v.kind, None if v.K is None else v.K.tobytes(), v.thr))
    return digest(parts)


def totcv(g_, h_):
    return float(numpy.sum(numpy.maximum(g_, 0.0))) + float(numpy.sum(h_))     # g <= 0 counts as satisfied


def dominated_member(F, CV):
    n = len(F)
    for i in range(n):
        for j in range(n):
            if i == j:
                continue
            if CV[i] <= 0 and CV[j] <= 0:
                if numpy.all(F[j] <= F[i]) and numpy.any(F[j] < F[i]):
                    return i, j
            elif CV[j] < CV[i]:
                return i, j
    return None


LIVE = {}      # optimiser class -> (object, hyper-parameters, (n, k)) kept alive across cases of one shard


def one_run(ctx, c, family="opt"):
    g = ctx.rng(family, c)
    if family == "opt":
        spec, enc = ALGOS[c % len(ALGOS)]
    elif family == "live":   # three consecutive problems on ONE optimiser object: A, B (same dimensions, other candidates/data), C (other dimensions)
        spec, enc = ALGOS[(c // 3) % len(ALGOS)]
        if c % 3 == 0:
            LIVE.pop(short(spec), None)
    else:   # cheap deterministic optimisers get their own, larger family
        spec, enc = [(a, "Subset") for a in SUBSET_ALGOS[:3]][c % 3]
    name = short(spec)
    cls = algo_class(spec)
    single = name in SINGLE
    nobj = 1 if single else int(g.choice([2, 2, 3]))
    n = int(g.integers(2, 13)); k = int(g.integers(1, n + 1))
    reuse = name in LIVE and g.random() < 0.5
    if family == "live":
        reuse = name in LIVE and c % 3 != 0
    if reuse and (g.random() < 0.7 if family != "live" else c % 3 == 1):
        n, k = LIVE[name][2]           # same dimensions as the previous problem of this live optimiser, other candidates/data
    elif enc == "Subset" and g.random() < 0.3:
        k = n if g.random() < 0.5 else max(1, n - 1)      # candidate-set size == / just above subset size
    # signed constraint values only for the pymoo-based optimisers (they clip at zero themselves); the deterministic climbers
    # are judged with the library's own total-violation order, which is defined for non-negative violations
    prob, dcls, ebv = make_problem(g, enc, nobj, n, k, allow_signed=name not in [short(a_) for a_ in SUBSET_ALGOS[:3]])
    sig = inspect.signature(cls.__init__).parameters
    kw = {}
    if "ngen" in sig:
        kw["ngen"] = int(g.integers(3, 31)) if ctx.tier == "thorough" else int(g.integers(3, 12))
    if "pop_size" in sig:
        kw["pop_size"] = int(g.integers(8, 41)) if ctx.tier == "thorough" else int(g.integers(8, 21))
    seed = int(g.integers(2 ** 31))
    rcls = "default"
    if "rng" in sig:
        r = int(g.integers(3))
        if r == 0:
            kw["rng"] = numpy.random.Generator(numpy.random.PCG64(seed)); rcls = "Generator"
        elif r == 1:
            kw["rng"] = numpy.random.RandomState(seed); rcls = "RandomState"
    import pybrops.core.random.prng as prng
    prng.seed(seed); numpy.random.seed(seed % (2 ** 32))
    coords = [c, family]
    if name == "NSGA3SubsetGeneticAlgorithm":
        kw["pop_size"] = int(g.choice([10, 15, 21, 28, 36]))   # sizes for which uniform reference directions exist (2 and 3 objectives)
    icls = "%s encoding%s%s" % (enc, "/ndecn==|space|" if enc == "Subset" and k == n else "", "/optimiser object re-used" if reuse else "")
    pcls = dcls
    ctx.case("%s/%s/%s" % (name, dcls, rcls), name, sorted(kw.items(), key=str)[:2], ebv, k, nobj, trivial=n < 2)
    if c % 37 == 0:
        ctx.sample({"optimiser": name, "encoding": enc, "problem": dcls, "ncandidates": n, "ndecn": k if enc == "Subset" else n, "nobj": nobj,
                    "hyper": {a: b for a, b in kw.items() if a != "rng"}, "rng": rcls})
    d0 = prob_digest(prob)
    try:
        if reuse:
            algo, kw = LIVE[name][0], LIVE[name][1]
            ctx.sumnote("runs on an optimiser object that already solved another problem")
        else:
            algo = cls(**kw)
        LIVE[name] = (algo, kw, (n, k))
        soln = algo.minimize(prob)
    except Exception as e:
        ctx.raised("%s.minimize [%s, %s problem]" % (name, icls, pcls), e)
        return
    site = name + ".minimize"
    ctx.check("C06.pure", prob_digest(prob) == d0, site, "problem object not modified", icls, coords=coords)
    X = numpy.asarray(soln.soln_decn)
    w = {"optimiser": name, "hyper": {a: b for a, b in kw.items() if a != "rng"}, "encoding": enc, "problem": dcls, "ebv": ebv, "ndecn": k,
         "soln_decn": X, "soln_obj": soln.soln_obj}
    ok = X.ndim == 2 and len(X) == soln.nsoln and len(X) >= 1
    ctx.check("C06.feasible", ok, site, "soln_decn is a non-empty (nsoln, ndecn) array", icls, witness=w, coords=coords)
    if not ok:
        return
    # ---- feasibility of every returned member
    for x in X:
        if enc == "Subset":
            good = len(x) == k and bool(numpy.isin(x, prob.decn_space).all()) and len(set(numpy.asarray(x).tolist())) == len(x)
            rel = "subset has the requested size and distinct members of the candidate set"
            if len(x) == k and numpy.isin(x, prob.decn_space).all() and not good:
                rel = "subset members are pairwise distinct"
        elif enc == "Real":
            lo, up = numpy.asarray(prob.decn_space_lower, dtype=float), numpy.asarray(prob.decn_space_upper, dtype=float)
            good = len(x) == n and bool(numpy.all(numpy.isfinite(x)) and numpy.all(x >= lo - 1e-12) and numpy.all(x <= up + 1e-12))
            rel = "real vector finite and within bounds"
        else:
            lo, up = numpy.asarray(prob.decn_space_lower, dtype=float), numpy.asarray(prob.decn_space_upper, dtype=float)
            xf = numpy.asarray(x, dtype=float)
            good = len(x) == n and bool(numpy.all(xf == numpy.round(xf)) and numpy.all(xf >= lo) and numpy.all(xf <= up)) and \
                (numpy.asarray(x).dtype.kind in "iub" or enc == "Binary")
            rel = "integer/binary vector integral, typed and within bounds"
        ctx.check("C06.feasible", good, site, rel, icls, witness=dict(w, member=x), coords=coords)
    # ---- truthfulness
    F = numpy.asarray(soln.soln_obj, dtype=float)
    G_ = None if soln.soln_ineqcv is None else numpy.asarray(soln.soln_ineqcv, dtype=float)
    H_ = None if soln.soln_eqcv is None else numpy.asarray(soln.soln_eqcv, dtype=float)
    fresh = []
    for i, x in enumerate(X):
        try:
            o, gi, hi = prob.evalfn(numpy.asarray(x))
        except Exception as e:
            ctx.raised("evalfn on returned decision", e); return
        fresh.append((o, gi, hi))
        good = F.shape == (len(X), prob.nobj) and numpy.allclose(F[i], o, rtol=1e-9, atol=1e-9)
        if prob.nineqcv:
            good = good and G_ is not None and G_.shape == (len(X), prob.nineqcv) and numpy.allclose(G_[i], gi, rtol=1e-9, atol=1e-9)
        if prob.neqcv:
            good = good and H_ is not None and H_.shape == (len(X), prob.neqcv) and numpy.allclose(H_[i], hi, rtol=1e-9, atol=1e-9)
        ctx.check("C06.truthful", bool(good), site, "reported objectives/violations equal a fresh evaluation", icls,
                  witness=dict(w, member=x, reported=[F[i] if F.ndim == 2 and i < len(F) else F, None if G_ is None else G_], fresh=[o, gi, hi]), coords=coords)
    # ---- non-dominated front
    if not single:
        Ff = numpy.stack([f[0] for f in fresh]); CV = numpy.array([totcv(f[1], f[2]) for f in fresh])
        dm = dominated_member(Ff, CV)
        ctx.check("C06.front", dm is None, site, "no returned member dominated by another", icls,
                  witness=dict(w, dominated_pair=dm, objectives=Ff, violation=CV), coords=coords)
    # ---- exhaustive sorting optimiser on separable problems
    if name == "SortingSubsetOptimizationAlgorithm" and dcls.split("/")[0] in ("plain", "ties") and n <= 12:
        best = min(float(numpy.sum(prob.evalfn(numpy.array(s))[0])) for s in itertools.combinations(prob.decn_space.tolist(), k))
        got = float(numpy.sum(fresh[0][0]))
        ctx.check("C06.sorting", got <= best + TOL * (1 + abs(best)), site, "attains the brute-force optimum of a separable problem", icls,
                  witness=dict(w, got=got, brute_force=best), coords=coords)
    # ---- hill-climbers: single-exchange local optimality
    if name in ("SteepestDescentSubsetHillClimber", "SortingSteepestDescentSubsetHillClimber"):
        x = numpy.array(X[0]); members = x.tolist()
        if len(set(members)) == len(members):
            cur = (totcv(fresh[0][1], fresh[0][2]), float(numpy.sum(fresh[0][0])))
            better = None
            outside = [e for e in prob.decn_space.tolist() if e not in set(members)]
            for i in range(len(x)):
                for e in outside:
                    y = x.copy(); y[i] = e
                    o, gi, hi = prob.evalfn(y)
                    cand = (totcv(gi, hi), float(numpy.sum(o)))
                    # exact lexicographic comparison on the same floats the climber sees: the candidate is the returned vector with
                    # one position replaced (the climber's own proposal order), so evaluation is bit-identical; a tolerance here
                    # would call a 5e-17 rounding-level constraint violation "equal" and raise a false alarm
                    if cand[0] < cur[0] or (cand[0] == cur[0] and cand[1] < cur[1]):
                        better = (i, e, cand); break
                if better:
                    break
            ctx.check("C06.localopt", better is None, site, "no single exchange improves the returned subset", icls,
                      witness=dict(w, current=cur, improving_exchange=better), coords=coords)


LEGACY = ["UnconstrainedSetGeneticAlgorithm", "UnconstrainedNSGA2SetGeneticAlgorithm", "UnconstrainedSteepestAscentSetHillClimber"]


def legacy_run(ctx, c):
    """The function-based optimisers kept beside the Problem-based ones: ``optimize(objfn, k, sspace, objfn_wt)`` returns
    ``(objective values, decisions, misc)``; the same feasibility and truthfulness clauses apply to what they return."""
    import random
    import warnings
    g = ctx.rng("legacy", c)
    name = LEGACY[c % len(LEGACY)]
    multi = name == "UnconstrainedNSGA2SetGeneticAlgorithm"
    k = int(g.integers(1, 7)); n = k + int(g.integers(1, 6)) if g.random() < 0.7 else k + int(g.integers(1, 15))
    sspace = (g.permutation(200)[:n] + int(g.choice([0, 100, 1000]))).astype("int64")
    val = {int(e): v for e, v in zip(sspace, g.uniform(0.5, 1.5, (n, 2)))}
    shape = str(g.choice(["additive", "additive", "pairs"]))

    def objfn(x):
        x = [int(e) for e in numpy.asarray(x).ravel()]
        a = sum(val[e][0] for e in x); b = sum(val[e][1] for e in x)      # a repeated member counts twice: repeating pays
        if shape == "pairs":
            a -= 0.05 * sum(abs(e1 - e2) % 3 for e1, e2 in itertools.combinations(x, 2))
        return (a, -b) if multi else a
    wt = numpy.array([1.0, -1.0]) if multi else 1.0
    seed = int(g.integers(2 ** 31)); random.seed(seed)               # DEAP's selection draws from the python stream
    rng = numpy.random.default_rng(seed) if g.random() < 0.6 else numpy.random.RandomState(seed)
    cls = algo_class(name)
    icls = "function-based optimiser/%s/n-k=%s" % (shape, "1" if n - k == 1 else "2-5" if n - k <= 5 else ">5")
    coords = [c, "legacy"]
    ctx.case("legacy:%s/%s" % (name, icls), name, k, sspace, sorted(val.items()), shape, seed, trivial=n < 2)
    site = name + ".optimize"
    try:
        with warnings.catch_warnings():
            warnings.simplefilter("ignore")
            if name == "UnconstrainedSteepestAscentSetHillClimber":
                algo = cls(rng=rng)
            else:
                mu = int(g.choice([8, 12, 20])); algo = cls(ngen=int(g.integers(3, 30)), mu=mu, lamb=mu, M=float(g.choice([0.5, 1.5, 3.0])), rng=rng)
            ss0 = sspace.copy()
            F, X, misc = algo.optimize(objfn, k, sspace, wt)
    except Exception as e:
        ctx.raised(site, e)
        return
    X2 = numpy.atleast_2d(numpy.asarray(X)); F2 = numpy.asarray(F, dtype=float).reshape(len(X2), -1)
    w = {"class": name, "k": k, "sspace": ss0, "returned": X2, "reported": F2, "seed": seed}
    members = set(ss0.tolist())
    bad = [r.tolist() for r in X2 if len(r) != k or len(set(r.tolist())) != len(r) or not set(r.tolist()) <= members]
    ctx.check("C06.feasible", not bad, site, "returned subsets have the requested size and consist of distinct members of the search space",
              icls, witness=dict(w, offending=bad[:3]), coords=coords)
    pop = misc.get("pop_decn") if isinstance(misc, dict) else None
    if pop is not None:
        badp = [numpy.asarray(r).tolist() for r in pop if len(set(numpy.asarray(r).tolist())) != k or not set(numpy.asarray(r).tolist()) <= members]
        ctx.check("C06.feasible", not badp, site, "final population handed back consists of subsets of distinct members of the search space",
                  icls, witness=dict(w, offending=badp[:3]), coords=coords)
    fresh = numpy.array([numpy.ravel(objfn(r)) for r in X2], dtype=float)
    ctx.check("C06.truthful", fresh.shape == F2.shape and bool(numpy.all(numpy.abs(fresh - F2) <= TOL * (1 + numpy.abs(fresh)))), site,
              "reported objective values equal a fresh evaluation at the returned decision", icls, witness=dict(w, fresh=fresh), coords=coords)
    ctx.check("C06.pure", numpy.array_equal(sspace, ss0), site, "the search space handed in is not modified", icls, witness=w, coords=coords)


def run_shard(ctx):
    for c in ctx.case_ids(16 * 20, 16 * 16 * 60):
        one_run(ctx, c)
    for c in ctx.case_ids(16 * 9, 16 * 16 * 20):
        legacy_run(ctx, c)
    for c in ctx.case_ids(2400, 60000):
        one_run(ctx, c, "cheap")
    # live-object histories; case ids are handed out in whole triples so that A, B, C of one history run in the same shard
    for t_ in ctx.case_ids(16 * 4, 16 * 16 * 6):
        for j_ in range(3):
            one_run(ctx, 3 * t_ + j_, "live")


def replay(ctx, coords):
    c = int(coords[0])
    if coords[1] == "legacy":
        return legacy_run(ctx, c)
    if coords[1] == "live":      # replay the history up to and including the failing problem
        for j_ in range(3 * (c // 3), c):
            one_run(ctx, j_, "live")
    one_run(ctx, c, coords[1])
