"""C13 - relationship (coancestry) matrices match their definitions and algebraic laws."""
import math

import numpy

from pbmon import boot  # noqa: F401
from pbmon.oracle import relmat as O

PROPERTY = "C13"
NSHARDS = {"quick": 4, "thorough": 16}
CLAUSES = {
    "C13.def.molecular": 3000, "C13.def.vanraden": 3000, "C13.def.yang": 2000, "C13.def.gweighted": 3000,
    "C13.kinship": 40000, "C13.symmetric": 10000, "C13.psd": 10000, "C13.labels": 30000,
    "C13.equivariance.perm": 10000, "C13.equivariance.subset": 8000,
    "C13.summary.inverse": 5000, "C13.summary.extreme": 100000, "C13.summary.mean": 40000,
    "C13.summary.min_inbreeding": 5000, "C13.psdflag": 3000,
    "C13.factory": 2500, "C13.intact": 20000,
    "C13.summary.history": 50000,
}
RULE = ("seeded class-based genotype matrices: phased (ploidy,n,m) and unphased (n,m) int8 sources of ploidy 1 and 2; n in 1..40 "
        "(plus n=49/98/103 where 1/(ploidy*n) rounds), m in 1..60 (skewed small, m=1 included); contents random / rare alleles / "
        "monomorphic markers mixed in / all monomorphic / duplicated taxa / all heterozygous / inbred lines; labels present, absent, "
        "duplicate names, grouped or not; every case drives all four estimators with their own argument class (reference "
        "frequencies None | scalar | vector inside (0,1) | vector with exact 0/1 entries; marker weights None | scalar incl. 0 | "
        "vector with zeros | integer vector | all zero | 1e-3..1e3 spread), a random permutation and a random sub-selection, both "
        "output formats, and (every 4th case) the factory classes.  History family: a live, invertible coancestry object (n 2..8, m > n) is "
        "queried for every view, element-access index form (none, int, slices, Ellipsis, mixed, negative, index arrays) and summary, then 3-7 random steps of reorder_taxa (non-identity) / sort_taxa / group_taxa / "
        "remove_taxa / select_taxa (continuing on the result) / mat assignment (same shape: permuted, scaled+ridge, fresh Gram) / no-op, "
        "with every view and summary re-judged against the CURRENT mat after each step.  Non-trivial: n >= 2 and m >= 2; distinct = digest of the raw "
        "allele array, labels and all arguments.")
ASSUME = [
    "molecular coancestry of an individual with itself draws the two alleles independently (with replacement): homozygote 2, "
    "heterozygous diploid 1",
    "unphased dosage x stands for x copies of allele 1 and ploidy-x copies of allele 0",
    "VanRaden = method 1 of VanRaden (2008) with 2 replaced by the ploidy; Yang = uniform per-marker scaling "
    "(x-cp)(x'-cp)/(c p(1-p)) averaged over markers for every entry including the diagonal (the Gram form, the only reading "
    "under which the property's PSD clause can hold); generalised weighted = Z diag(w) Z'",
    "domain: VanRaden needs sum p(1-p) > 0, Yang needs every p strictly inside (0,1) (for p=None: of the sample frequencies); "
    "cases outside are not driven for that estimator and are counted under counters['out of domain: ...']",
    "inverse / minimum inbreeding are only judged when the matrix is numerically invertible (eigenvalue ratio <= 1e6); a "
    "LinAlgError on a singular matrix is counted as raised, not as a violation",
    "is_positive_semidefinite() is only judged where the answer does not depend on a tolerance choice (smallest eigenvalue "
    "beyond 1e-6 of the largest in either direction)",
    "argument arrays are float64 or integer typed (a float32 frequency vector makes the library evaluate the scaling constant in "
    "single precision; that is the precision the caller supplied and is not driven)",
    "history clause: the in-place operations themselves are not judged (C03); only that views/summaries describe the current "
    "mat.  append/incorp/insert on square matrices (FIXME-marked, NaN-filled blocks), apply_jitter (global numpy stream) and "
    "element writes into the array returned by .mat are not driven",
    "numpy.linalg.eigvalsh / solve and long-double accumulation are correct (trusted base)",
]
TRUSTED = ["pbmon/oracle/relmat.py"]

KINDS = [("phased diploid", 2, True), ("unphased diploid", 2, False), ("phased haploid", 1, True), ("unphased haploid", 1, False)]
FORMATS = ("coancestry", "kinship")


# ------------------------------------------------------------------ helpers
def defsite(obj, meth):
    """Name of the class in the MRO that defines ``meth`` (finding keys name the implementing class)."""
    for k in type(obj).__mro__:
        if meth in vars(k):
            return "%s.%s" % (k.__name__, meth)
    return "%s.%s" % (type(obj).__name__, meth)


def same_labels(a, b):
    if a is None or b is None:
        return a is None and b is None
    a = numpy.asarray(a); b = numpy.asarray(b)
    return a.shape == b.shape and a.tolist() == b.tolist()


def classes():
    from pybrops.popgen.cmat.DenseMolecularCoancestryMatrix import DenseMolecularCoancestryMatrix as Mol
    from pybrops.popgen.cmat.DenseVanRadenCoancestryMatrix import DenseVanRadenCoancestryMatrix as VR
    from pybrops.popgen.cmat.DenseYangCoancestryMatrix import DenseYangCoancestryMatrix as YG
    from pybrops.popgen.cmat.DenseGeneralizedWeightedCoancestryMatrix import DenseGeneralizedWeightedCoancestryMatrix as GW
    from pybrops.popgen.cmat.fcty.DenseMolecularCoancestryMatrixFactory import DenseMolecularCoancestryMatrixFactory as FMol
    from pybrops.popgen.cmat.fcty.DenseVanRadenCoancestryMatrixFactory import DenseVanRadenCoancestryMatrixFactory as FVR
    from pybrops.popgen.cmat.fcty.DenseYangCoancestryMatrixFactory import DenseYangCoancestryMatrixFactory as FYG
    from pybrops.popgen.cmat.fcty.DenseGeneralizedWeightedCoancestryMatrixFactory import \
        DenseGeneralizedWeightedCoancestryMatrixFactory as FGW
    return {"molecular": (Mol, FMol), "vanraden": (VR, FVR), "yang": (YG, FYG), "gweighted": (GW, FGW)}


def make_gmat(alleles, phased, ploidy, taxa, taxa_grp):
    """Build the library object from the raw allele array (ploidy, n, m)."""
    from pybrops.popgen.gmat.DensePhasedGenotypeMatrix import DensePhasedGenotypeMatrix
    from pybrops.popgen.gmat.DenseGenotypeMatrix import DenseGenotypeMatrix
    t = None if taxa is None else taxa.copy()
    tg = None if taxa_grp is None else taxa_grp.copy()
    if phased:
        return DensePhasedGenotypeMatrix(numpy.ascontiguousarray(alleles.astype("int8")), taxa=t, taxa_grp=tg)
    return DenseGenotypeMatrix(alleles.sum(0).astype("int8"), taxa=t, taxa_grp=tg, ploidy=int(ploidy))


# ------------------------------------------------------------------ generators
def gen_source(g):
    kname, ploidy, phased = KINDS[int(g.choice(4, p=[0.35, 0.35, 0.15, 0.15]))]
    r = g.random()
    if r < 0.08:
        n = 1
    elif r < 0.16:
        n = 2
    elif r < 0.22:
        n = int(g.choice([49, 98, 103]))
    elif r < 0.80:
        n = int(g.integers(3, 13))
    else:
        n = int(g.integers(13, 41))
    r = g.random()
    m = 1 if r < 0.08 else (int(g.integers(2, 9)) if r < 0.45 else int(g.integers(9, 61)))
    if g.random() < 0.04 and n <= 12:
        m = int(g.choice([128, 130, 200, 300]))   # more than 127 markers: narrow integer accumulators (int8) would wrap
    content = str(g.choice(["random", "random", "rare", "mono-mixed", "all-mono", "duplicates", "all-het", "inbred"]))
    if content == "all-het" and ploidy == 1:
        content = "random"
    q = g.uniform(0, 1, m)
    if content == "rare":
        q = g.choice([0.03, 0.97, 0.1], m)
    A = (g.random((ploidy, n, m)) < q[None, None, :]).astype(numpy.int64)
    if content == "mono-mixed":
        for k in range(m):
            if g.random() < 0.4:
                A[:, :, k] = int(g.integers(0, 2))
    elif content == "all-mono":
        A[:, :, :] = g.integers(0, 2, m)[None, None, :]
    elif content == "duplicates":
        u = max(1, n // 3)
        A = A[:, g.integers(0, u, n), :]
    elif content == "all-het":
        first = g.integers(0, 2, (n, m)); A[0] = first; A[1] = 1 - first
    elif content == "inbred" and ploidy == 2:
        A[1] = A[0]
    # labels
    lab = str(g.choice(["named", "named", "named+grp", "named+grp", "grouped", "grouped", "dupnames", "none", "grp-only"]))
    taxa = taxa_grp = None
    if lab in ("named", "named+grp", "grouped", "dupnames"):
        taxa = numpy.array(["t%03d" % i for i in g.permutation(n)], dtype=object)
        if lab == "dupnames" and n > 1:
            taxa[g.integers(0, n, max(1, n // 2))] = "same"
    if lab in ("named+grp", "grouped", "grp-only", "dupnames"):
        taxa_grp = g.integers(0, 4, n).astype("int64")
    return {"kind": kname, "ploidy": ploidy, "phased": phased, "n": n, "m": m, "content": content, "labels": lab,
            "alleles": A, "taxa": taxa, "taxa_grp": taxa_grp}


def gen_freq(g, m, mode):
    """Reference-frequency argument of class ``mode``; returns (argument as passed, class name)."""
    if mode == "none":
        return None
    if mode == "scalar":
        v = float(g.choice([0.5, 0.25, 0.1, float(g.uniform(0.02, 0.98))]))
        return numpy.float64(v) if g.random() < 0.3 else v
    if mode == "scalar-boundary":
        v = int(g.integers(0, 2))
        return [v, float(v), numpy.float64(v)][int(g.integers(0, 3))]
    if mode == "vector":
        p = g.uniform(0.02, 0.98, m)
        if g.random() < 0.2:
            p[g.random(m) < 0.3] = float(g.choice([1e-4, 1 - 1e-4, 0.5]))
        return p
    if mode == "vector-boundary":
        p = g.uniform(0, 1, m)
        b = g.random(m) < 0.5
        p[b] = g.choice([0.0, 1.0], int(b.sum()))
        return p
    raise ValueError(mode)


def gen_weights(g, m):
    mode = str(g.choice(["none", "scalar", "vector-zeros", "int-vector", "all-zero", "spread", "uniform"]))
    if mode == "none":
        return None, mode
    if mode == "scalar":
        v = [0.0, 1.0, 2.5, 3, numpy.float64(0.5)][int(g.integers(0, 5))]
        return v, mode
    if mode == "vector-zeros":
        w = g.uniform(0, 3, m); w[g.random(m) < 0.4] = 0.0
        return w, mode
    if mode == "int-vector":
        return g.integers(0, 4, m).astype("int64"), mode
    if mode == "all-zero":
        return numpy.zeros(m), mode
    if mode == "spread":
        return 10.0 ** g.uniform(-3, 3, m), mode
    return g.uniform(0, 2, m), mode


def freq_vector(arg, x, ploidy, m):
    """The reference frequencies the definition uses for argument ``arg`` (long double)."""
    if arg is None:
        return O.sample_freq(x, ploidy)
    if numpy.ndim(arg) == 0:
        return numpy.full(m, O.LD(float(arg)), dtype=O.LD)
    return numpy.asarray(arg, dtype=O.LD)


# ------------------------------------------------------------------ monitors on one matrix
def returns(ctx, site, icls, coords, call, witness=None):
    """Affirmative-result policy: an exception on an in-domain input is a violation."""
    try:
        out = call()
    except Exception as e:
        ctx.ok("C13.returns")
        ctx.violation("C13.returns", site, "raised %s" % type(e).__name__, icls,
                      what="%s raised %s: %s" % (site, type(e).__name__, str(e)[:160]), witness=witness, coords=coords)
        return False, None
    return True, out


def judge_matrix(ctx, est, cm, src, icls, coords, wit):
    """symmetry, PSD, labels, kinship view, summaries, PSD flag, intactness of one coancestry object."""
    G = numpy.array(cm.mat, dtype=float, copy=True)
    n = G.shape[0]
    fsite = "%s.from_gmat" % type(cm).__name__
    finite = bool(numpy.all(numpy.isfinite(G)))
    big = float(numpy.abs(G).max()) if G.size and finite else 0.0
    dscale = float(numpy.abs(numpy.diag(G)).max()) if finite else 0.0
    scale = max(big, dscale)
    # -- symmetric
    asym = O.maxerr(G, G.T)
    ctx.maxnote("asymmetry / tolerance", asym / O.tol(scale) if asym < float("inf") else 0.0)
    ctx.check("C13.symmetric", asym <= O.tol(scale), fsite, "mat == mat.T", icls, witness=dict(wit, mat=G), coords=coords)
    # -- PSD up to rounding
    w = None
    if finite:
        w = numpy.linalg.eigvalsh(0.5 * (G + G.T))
        tr = float(numpy.trace(G))
        ctx.maxnote("most negative eigenvalue / trace", float(-w.min() / tr) if tr > 0 else 0.0)
        ctx.check("C13.psd", w.min() >= -(1e-9 * abs(tr) + 1e-12), fsite, "smallest eigenvalue >= -1e-9*trace", icls,
                  witness=dict(wit, mat=G, eigmin=float(w.min())), coords=coords)
    else:
        ctx.check("C13.psd", False, fsite, "finite entries", icls, witness=dict(wit, mat=G), coords=coords)
    # -- labels of the source
    lcls = src["labels"]
    okl = same_labels(cm.taxa, src["taxa_now"])
    ctx.check("C13.labels", okl, fsite, "taxa == source taxa", lcls,
              witness=dict(wit, got=cm.taxa, source=src["taxa_now"]), coords=coords)
    ctx.check("C13.labels", same_labels(cm.taxa_grp, src["grp_now"]), fsite, "taxa_grp == source taxa_grp", lcls,
              witness=dict(wit, got=cm.taxa_grp, source=src["grp_now"]), coords=coords)
    for f in ("taxa_grp_name", "taxa_grp_stix", "taxa_grp_spix", "taxa_grp_len"):
        got = getattr(cm, f)
        if got is not None:  # group index metadata, when carried, must be the source's
            ctx.check("C13.labels", same_labels(got, src["meta_now"][f]), fsite, "%s == source %s" % (f, f), lcls,
                      witness=dict(wit, got=got, source=src["meta_now"][f]), coords=coords)
    judge_readonly(ctx, cm, G, src["pair"], src["axis"], coords, wit)
    return G


def judge_readonly(ctx, cm, G, pair, axis, coords, wit, state=None):
    """Views, element access, summaries, PSD flag of a live object against direct evaluation on ``G`` (a copy of its
    CURRENT ``mat``).  With ``state`` (history mode) every evaluation counts under C13.summary.history and the finding
    key's input class is the state of the object ("after in-place taxa reordering", ...), the site the summary method."""
    def cl(name):
        return "C13.summary.history" if state else name

    def ic(x):
        return state if state else x
    n = G.shape[0]
    finite = bool(numpy.all(numpy.isfinite(G)))
    scale = float(numpy.abs(G).max()) if G.size and finite else 0.0
    w = numpy.linalg.eigvalsh(0.5 * (G + G.T)) if finite and n else None
    # -- kinship view = exactly half the coancestry view
    ok, views = returns(ctx, defsite(cm, "mat_asformat"), ic("both formats"), coords,
                        lambda: (cm.mat_asformat("coancestry"), cm.mat_asformat("kinship")), wit)
    if ok:
        co, ki = views
        ctx.check(cl("C13.kinship"), isinstance(co, numpy.ndarray) and numpy.array_equal(co, G, equal_nan=True),
                  defsite(cm, "mat_asformat"), "coancestry view == mat", ic("coancestry"), witness=dict(wit, mat=G, view=co), coords=coords)
        ctx.check(cl("C13.kinship"), isinstance(ki, numpy.ndarray) and numpy.array_equal(ki, 0.5 * G, equal_nan=True),
                  defsite(cm, "mat_asformat"), "kinship view == 0.5 * coancestry view (exact)", ic("kinship"),
                  witness=dict(wit, mat=G, view=ki), coords=coords)
    i, j = pair
    if n:
        i %= n; j %= n
        ok, v = returns(ctx, defsite(cm, "kinship"), ic("element access"), coords, lambda: (cm.coancestry(i, j), cm.kinship(i, j)), wit)
        if ok:
            ctx.check(cl("C13.kinship"), v[0] == G[i, j] or (v[0] != v[0] and G[i, j] != G[i, j]), defsite(cm, "coancestry"),
                      "coancestry(i,j) == mat[i,j]", ic("element access"), witness=dict(wit, i=i, j=j, got=v[0], mat=G), coords=coords)
            ctx.check(cl("C13.kinship"), v[1] == 0.5 * G[i, j] or (v[1] != v[1] and G[i, j] != G[i, j]), defsite(cm, "kinship"),
                      "kinship(i,j) == 0.5 * coancestry(i,j) (exact)", ic("element access"),
                      witness=dict(wit, i=i, j=j, got=v[1], mat=G), coords=coords)
        # every index form the accessors accept (they forward the arguments to mat[...]); each answer is judged against the
        # snapshot G, and the stored matrix must still equal G right after the access (an index that yields a numpy view
        # must not be scaled in place).  Summaries below are judged against the same G, so they see any damage done here.
        a, b = sorted((i, j)); b = b + 1
        ia = numpy.array([i, j, (i + j) % n]); ib = numpy.array([j, j, i])
        forms = [("no arguments", ()), ("single int (row)", (i,)), ("slices", (slice(a, b), slice(0, max(1, n - 1)))),
                 ("single slice", (slice(a, b),)), ("Ellipsis", (Ellipsis,)), ("int and slice", (i, slice(None))),
                 ("slice and int", (slice(None, None, 2), j)), ("negative ints", (-1 - i, -1 - j)),
                 ("index arrays", (ia, ib)), ("single index array", (ia,)), ("int and Ellipsis", (j, Ellipsis))]
        for fname, args in forms:
            viewform = isinstance(G[args], numpy.ndarray) and numpy.shares_memory(G[args], G)
            kind = "index form yields a view" if viewform else "index form yields a copy or scalar"
            ref = numpy.array(G[args], copy=True)
            for meth, hh in (("coancestry", 1.0), ("kinship", 0.5)):
                site = defsite(cm, meth)
                before = numpy.array(cm.mat, copy=True)  # blame only the access that changes the stored matrix
                ok, got = returns(ctx, site, ic("element access"), coords, lambda: getattr(cm, meth)(*args), dict(wit, index=fname))
                if not ok:
                    continue
                gotc = numpy.array(got, dtype=float, copy=True)
                ctx.check(cl("C13.kinship"), gotc.shape == ref.shape and numpy.array_equal(gotc, hh * ref, equal_nan=True), site,
                          "%s(index) == %s mat[index] (exact)" % (meth, "" if hh == 1.0 else "0.5 *"), ic("element access"),
                          witness=dict(wit, index=fname, got=gotc, expected=hh * ref, mat=G), coords=coords)
                del got
                ctx.check(cl("C13.intact"), numpy.array_equal(cm.mat, before, equal_nan=True), site,
                          "mat unchanged by element access (%s)" % kind, ic("after read-only calls"),
                          witness=dict(wit, index=fname, before=before, after=cm.mat), coords=coords)
    if not finite:
        return
    # -- summaries against direct evaluation on the matrix
    flat = G.ravel().tolist()
    for fmt in FORMATS:
        h = 1.0 if fmt == "coancestry" else 0.5
        K = h * G
        kflat = [h * v for v in flat]
        # extreme values
        for name, ref in (("max", max(kflat)), ("min", min(kflat)), ("max_inbreeding", max(h * G[a, a] for a in range(n)))):
            site = defsite(cm, name)
            ok, got = returns(ctx, site, ic(fmt), coords, lambda: getattr(cm, name)(format=fmt), wit)
            if ok:
                ctx.check(cl("C13.summary.extreme"), numpy.ndim(got) == 0 and float(got) == ref, site, "== direct evaluation on mat (exact)",
                          ic(fmt), witness=dict(wit, mat=G, got=got, expected=ref), coords=coords)
        ax = axis
        for name, ref in (("max", K.max(axis=ax)), ("min", K.min(axis=ax))):
            site = defsite(cm, name)
            ok, got = returns(ctx, site, ic(fmt + "/axis"), coords, lambda: getattr(cm, name)(format=fmt, axis=ax), wit)
            if ok:
                refl = [max(col) if name == "max" else min(col) for col in (K.T.tolist() if ax == 0 else K.tolist())]
                ctx.check(cl("C13.summary.extreme"), numpy.shape(got) == (n,) and numpy.asarray(got).tolist() == refl, site,
                          "== direct evaluation on mat (exact)", ic(fmt + "/axis"), witness=dict(wit, mat=G, axis=ax, got=got, expected=refl),
                          coords=coords)
        # mean
        site = defsite(cm, "mean")
        ref = math.fsum(kflat) / (n * n)
        ok, got = returns(ctx, site, ic(fmt), coords, lambda: cm.mean(format=fmt), wit)
        if ok:
            err = abs(float(got) - ref) if numpy.ndim(got) == 0 else float("inf")
            ctx.maxnote("mean error / tolerance", err / O.tol(h * scale))
            ctx.check(cl("C13.summary.mean"), err <= O.tol(h * scale), site, "== sum(mat)/n^2", ic(fmt),
                      witness=dict(wit, mat=G, got=got, expected=ref), coords=coords)
        ok, got = returns(ctx, site, ic(fmt + "/axis"), coords, lambda: cm.mean(format=fmt, axis=ax), wit)
        if ok:
            refl = [math.fsum(col) / n for col in (K.T.tolist() if ax == 0 else K.tolist())]
            ctx.check(cl("C13.summary.mean"), O.maxerr(got, refl) <= O.tol(h * scale), site, "== sum(mat)/n^2", ic(fmt + "/axis"),
                      witness=dict(wit, mat=G, axis=ax, got=got, expected=refl), coords=coords)
        # inverse and minimum attainable inbreeding
        invertible = w.min() > 0 and w.max() / w.min() <= 1e6
        if not invertible:
            ctx.sumnote("matrices not numerically invertible (inverse / min_inbreeding not judged)")
            for name in ("inverse", "min_inbreeding"):
                try:
                    getattr(cm, name)(format=fmt)
                except Exception as e:
                    ctx.raised("%s on a singular matrix" % name, e)
            continue
        cond = float(w.max() / w.min())
        Ks = 0.5 * (K + K.T)
        site = defsite(cm, "inverse")
        ok, got = returns(ctx, site, ic(fmt), coords, lambda: cm.inverse(format=fmt), wit)
        if ok:
            ref = numpy.linalg.solve(Ks.astype(O.LD).astype(float), numpy.eye(n))
            # the defining relation, judged on the residual: K @ got == I
            good = isinstance(got, numpy.ndarray) and got.shape == (n, n) and bool(numpy.all(numpy.isfinite(got)))
            res = float(numpy.abs(K @ got - numpy.eye(n)).max()) if good else float("inf")
            err = O.maxerr(got, ref) if good else float("inf")
            lim = 1e-9 * cond * max(1.0, float(numpy.abs(ref).max()))  # conditioning enters the attainable accuracy
            ctx.maxnote("inverse residual", res if res < float("inf") else 0.0)
            ctx.check(cl("C13.summary.inverse"), res <= 1e-9 * cond + 1e-12 and err <= lim + 1e-12, site, "mat @ inverse == I", ic(fmt),
                      witness=dict(wit, mat=G, got=got, residual=res, err=err, cond=cond), coords=coords)
        site = defsite(cm, "min_inbreeding")
        ok, got = returns(ctx, site, ic(fmt), coords, lambda: cm.min_inbreeding(format=fmt), wit)
        if ok:
            # minimum of x'Kx subject to sum(x) = 1, from the KKT system (not from the closed form)
            kkt = numpy.zeros((n + 1, n + 1)); kkt[:n, :n] = 2 * Ks; kkt[:n, n] = 1.0; kkt[n, :n] = 1.0
            rhs = numpy.zeros(n + 1); rhs[n] = 1.0
            xs = numpy.linalg.solve(kkt, rhs)[:n]
            ref = float(xs @ Ks @ xs)
            err = abs(float(got) - ref) if numpy.ndim(got) == 0 else float("inf")
            lim = 1e-9 * cond * max(abs(ref), h * scale) + 1e-12
            ctx.maxnote("min_inbreeding error / tolerance", err / lim)
            ctx.check(cl("C13.summary.min_inbreeding"), err <= lim, site, "== min x'Gx subject to sum(x)=1", ic(fmt),
                      witness=dict(wit, mat=G, got=got, expected=ref, cond=cond), coords=coords)
    # -- PSD flag where it does not depend on a tolerance choice
    s = float(numpy.abs(w).max())
    if s > 0 and abs(w.min()) > 1e-6 * s:
        site = defsite(cm, "is_positive_semidefinite")
        ok, got = returns(ctx, site, ic("clear-cut spectrum"), coords, lambda: cm.is_positive_semidefinite(), wit)
        if ok:
            ctx.check(cl("C13.psdflag"), bool(got) == bool(w.min() > 0), site, "flag == (smallest eigenvalue >= 0)", ic("clear-cut spectrum"),
                      witness=dict(wit, mat=G, got=got, eigmin=float(w.min())), coords=coords)
    # -- read-only calls left the matrix alone
    ctx.check(cl("C13.intact"), numpy.array_equal(cm.mat, G, equal_nan=True), "DenseCoancestryMatrix",
              "mat unchanged by views and summaries", ic("after read-only calls"), witness=dict(wit, before=G, after=cm.mat), coords=coords)


# ------------------------------------------------------------------ one case
def estimator_plan(g, src):
    """Arguments (and their class) for the four estimators; None when the case is outside an estimator's domain."""
    m, ploidy = src["m"], src["ploidy"]
    x = O.dosage(src["alleles_now"])
    phat = O.sample_freq(x, ploidy)
    poly_any = bool(numpy.any((phat > 0) & (phat < 1)))
    poly_all = bool(numpy.all((phat > 0) & (phat < 1)))
    plan = {"molecular": ({}, "no arguments")}
    # VanRaden
    mode = str(g.choice(["none", "scalar", "vector", "vector-boundary"]))
    arg = gen_freq(g, m, mode)
    if mode == "none" and not poly_any:
        plan["vanraden"] = None
    else:
        if mode == "vector-boundary" and not numpy.any((arg > 0) & (arg < 1)):
            arg[int(g.integers(m))] = 0.5
        plan["vanraden"] = ({"p_anc": arg}, "p_anc " + mode)
    # Yang
    mode = str(g.choice(["none", "scalar", "vector"]))
    arg = gen_freq(g, m, mode)
    plan["yang"] = None if (mode == "none" and not poly_all) else ({"p_anc": arg}, "p_anc " + mode)
    # generalised weighted
    mode = str(g.choice(["none", "scalar", "scalar-boundary", "vector", "vector-boundary", "int-vector"]))
    arg = g.integers(0, 2, m).astype("int64") if mode == "int-vector" else gen_freq(g, m, mode)
    wt, wmode = gen_weights(g, m)
    plan["gweighted"] = ({"mkrwt": wt, "afreq": arg}, "afreq %s/mkrwt %s" % (mode, wmode))
    return plan


def expected(est, kwargs, alleles, ploidy):
    x = O.dosage(alleles)
    m = x.shape[1]
    if est == "molecular":
        return O.molecular_float(alleles), 2.0
    if est == "vanraden":
        return O.vanraden(x, ploidy, freq_vector(kwargs["p_anc"], x, ploidy, m))
    if est == "yang":
        return O.yang(x, ploidy, freq_vector(kwargs["p_anc"], x, ploidy, m))
    w = kwargs["mkrwt"]
    w = numpy.ones(m) if w is None else (numpy.full(m, float(w)) if numpy.ndim(w) == 0 else w)
    return O.gweighted(x, ploidy, freq_vector(kwargs["afreq"], x, ploidy, m), w)


def key_class(est, kwargs, ploidy):
    """Coarse input class for finding keys: ploidy path and how the reference frequencies / weights were supplied."""
    parts = ["ploidy %d" % ploidy]
    for name in ("p_anc", "afreq"):
        if name in kwargs:
            v = kwargs[name]
            parts.append("re-estimated frequencies" if v is None else ("scalar frequency" if numpy.ndim(v) == 0 else "frequency vector"))
    if "mkrwt" in kwargs:
        parts.append("default weights" if kwargs["mkrwt"] is None else "given weights")
    return "/".join(parts)


def copy_kwargs(kw):
    return {k: (v.copy() if isinstance(v, numpy.ndarray) else v) for k, v in kw.items()}


def one_case(ctx, c):
    g = ctx.rng("rel", c)
    src = gen_source(g)
    A, ploidy, phased, n, m = src["alleles"], src["ploidy"], src["phased"], src["n"], src["m"]
    coords = [c, "rel"]
    gm = make_gmat(A, phased, ploidy, src["taxa"], src["taxa_grp"])
    if src["labels"] == "grouped":
        try:
            gm.group_taxa()
        except Exception as e:  # not this property's business
            ctx.raised("group_taxa (workload set-up)", e)
    # the source as handed to the estimators (read back through plain attributes after the optional grouping)
    raw = numpy.array(gm.mat, copy=True)
    A_now = raw.astype(numpy.int64) if phased else O.alleles_from_dosage(raw, ploidy)
    src["alleles_now"] = A_now
    src["taxa_now"] = None if gm.taxa is None else gm.taxa.copy()
    src["grp_now"] = None if gm.taxa_grp is None else gm.taxa_grp.copy()
    src["meta_now"] = {f: (None if getattr(gm, f) is None else numpy.array(getattr(gm, f), copy=True))
                       for f in ("taxa_grp_name", "taxa_grp_stix", "taxa_grp_spix", "taxa_grp_len")}
    src["pair"] = (int(g.integers(0, 1 << 30)), int(g.integers(0, 1 << 30)))
    src["axis"] = int(g.integers(0, 2))
    plan = estimator_plan(g, src)
    perm = g.permutation(n)
    ksub = int(g.integers(1, n + 1))
    sub = g.permutation(n)[:ksub]
    use_factory = (c % 4 == 0)
    ctx.case("%s/%s/%s" % (src["kind"], src["content"], src["labels"]), raw, src["taxa_now"], src["grp_now"],
             repr({k: (None if v is None else {a: (b.tolist() if isinstance(b, numpy.ndarray) else b) for a, b in v[0].items()})
                   for k, v in plan.items()}), perm, sub, trivial=(n < 2 or m < 2))
    if c % 101 == 0:
        ctx.sample({"case": c, "kind": src["kind"], "content": src["content"], "labels": src["labels"], "n": n, "m": m,
                    "mat": raw if raw.size <= 200 else "shape %s" % (raw.shape,), "taxa": src["taxa_now"],
                    "arguments": {k: (None if v is None else v[1]) for k, v in plan.items()}})
    cls = classes()
    for est in ("molecular", "vanraden", "yang", "gweighted"):
        if plan[est] is None:
            ctx.sumnote("out of domain: %s with sample frequencies on the boundary" % est)
            continue
        kwargs, acls = plan[est]
        Cls, Fac = cls[est]
        icls = key_class(est, kwargs, ploidy)
        ctx.sumnote("driven: %s on %s with %s" % (est, src["kind"], acls))
        site = "%s.from_gmat" % Cls.__name__
        wit = {"estimator": est, "source": src["kind"], "source_mat": raw, "ploidy": ploidy, "argument_class": acls, "arguments": kwargs}
        ok, cm = returns(ctx, site, icls, coords, lambda: Cls.from_gmat(gm, **copy_kwargs(kwargs)), wit)
        if not ok:
            continue
        exp, esc = expected(est, kwargs, A_now, ploidy)
        good = isinstance(cm, Cls) and isinstance(cm.mat, numpy.ndarray) and cm.mat.shape == (n, n) and cm.mat.dtype == numpy.float64
        err = O.maxerr(cm.mat, exp) if good else float("inf")
        ctx.maxnote("%s definition error / tolerance" % est, err / O.tol(esc) if err < float("inf") else 0.0)
        ctx.check("C13.def.%s" % est, err <= O.tol(esc), site, "mat == published formula", icls,
                  witness=dict(wit, got=cm.mat if good else repr(cm), expected=exp, err=err), coords=coords)
        ctx.check("C13.intact", numpy.array_equal(gm.mat, raw) and same_labels(gm.taxa, src["taxa_now"])
                  and same_labels(gm.taxa_grp, src["grp_now"]), site, "source genotype matrix unchanged", src["kind"], witness=wit, coords=coords)
        if not good:
            continue
        G = judge_matrix(ctx, est, cm, src, icls, coords, wit)
        # -- permutation / sub-selection of taxa commute with the estimator
        reest = any(v is None for k, v in kwargs.items() if k in ("p_anc", "afreq")) and est != "molecular"
        for idx, clause, what in ((perm, "C13.equivariance.perm", "permutation"), (sub, "C13.equivariance.subset", "sub-selection")):
            if reest and clause.endswith("subset"):
                continue  # re-estimated reference frequencies change with the subset: not claimed
            ecls = icls
            t2 = None if src["taxa_now"] is None else src["taxa_now"][idx]
            g2 = None if src["grp_now"] is None else src["grp_now"][idx]
            gm2 = make_gmat(A_now[:, idx, :], phased, ploidy, t2, g2)
            ok, cm2 = returns(ctx, site, ecls + "/" + what, coords, lambda: Cls.from_gmat(gm2, **copy_kwargs(kwargs)), wit)
            if not ok:
                continue
            ref = G[idx][:, idx]
            e2 = O.maxerr(cm2.mat, ref)
            ctx.check(clause, e2 <= O.tol(esc) and same_labels(cm2.taxa, t2), site, "f(G[idx]) == f(G)[idx][:,idx] with labels", ecls,
                      witness=dict(wit, index=idx, got=cm2.mat, expected=ref, taxa=cm2.taxa, taxa_expected=t2), coords=coords)
        # -- factory gives the same object
        if use_factory:
            fsite = "%s.from_gmat" % Fac.__name__
            ok, cf = returns(ctx, fsite, icls, coords, lambda: Fac().from_gmat(gm, **copy_kwargs(kwargs)), wit)
            if ok:
                ctx.check("C13.factory", type(cf) is Cls and O.maxerr(cf.mat, G) <= O.tol(esc) and same_labels(cf.taxa, cm.taxa)
                          and same_labels(cf.taxa_grp, cm.taxa_grp), fsite, "factory result == class constructor result", icls,
                          witness=dict(wit, got=getattr(cf, "mat", repr(cf)), expected=G), coords=coords)



# ------------------------------------------------------------------ summary calls along an operation history
HIST_OPS = ["reorder_taxa", "reorder_taxa", "sort_taxa", "group_taxa", "remove_taxa", "select_taxa", "assign mat", "assign mat", "no-op"]
STATE_OF = {"reorder_taxa": "after in-place taxa reordering", "sort_taxa": "after in-place taxa reordering",
            "group_taxa": "after in-place taxa reordering", "remove_taxa": "after in-place taxa removal",
            "select_taxa": "on a select_taxa result object", "assign mat": "after mat assignment",
            "no-op": None}


def case_history(ctx, c):
    """A live coancestry object is queried (all views and summaries), changed through the public in-place API, and queried
    again; after every step every answer must describe the object's CURRENT ``mat``.  Whether the operation itself
    permuted/removed the right rows is C03's business: the reference is always recomputed from ``cm.mat`` as it now is."""
    g = ctx.rng("hist", c)
    coords = [c, "hist"]
    ploidy = int(g.choice([1, 2], p=[0.3, 0.7])); phased = bool(g.random() < 0.5)
    n = int(g.integers(2, 9)); m = int(g.integers(n + 2, 41))
    A = (g.random((ploidy, n, m)) < g.uniform(0.15, 0.85, m)[None, None, :]).astype(numpy.int64)
    lab = str(g.choice(["named+grp", "named+grp", "named", "grp-only", "none"]))
    taxa = numpy.array(["t%03d" % i for i in g.permutation(n)], dtype=object) if lab in ("named", "named+grp") else None
    grp = g.integers(0, 3, n).astype("int64") if lab in ("named+grp", "grp-only") else None
    gm = make_gmat(A, phased, ploidy, taxa, grp)
    est = str(g.choice(["molecular", "vanraden", "yang", "gweighted"]))
    if est == "molecular":
        kwargs = {}
    elif est == "gweighted":
        kwargs = {"mkrwt": g.uniform(0.2, 2.0, m), "afreq": g.uniform(0.1, 0.9, m)}
    else:
        kwargs = {"p_anc": g.uniform(0.1, 0.9, m)}
    Cls = classes()[est][0]
    nsteps = int(g.integers(3, 8))
    ops = [str(g.choice(HIST_OPS)) for _ in range(nsteps)]
    ctx.case("history/%s/%s" % (est, lab), A, phased, taxa, grp, repr(sorted((k, v.tolist()) for k, v in kwargs.items())), ops)
    if c % 101 == 0:
        ctx.sample({"case": c, "family": "history", "estimator": est, "n": n, "m": m, "labels": lab, "operations": ops})
    wit = {"estimator": est, "source_mat": numpy.array(gm.mat, copy=True), "ploidy": ploidy, "arguments": kwargs, "history": []}
    ok, cm = returns(ctx, "%s.from_gmat" % Cls.__name__, "history set-up", coords, lambda: Cls.from_gmat(gm, **copy_kwargs(kwargs)), wit)
    if not ok:
        return
    pair = (int(g.integers(0, 1 << 30)), int(g.integers(0, 1 << 30)))
    state = "on a fresh object"
    for step in range(nsteps + 1):
        G = numpy.array(cm.mat, dtype=float, copy=True)
        judge_readonly(ctx, cm, G, pair, int(g.integers(0, 2)), coords, dict(wit, history=list(wit["history"]), state=state), state=state)
        if step == nsteps:
            break
        op = ops[step]
        nn = G.shape[0]
        detail = None
        try:
            if op == "reorder_taxa":
                if nn < 2:
                    op = "no-op"
                else:
                    perm = g.permutation(nn)
                    while numpy.array_equal(perm, numpy.arange(nn)):
                        perm = g.permutation(nn)
                    detail = perm.tolist(); cm.reorder_taxa(perm)
            elif op == "sort_taxa":
                cm.sort_taxa()
            elif op == "group_taxa":
                cm.group_taxa()
            elif op == "remove_taxa":
                if nn < 3:
                    op = "no-op"
                else:
                    detail = int(g.integers(0, nn)); cm.remove_taxa(detail)
            elif op == "select_taxa":
                k = int(g.integers(2, nn + 1)) if nn >= 2 else nn
                idx = g.permutation(nn)[:k]
                detail = idx.tolist(); cm = cm.select_taxa(idx)
            elif op == "assign mat":
                mode = int(g.integers(0, 3)); detail = ["permuted", "scaled + ridge", "fresh Gram matrix"][mode]
                if mode == 0 and nn >= 2:
                    perm = numpy.roll(numpy.arange(nn), 1); new = numpy.ascontiguousarray(G[perm][:, perm])
                elif mode == 1:
                    new = 1.5 * G + numpy.diag(g.uniform(0.1, 1.0, nn))
                else:
                    B = g.normal(size=(nn, nn + 3)); new = B @ B.T / (nn + 3)
                cm.mat = new
        except Exception as e:  # the operation is not this property's subject (policy 2.1: state clauses)
            ctx.raised("history operation %s" % op, e)
            wit["history"].append([op, detail, "raised %s" % type(e).__name__])
            continue
        wit["history"].append([op, detail])
        ctx.sumnote("history steps: %s" % op)
        if not numpy.array_equal(cm.mat, G):
            ctx.sumnote("history steps that changed mat")
        if op != "no-op":  # a repeated query keeps the class of the last change
            state = STATE_OF[op]


FAMILIES = {"rel": (one_case, 10000, 300000), "hist": (case_history, 1500, 40000)}


def run_shard(ctx):
    for name, (fn, q, t) in FAMILIES.items():
        for c in ctx.case_ids(q, t):
            fn(ctx, c)


def replay(ctx, coords):
    FAMILIES[coords[1]][0](ctx, int(coords[0]))
